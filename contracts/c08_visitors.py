"""C08 - the tree-walking code: class-based ast.NodeVisitor / ast.NodeTransformer methods under contract.

How a visitor class is modelled
-------------------------------
`NodeVisitor.visit(node)` looks up `visit_<class name of node>` and falls back to `generic_visit`.  Rule trees are heap objects
of class AstNode with a `kind` tag (ast_tag: Expression / GPR / Name / BoolOp / Or / And, as in c07_knockout), so the dispatch
is a case split on the tag: the contract of `<Visitor>.visit` is the UNION of the cases of the contracts of the
`visit_<Kind>` methods (each PROVED below on the real source) - registered as an assumed contract whose only assumption is the
dispatch itself (CPython's `NodeVisitor.visit`).  `generic_visit` is an ASSUMED contract per visitor class:
  * NodeVisitor (GPRWalker): every child is visited, in order: the effect on the visitor's state is that of visiting each child,
    i.e. the induction hypothesis (the contract of `visit` for the children) applied child by child;
  * NodeTransformer (_GeneRemover): each child list is replaced IN PLACE by the list of the non-None results of visiting the
    children, in order (ghost: the result sequence R, index maps src / dst between the new and the old positions, a dropped
    position when the list got shorter); every result satisfies the contract of `visit` for that child (induction hypothesis).
Structural induction: a recursive call - directly or through generic_visit - is replaced by the function's own contract for a
strict sub-tree, exactly as the recursive calls of `GPR._eval_gpr` in c07_knockout.

Mutable trees
-------------
_GeneRemover rewrites `values` lists in place, so here the child sequence is HEAP state (fields values_n : Ref -> Int and
values_seq : Ref -> (Int -> Ref)) and the and/or semantics takes the heap as arguments: semh(VN, VS, BD, x, K) with the same
one-step unfolding as `sem` of c07_knockout (Name: id not in K; Or: some child true; And: all children true; root: no body ->
True, else the body).  Tags, operators and identifiers are never written by the code below.

What is proved
--------------
(1) `_GeneRemover.visit_Name` / `_GeneRemover.visit_BoolOp` (manipulation/delete.py; used by remove_genes).  With S =
    self.target_genes, h0 / h1 the heap before / after, r the returned value and K an ARBITRARY set of absent genes (the
    uninterpreted constant `vis_K`: every obligation is closed under generalisation over it, and the induction hypothesis is used
    at the same K):
        r is None      =>  not semh(h0, t, K u S)
        r is not None  =>  r is a well-formed Name / BoolOp tree of h1  and  semh(h1, r, K) == semh(h0, t, K u S)
    i.e. "a rule equivalent to its old rule with those genes absent"; a reaction whose rule is False with the genes absent is
    exactly the one remove_genes deletes instead (remove_reactions=True).
    Precondition: t is a well-formed tree of h0 whose BoolOp nodes have AT LEAST ONE child (the parser produces >= 2; for an
    `and` without children the code returns None although the empty conjunction is True - outside the precondition).
    Also proved: only nodes of the sub-tree of t are written (frame clause `only_below`).
(2) `GPRWalker.visit_Name` / `visit_BoolOp`, `GPR.update_genes`, the `GPR.genes` getter (core/gene.py): the reported gene set
    is exactly names(h, tree), the identifiers of the Name nodes occurring in the tree (spec function by structural recursion);
    nothing for a rule without body.  The getter's proved contract has the key `GPR.genes@getter/proved`: it gives the ghost
    `rule_names` of c02_update_genes (assumed there under the key `GPR.genes@getter`) its definition.  Lemma step
    `semh-depends-on-names`: the value of a rule depends only on the absent genes that occur in it.
(3) `GPR._symbolic_gpr` (all node kinds with a symbol table; the first call that builds the table from GPR.genes),
    `GPR.as_symbolic` (no display names), `GPR.__eq__`: the sympy expression has the Boolean value of the rule for every set of
    absent genes (Symbol("") for a rule without body), relative to the ASSUMED meaning of sympy's Symbol / Or / And; `==`
    returns True only for logically equivalent rules, relative to the ASSUMED soundness of sympy's `equals`.
    `GPRCleaner.visit_BinOp`: `&` -> a new BoolOp with an And node, `|` -> with an Or node, `values` a LIST of exactly the two
    cleaned operands in order, TypeError for any other operator (see the last section).
(4) `GPR._eval_gpr` / `GPR.eval` once more, against semh (keys `GPR._eval_gpr/heap`, `GPR.eval/heap`; c07_knockout proves them
    against `sem` over immutable child sequences): all clauses above are about the function the evaluator computes.
    Lemma `remove-genes/kept-rule-is-old-rule-with-genes-absent`: the contract of _GeneRemover.visit for the body, lifted to the GPR
    object whose body remove_genes replaces.
(5) `GPR.from_symbolic._sympy_to_ast` (hook table HOOKS_S2A): sympy expression of the Symbol / Or / And fragment -> a well-formed
    tree with the same Boolean value (assumed accessors; functional allocation, see that section).  `GPR.copy` / `__copy__`.
    Termination: the directly recursive functions carry a variant (section `termination`).
NOT attempted: GPRCleaner.visit_Name (rewrites identifiers: string level), from_symbolic itself (GPR(), GPR.__init__ with its
deepcopy of the cleaned tree), the content of deepcopy (GPR.copy / __copy__ are a proved pass-through of an assumed deepcopy: last
section), the root case of _GeneRemover.visit (generic_visit deletes the `body`
attribute of the GPR object; remove_genes then sets it to None).

What is assumed (listed in the evidence)
----------------------------------------
* `_GeneRemover.generic_visit` as above.  Besides CPython's NodeTransformer.generic_visit it contains (a) the induction
  hypothesis, (b) the counting fact of a filter (`the new list is as long as the old one exactly when no result is None`), and
  (c) SEPARATION: the sub-trees of different children are disjoint (a tree, not a DAG - what ast.parse, deepcopy and
  from_symbolic build), so that a later visit does not disturb the result of an earlier one: the facts are stated for the heap
  after ALL children have been visited.  The semantic half of (c) - semh of a node depends only on the heap below it - has the
  induction step `C08/lemma/semh-frame/induction-step` proved in `lemmas()`.
* `<Visitor>.visit`: the dispatch on the class name (cases = the proved contracts).
* rule trees are finite (structural induction is well founded).

Boundary of the precondition (native, /var/tmp probe): for a hand-built DAG - GPR(Expression(BoolOp(Or(), [x, x]))) with ONE
object x = (a and b) used twice, which deepcopy keeps shared - _GeneRemover({"a"}) returns `b` although the rule is False with
`a` absent (the second visit sees the list the first one already shortened).  Rules parsed from text or built by from_symbolic
are trees; the separation assumption is therefore load-bearing, not decoration.
Native cross-check of the specifications and of the assumed sympy / generic_visit behaviour (tools/crosscheck_c08_visitors.py:
random parsed trees x target sets x all absent sets; symbolic round trip, copy, ==): no deviation.

Mutation trials (tools/mutate_and_run.sh; every mutant left the named obligation unproved)
  delete.py  visit_Name: `None if ... else node` -> `node if ... else None`            visit_Name post.1 / post.2
  delete.py  visit_BoolOp: `len(node.values) == 0` -> `< 0`                             visit_BoolOp exit#3 post.2
  delete.py  visit_BoolOp: `len(node.values) == 1` -> `== 2`                            exit#3/#5/#6 post.2
  delete.py  visit_BoolOp: `< original_n and` -> `<= original_n and`                    exit#2 post.1
  delete.py  visit_BoolOp: `and isinstance(node.op, And)` -> `and not isinstance(...)`  exit#2 post.1, exit#3/#4 post.2
  delete.py  visit_BoolOp: generic_visit call dropped                                   exit#1/#2 post.2
  delete.py  visit_BoolOp: original_n taken AFTER generic_visit                         exit#2/#3 post.2
  (`return node.values[0]` -> `return node` still verifies: a one-child and/or node is equivalent to its child and well formed -
   the statement is semantic, it does not demand the simplification)
  gene.py    GPRWalker.visit_Name: add dropped                                          visit_Name post
  gene.py    GPRWalker.visit_BoolOp: body -> pass                                       visit_BoolOp post
  gene.py    update_genes: deepcopy(walker.gene_set) -> set(); walker.visit dropped; `if self.body` negated     post.1 (+ call pre)
  gene.py    genes getter: update_genes() call dropped                                  post.1 / post.2
  gene.py    _symbolic_gpr: spl.Or -> spl.And; Name -> Symbol(""); root condition negated; Symbol(name="g"); values[1:]
                                                                                        post of the case / call:_symbolic_gpr/pre
  gene.py    __eq__: `return False` -> `return True` (one empty / one Symbol); other_symb from self; `and` -> `or`     post
  gene.py    as_symbolic: table {} instead of None; self.body instead of self           call:GPR._symbolic_gpr/pre
  gene.py    _eval_gpr: `not in` -> `in`; any -> all; eval: knockouts=set()                   post of the case (heap contracts)
  gene.py    copy: deepcopy(self) -> self; __copy__: self.copy() -> self                       post.2 (a different object)
  gene.py    _sympy_to_ast: `is spl.Or` -> `is spl.And`; op=Or() -> And(); Name(id="x"); `not args` negated     post.4 / unexpected-exception
  gene.py    recursion on the SAME node / expression (_sympy_to_ast, _symbolic_gpr, _eval_gpr)     call:<itself>/pre (variant)
  gene.py    visit_BinOp: TUPLE (node.left, node.right) (the historical defect)         call:BoolOp.__init__/pre
  gene.py    visit_BinOp: And() -> Or(); operands swapped; BitAnd test -> BitOr; raise -> return node; [node.left] only
                                                                                        post.7 / post.9-11 / expected-TypeError / post.8
"""
import z3
from .common import *  # noqa
from . import c07_knockout as C7
from .c07_knockout import T_EXPRESSION, T_GPR, T_NAME, T_BOOLOP, T_OR, T_AND, IdSet
from pyvc.state import alloc_set, alloc_list

MD = "cobra/manipulation/delete.py"
MG = "cobra/core/gene.py"
RefInt = z3.ArraySort(Ref, z3.IntSort())
RefRef = z3.ArraySort(Ref, Ref)
SeqRef = z3.ArraySort(z3.IntSort(), Ref)
RefSeq = z3.ArraySort(Ref, SeqRef)
II = z3.ArraySort(z3.IntSort(), z3.IntSort())

REG.fields.update({"values_n": "int", "values_seq": "seqref"})
REG.classes.setdefault("_GeneRemover", ["NodeTransformer"])
REG.classes.setdefault("NodeTransformer", ["NodeVisitor"])
REG.classes.setdefault("NodeVisitor", [])

semh = z3.Function("semh", RefInt, RefSeq, RefRef, Ref, IdSet, z3.BoolSort())
wfh = z3.Function("wfh", RefInt, RefSeq, RefRef, Ref, z3.BoolSort())
wfh_bad = z3.Function("wfh_bad", RefInt, RefSeq, RefRef, Ref, z3.IntSort())       # witness: a child that is not well formed
below = z3.Function("below", RefInt, RefSeq, RefRef, Ref, Ref, z3.BoolSort())       # below(h, t, y): y is a node of the sub-tree t
union = z3.Function("idset_union", IdSet, IdSet, IdSet)
VIS_K = z3.Const("vis_K", IdSet)      # the arbitrary set of absent genes


def H(E, st, f):
    return E.eng.heap_arr(st, f)


def heap3(E, st):
    """the mutable part of a rule-tree heap: (values_n, values_seq, body)"""
    return H(E, st, "values_n"), H(E, st, "values_seq"), H(E, st, "body")


def tree_axioms(E, st):
    return tree_axioms_arr(H(E, st, "ast_tag"), H(E, st, "id"), H(E, st, "op"))


def tree_axioms_arr(tg, nid, op, at=None):
    """one-step unfolding of semh / wfh (both directions) / below, for EVERY heap (VN, VS, BD); union of id sets.
    at=<node>: only the instances of the unfolding axioms at that node (for the induction-step lemmas: the step unfolds the
    definitions at the node itself and uses the induction hypothesis below it)"""
    VN, VS, BD = z3.Const("aVN", RefInt), z3.Const("aVS", RefSeq), z3.Const("aBD", RefRef)
    x, y, K, K2, i, k = z3.Const("ax", Ref), z3.Const("ay", Ref), z3.Const("aK", IdSet), z3.Const("aK2", IdSet), z3.Int("ai"), z3.Const("ak", Id)
    if at is not None:
        x = at
    h = (VN, VS, BD)
    S = lambda x_, K_: semh(VN, VS, BD, x_, K_)  # noqa
    W = lambda x_: wfh(VN, VS, BD, x_)  # noqa
    n, kid = VN[x], (lambda j: VS[x][j])
    is_root = z3.Or(tg[x] == T_EXPRESSION, tg[x] == T_GPR)
    is_op = z3.And(op[x] != NULL, z3.Or(tg[op[x]] == T_OR, tg[op[x]] == T_AND))
    kid_ok = lambda j: z3.And(kid(j) != NULL, W(kid(j)), z3.Or(tg[kid(j)] == T_NAME, tg[kid(j)] == T_BOOLOP))  # noqa
    kids_any = z3.Exists([i], z3.And(0 <= i, i < n, S(kid(i), K)))
    kids_all = z3.ForAll([i], z3.Implies(z3.And(0 <= i, i < n), S(kid(i), K)))
    b = wfh_bad(VN, VS, BD, x)

    class _HV(list):            # the quantified heap variables; `hv + [x, ...]` drops x when it is the fixed node `at`
        def __add__(self, other):
            return list(self) + [v for v in other if not (at is not None and v is x)]
    hv = _HV([VN, VS, BD])
    return [
        z3.ForAll(hv + [x, K], z3.Implies(z3.And(is_root, BD[x] == NULL), S(x, K)), patterns=[S(x, K)]),
        z3.ForAll(hv + [x, K], z3.Implies(z3.And(is_root, BD[x] != NULL), S(x, K) == S(BD[x], K)), patterns=[S(x, K)]),
        z3.ForAll(hv + [x, K], z3.Implies(tg[x] == T_NAME, S(x, K) == z3.Not(K[nid[x]])), patterns=[S(x, K)]),
        z3.ForAll(hv + [x, K], z3.Implies(z3.And(tg[x] == T_BOOLOP, tg[op[x]] == T_OR), S(x, K) == kids_any), patterns=[S(x, K)]),
        z3.ForAll(hv + [x, K], z3.Implies(z3.And(tg[x] == T_BOOLOP, tg[op[x]] == T_AND), S(x, K) == kids_all), patterns=[S(x, K)]),
        # well-formedness, => : the shape of a well-formed node
        z3.ForAll(hv + [x], z3.Implies(z3.And(W(x), x != NULL),
                                       z3.And(z3.Or(is_root, tg[x] == T_NAME, tg[x] == T_BOOLOP),
                                              z3.Implies(z3.And(is_root, BD[x] != NULL),
                                                         z3.And(W(BD[x]), z3.Or(tg[BD[x]] == T_NAME, tg[BD[x]] == T_BOOLOP))),
                                              z3.Implies(tg[x] == T_BOOLOP,
                                                         z3.And(is_op, n >= 1,
                                                                z3.ForAll([i], z3.Implies(z3.And(0 <= i, i < n), kid_ok(i)),
                                                                          patterns=[kid(i)]))))),
                  patterns=[W(x)]),
        # well-formedness, <= (Name and BoolOp nodes): a node of that shape is well formed (witness: the offending child)
        z3.ForAll(hv + [x], z3.Implies(z3.And(x != NULL, tg[x] == T_NAME), W(x)), patterns=[W(x)]),
        z3.ForAll(hv + [x], z3.Implies(z3.And(x != NULL, tg[x] == T_BOOLOP, is_op, n >= 1,
                                              z3.Implies(z3.And(0 <= b, b < n), kid_ok(b))), W(x)), patterns=[W(x)]),
        # the nodes of a sub-tree
        z3.ForAll(hv + [x], below(VN, VS, BD, x, x), patterns=[below(VN, VS, BD, x, x)]),
        z3.ForAll(hv + [x, y, i], z3.Implies(z3.And(tg[x] == T_BOOLOP, 0 <= i, i < n, below(VN, VS, BD, kid(i), y)),
                                             below(VN, VS, BD, x, y)),
                  patterns=[z3.MultiPattern(below(VN, VS, BD, kid(i), y), below(VN, VS, BD, x, y))]),
        z3.ForAll([K, K2, k], union(K, K2)[k] == z3.Or(K[k], K2[k]), patterns=[union(K, K2)[k]]),
    ]


# ---------------------------------------------------------------- termination of the directly recursive functions
# `recursive calls are replaced by the function's own contract` is structural induction only if the argument of the recursive call
# is SMALLER.  Rule trees are finite (trusted): there is a height function that decreases from a node to its children / body
# (assumed axioms below); sympy expressions likewise (sym_size).  Every directly recursive function of this module states the
# variant as an extra conjunct of its precondition AT RECURSIVE CALL SITES: measure(argument) < measure(argument of the running
# activation).  (Without it a mutant recursing on the SAME node verifies - partial correctness.)
tree_height = z3.Function("tree_height", RefInt, RefSeq, RefRef, Ref, z3.IntSort())


def height_axioms(E, st):
    tg = H(E, st, "ast_tag")
    VN, VS, BD = z3.Const("hVN", RefInt), z3.Const("hVS", RefSeq), z3.Const("hBD", RefRef)
    x, i = z3.Const("hx", Ref), z3.Int("hi")
    ht = lambda y: tree_height(VN, VS, BD, y)  # noqa
    return [z3.ForAll([VN, VS, BD, x, i], z3.Implies(z3.And(x != NULL, wfh(VN, VS, BD, x), tg[x] == T_BOOLOP, 0 <= i, i < VN[x]),
                                                     ht(VS[x][i]) < ht(x)), patterns=[z3.MultiPattern(ht(VS[x][i]), ht(x))]),
            z3.ForAll([VN, VS, BD, x], z3.Implies(z3.And(x != NULL, wfh(VN, VS, BD, x), z3.Or(tg[x] == T_EXPRESSION, tg[x] == T_GPR),
                                                         BD[x] != NULL), ht(BD[x]) < ht(x)), patterns=[z3.MultiPattern(ht(BD[x]), ht(x))])]


def decreases(E, key, arg, measure):
    """variant conjunct of a precondition: True when the function is entered from outside / when its body is verified; at a
    recursive call site (the engine is verifying the contract `key` itself): measure(new argument) < measure(entry argument)"""
    ea = getattr(E.eng, "entry_args", None)
    cur = getattr(E.eng, "cur_contract", None)
    if not ea or cur is None or cur.key != key or arg not in ea:
        return z3.BoolVal(True)
    return measure(E[arg]) < measure(ea[arg])


# ---------------------------------------------------------------- hooks
def isinstance_hook(eng, st, v, clsname):
    return C7.isinstance_hook(eng, st, v, clsname)


def getattr_hook(eng, st, v, name):
    if isinstance(v, VRef) and v.cls == "AstNode" and name == "values":
        # the list held in node.values, as it is NOW (the functions below never write to it themselves)
        x = v.t
        n, e = z3.Select(eng.heap_arr(st, "values_n"), x), z3.Select(eng.heap_arr(st, "values_seq"), x)
        st2, l = alloc_list(st, "ref:AstNode", length=n, elem=e)
        return [("ok", st2, l)]
    return None


HOOKS_RM = {"isinstance": isinstance_hook, "getattr": getattr_hook}


# ---------------------------------------------------------------- (1) _GeneRemover
def _remover_t():
    return TObj("_GeneRemover", {"target_genes": TSet("id")})


RM_PARAMS = [("self", _remover_t()), ("node", TRef("AstNode"))]


def targets(E):
    rec = E.s0.objs[E.s0.objs[E["self"].oid]["attr:target_genes"].oid]
    return z3.K(Id, z3.BoolVal(False)) if rec.get("lazy") else rec["dom"]


def res_ref(v):
    return NULL if isinstance(v, VNone) else v.t


def is_expr_tag(tg, r):
    return z3.Or(tg[r] == T_NAME, tg[r] == T_BOOLOP)


def rm_spec(tg, h0, h1, S, t, r, K=VIS_K):
    """the contract of _GeneRemover.visit for the sub-tree t: r is the returned value (NULL for None)"""
    KS = union(K, S)
    return z3.And(z3.Implies(r == NULL, z3.Not(semh(*h0, t, KS))),
                  z3.Implies(r != NULL, z3.And(wfh(*h1, r), is_expr_tag(tg, r), semh(*h1, r, K) == semh(*h0, t, KS))))


def only_below(h0, h1, t):
    """only nodes of the sub-tree t (of the entry heap) have another child list afterwards"""
    y = qv("fy", Ref)
    return FA([y], z3.Implies(z3.Not(below(*h0, t, y)), z3.And(h1[0][y] == h0[0][y], h1[1][y] == h0[1][y])),
              patterns=[h1[0][y], h1[1][y]])


def _rm_post(E):
    tg = H(E, E.s0, "ast_tag")
    h0, h1 = heap3(E, E.s0), heap3(E, E.s1)
    return z3.And(rm_spec(tg, h0, h1, targets(E), E["node"].t, res_ref(E.res)), only_below(h0, h1, E["node"].t))


def _tag_is(E, t):
    return H(E, E.s0, "ast_tag")[E["node"].t] == t


def _rm_pre(E):
    return wfh(*heap3(E, E.s0), E["node"].t)


RM_MOD = lambda E: [("heap", "values_n"), ("heap", "values_seq")]  # noqa


def _rm_result(eng, st, E):
    return st, VRef(fresh("visit_res", Ref), "AstNode")


_name_case = Case("Name", requires=lambda E: _tag_is(E, T_NAME), ensures=_rm_post)
_boolop_case = Case("BoolOp", requires=lambda E: _tag_is(E, T_BOOLOP), ensures=_rm_post)
_name_case.domain = _name_case.requires          # visit_<Kind> is only ever reached for nodes of that kind (dispatch)
_boolop_case.domain = _boolop_case.requires

REG.add(Contract(MD, "_GeneRemover.visit_Name", "C08", RM_PARAMS, [_name_case], pre=_rm_pre, axioms=lambda E: tree_axioms(E, E.s0),
                 key="_GeneRemover.visit_Name", result=_rm_result))
REG.add(Contract(MD, "_GeneRemover.visit_BoolOp", "C08", RM_PARAMS, [_boolop_case], pre=_rm_pre, modifies=RM_MOD,
                 axioms=lambda E: tree_axioms(E, E.s0), key="_GeneRemover.visit_BoolOp", result=_rm_result))


# generic_visit of a NodeTransformer on a BoolOp node (assumed)
def _gv_boolop_post(E):
    tg = H(E, E.s0, "ast_tag")
    h0, h1 = heap3(E, E.s0), heap3(E, E.s1)
    t, S = E["node"].t, targets(E)
    n, kids = h0[0][t], h0[1][t]
    m, new = h1[0][t], h1[1][t]
    R = fresh("gv_res", SeqRef)
    src, dst = fresh("gv_src", II), fresh("gv_dst", II)
    drop = fresh("gv_drop", z3.IntSort())
    i, j = qv("gi"), qv("gj")
    return z3.And(
        0 <= m, m <= n,
        # every child has been visited: induction hypothesis = the contract of visit for the child, the heap being the final one
        FA([i], z3.Implies(z3.And(0 <= i, i < n), rm_spec(tg, h0, h1, S, kids[i], R[i])), patterns=[R[i]]),
        # the new list: the non-None results, in order
        FA([j], z3.Implies(z3.And(0 <= j, j < m), z3.And(0 <= src[j], src[j] < n, new[j] == R[src[j]], R[src[j]] != NULL,
                                                          dst[src[j]] == j)), patterns=[new[j]]),
        FA([j], z3.Implies(z3.And(0 <= j, j + 1 < m), src[j] < src[j + 1]), patterns=[src[j + 1]]),
        FA([i], z3.Implies(z3.And(0 <= i, i < n, R[i] != NULL), z3.And(0 <= dst[i], dst[i] < m, src[dst[i]] == i, new[dst[i]] == R[i])),
           patterns=[R[i]]),
        # counting: shorter exactly when some result is None
        z3.Implies(m < n, z3.And(0 <= drop, drop < n, R[drop] == NULL)),
        z3.Implies(m == n, FA([i], z3.Implies(z3.And(0 <= i, i < n), R[i] != NULL), patterns=[R[i]])),
        only_below(h0, h1, t))


REG.add(Contract(MD, "_GeneRemover.generic_visit", "C08", RM_PARAMS,
                 [Case("BoolOp", requires=lambda E: _tag_is(E, T_BOOLOP), ensures=_gv_boolop_post)],
                 pre=_rm_pre, modifies=RM_MOD, axioms=lambda E: tree_axioms(E, E.s0), assumed=True, key="_GeneRemover.generic_visit",
                 result="opaque",
                 note="ast.NodeTransformer.generic_visit on a BoolOp node of a rule TREE (children's sub-trees disjoint): node.values is "
                      "replaced in place by the non-None results of self.visit(child), in order (ghost result sequence, index maps, a "
                      "dropped position when the list got shorter, same length exactly when nothing was dropped); each result satisfies "
                      "the contract of _GeneRemover.visit for that child (INDUCTION HYPOTHESIS; stated for the heap after all visits: "
                      "visits of disjoint sub-trees do not disturb each other); `op` is visited and kept; only nodes below `node` are written"))

REG.add(Contract(MD, "_GeneRemover.visit", "C08", RM_PARAMS,
                 [Case("Name", requires=lambda E: _tag_is(E, T_NAME), ensures=_rm_post),
                  Case("BoolOp", requires=lambda E: _tag_is(E, T_BOOLOP), ensures=_rm_post)],
                 pre=_rm_pre, modifies=RM_MOD, axioms=lambda E: tree_axioms(E, E.s0), assumed=True, key="_GeneRemover.visit",
                 result=_rm_result,
                 note="ast.NodeVisitor.visit: dispatch on the class name of the node to visit_Name / visit_BoolOp; the cases ARE the proved "
                      "contracts of these two methods (nothing else is assumed)"))


# ---------------------------------------------------------------- lemma: semh depends only on the heap below the node
def lemmas():
    """induction step of: h, h' agree on every node below t  ==>  semh(h, t, K) == semh(h', t, K)   (the semantic half of the
    separation assumption in generic_visit)"""
    from pyvc.engine import Obl
    tg, nid, op = z3.Const("l_tag", RefInt), z3.Const("l_id", z3.ArraySort(Ref, Id)), z3.Const("l_op", RefRef)
    h = (z3.Const("l_VN", RefInt), z3.Const("l_VS", RefSeq), z3.Const("l_BD", RefRef))
    g = (z3.Const("l_VN2", RefInt), z3.Const("l_VS2", RefSeq), z3.Const("l_BD2", RefRef))
    t, K, i = z3.Const("l_t", Ref), z3.Const("l_K", IdSet), z3.Int("l_i")
    is_root = z3.Or(tg[t] == T_EXPRESSION, tg[t] == T_GPR)
    hyp = tree_axioms_arr(tg, nid, op, at=t) + [
        wfh(*h, t), t != NULL,
        # the two heaps agree at t itself
        h[0][t] == g[0][t], h[1][t] == g[1][t], h[2][t] == g[2][t],
        # induction hypothesis: the claim for the children of t (which lie below t, where the heaps agree)
        z3.Implies(z3.And(is_root, h[2][t] != NULL), semh(*h, h[2][t], K) == semh(*g, h[2][t], K)),
        z3.ForAll([i], z3.Implies(z3.And(0 <= i, i < h[0][t]), semh(*h, h[1][t][i], K) == semh(*g, h[1][t][i], K)),
                  patterns=[h[1][t][i]]),
    ]
    return [Obl("C08/lemma/semh-frame/induction-step", hyp, semh(*h, t, K) == semh(*g, t, K), "lemma")]


# ================================================================ (2) GPRWalker, GPR.update_genes, GPR.genes
# names(h, t): the set of Name identifiers occurring in the tree t, by structural recursion:
#   Name: {id};  BoolOp: the union over the children;  root: empty without body, else names(body).
# The walker's contract (for every kind of node): gene_set afterwards = gene_set before  u  names(h, t); the tree is not written.
# GPR.update_genes / GPR.genes: the name cache / the returned set is names(h, self) when the rule has a body, empty otherwise -
# this is the ghost `rule_names(gpr)` of c02_update_genes (used there under `body is not None`), now with a definition.
# The GPR object's private cache `_genes` (a set of strings; the heap field `_genes` is the reaction's set of Gene objects) is the
# heap field `gpr_genes`.
names = z3.Function("tree_names", RefInt, RefSeq, RefRef, Ref, IdSet)
names_wit = z3.Function("tree_names_wit", RefInt, RefSeq, RefRef, Ref, Id, z3.IntSort())
REG.fields.update({"gpr_genes": "set:id"})
REG.classes.setdefault("GPRWalker", ["NodeVisitor"])
EMPTY = z3.K(Id, z3.BoolVal(False))


def names_axioms(E, st):
    return names_axioms_arr(H(E, st, "ast_tag"), H(E, st, "id"))


def names_axioms_arr(tg, nid, at=None):
    VN, VS, BD = z3.Const("nVN", RefInt), z3.Const("nVS", RefSeq), z3.Const("nBD", RefRef)
    x, k, i = z3.Const("nx", Ref), z3.Const("nk", Id), z3.Int("ni")
    if at is not None:
        x = at

    class _HV(list):
        def __add__(self, other):
            return list(self) + [v for v in other if not (at is not None and v is x)]
    hv = _HV([VN, VS, BD])
    N = lambda x_: names(VN, VS, BD, x_)  # noqa
    n, kid = VN[x], (lambda j: VS[x][j])
    is_root = z3.Or(tg[x] == T_EXPRESSION, tg[x] == T_GPR)
    w = names_wit(VN, VS, BD, x, k)
    return [
        z3.ForAll(hv + [x, k], z3.Implies(tg[x] == T_NAME, N(x)[k] == (k == nid[x])), patterns=[N(x)[k]]),
        # BoolOp: k is a name of the node exactly when it is a name of some child (=> with a witness position, <= for every child)
        z3.ForAll(hv + [x, k], z3.Implies(z3.And(tg[x] == T_BOOLOP, N(x)[k]), z3.And(0 <= w, w < n, N(kid(w))[k])), patterns=[N(x)[k]]),
        z3.ForAll(hv + [x, k, i], z3.Implies(z3.And(tg[x] == T_BOOLOP, 0 <= i, i < n, N(kid(i))[k]), N(x)[k]),
                  patterns=[z3.MultiPattern(N(kid(i))[k], N(x))]),
        z3.ForAll(hv + [x, k], z3.Implies(z3.And(is_root, BD[x] == NULL), z3.Not(N(x)[k])), patterns=[N(x)[k]]),
        z3.ForAll(hv + [x, k], z3.Implies(z3.And(is_root, BD[x] != NULL), N(x)[k] == N(BD[x])[k]),
                  patterns=[N(x)[k], z3.MultiPattern(N(BD[x])[k], N(x))]),
        # (instance of the first axiom at k = id, triggered by the name set itself)
        z3.ForAll(hv + [x], z3.Implies(tg[x] == T_NAME, N(x)[nid[x]]), patterns=[N(x)]),
    ]


def _walker_t():
    return TObj("GPRWalker", {"gene_set": TSet("id")})


WK_PARAMS = [("self", _walker_t()), ("node", TRef("AstNode"))]


def gene_set_obj(E, st=None):
    st = st or E.s0
    return st.objs[E["self"].oid]["attr:gene_set"]


def gene_set(E, st):
    rec = st.objs[gene_set_obj(E, st).oid]
    return EMPTY if rec.get("lazy") else rec["dom"]


def wk_spec(h, G0, G1, t):
    k = qv("wk", Id)
    return FA([k], G1[k] == z3.Or(G0[k], names(*h, t)[k]), patterns=[G1[k]])


def _wk_post(E):
    return wk_spec(heap3(E, E.s0), gene_set(E, E.s0), gene_set(E, E.s1), E["node"].t)


def _wk_axioms(E):
    return tree_axioms(E, E.s0) + names_axioms(E, E.s0)


WK_MOD = lambda E: [("set", gene_set_obj(E))]  # noqa


def _wk_inv(E, Lc):
    """`for val in node.values: self.visit(val)` (after generic_visit has already visited every child): the names of the node stay
    collected, nothing else is added"""
    return z3.And(wk_spec(heap3(E, E.s0), gene_set(E, E.s0), gene_set(E, Lc.st), E["node"].t), Lc.n == H(E, E.s0, "values_n")[E["node"].t])


_wname = Case("Name", requires=lambda E: _tag_is(E, T_NAME), ensures=_wk_post)
_wbool = Case("BoolOp", requires=lambda E: _tag_is(E, T_BOOLOP), ensures=_wk_post)
_wname.domain, _wbool.domain = _wname.requires, _wbool.requires

REG.add(Contract(MG, "GPRWalker.visit_Name", "C08", WK_PARAMS, [_wname], pre=_rm_pre, modifies=WK_MOD, axioms=_wk_axioms,
                 key="GPRWalker.visit_Name", props=["C08", "C02"]))
REG.add(Contract(MG, "GPRWalker.visit_BoolOp", "C08", WK_PARAMS, [_wbool], pre=_rm_pre, modifies=WK_MOD, axioms=_wk_axioms,
                 loops={0: LoopSpec(_wk_inv, lambda E, Lc: WK_MOD(E))}, key="GPRWalker.visit_BoolOp", props=["C08", "C02"]))


def _wgv_post(E):
    """NodeVisitor.generic_visit on a BoolOp node: `op` (an And / Or node: no fields) and every child have been visited, in order"""
    h = heap3(E, E.s0)
    t = E["node"].t
    n, kids = h[0][t], h[1][t]
    G0, G1 = gene_set(E, E.s0), gene_set(E, E.s1)
    k, i = qv("vk", Id), qv("vi")
    wit = fresh("gv_wit", z3.ArraySort(Id, z3.IntSort()))
    return z3.And(FA([k], z3.Implies(G0[k], G1[k]), patterns=[G0[k]]),
                  FA([k, i], z3.Implies(z3.And(0 <= i, i < n, names(*h, kids[i])[k]), G1[k]), patterns=[names(*h, kids[i])[k]]),
                  FA([k], z3.Implies(G1[k], z3.Or(G0[k], z3.And(0 <= wit[k], wit[k] < n, names(*h, kids[wit[k]])[k]))), patterns=[G1[k]]))


REG.add(Contract(MG, "GPRWalker.generic_visit", "C08", WK_PARAMS,
                 [Case("BoolOp", requires=lambda E: _tag_is(E, T_BOOLOP), ensures=_wgv_post)],
                 pre=_rm_pre, modifies=WK_MOD, axioms=_wk_axioms, assumed=True, key="GPRWalker.generic_visit",
                 note="ast.NodeVisitor.generic_visit on a BoolOp node: self.visit is called for `op` (no effect) and for every child, in "
                      "order; INDUCTION HYPOTHESIS (the contract of GPRWalker.visit) for each child, folded over the child list: "
                      "gene_set afterwards = gene_set before u the names of all children; the tree is not written"))


def _wroot_req(E):
    t = E["node"].t
    tg = H(E, E.s0, "ast_tag")
    return z3.And(z3.Or(tg[t] == T_EXPRESSION, tg[t] == T_GPR), H(E, E.s0, "body")[t] != NULL)


REG.add(Contract(MG, "GPRWalker.visit", "C08", WK_PARAMS,
                 [Case("Name", requires=lambda E: _tag_is(E, T_NAME), ensures=_wk_post),
                  Case("BoolOp", requires=lambda E: _tag_is(E, T_BOOLOP), ensures=_wk_post),
                  Case("root", requires=_wroot_req, ensures=_wk_post)],
                 pre=_rm_pre, modifies=WK_MOD, axioms=_wk_axioms, assumed=True, key="GPRWalker.visit",
                 note="ast.NodeVisitor.visit: dispatch on the class name of the node; cases Name / BoolOp ARE the proved contracts of "
                      "visit_Name / visit_BoolOp; case root (GPR / Expression with a body, no visit_GPR method): generic_visit visits "
                      "the body - the contract for the body, names(root) = names(body)"))


def _walker_new(eng, st, E):
    from pyvc.state import alloc_obj
    st, s = alloc_set(st, "id", dom=EMPTY)
    return alloc_obj(st, "GPRWalker", {"attr:gene_set": s})


REG.add(Contract(MG, "GPRWalker.__init__", "C08", [("self", TNone())], [Case("new")], assumed=True, key="GPRWalker.__init__",
                 result=_walker_new, note="GPRWalker(): a new visitor whose gene_set is a new empty set (two-line constructor; "
                                          "super().__init__ of ast.NodeVisitor does nothing)"))


# ---- hooks: the GPR object's private name cache, deepcopy of a set of strings
def gpr_getattr_hook(eng, st, v, name):
    if isinstance(v, VRef) and v.cls == "GPR" and name == "_genes":
        st2, sv = alloc_set(st, "id", dom=z3.Select(eng.heap_arr(st, "gpr_genes"), v.t))
        return [("ok", st2, sv)]          # a snapshot: the functions below only read it (frozenset(self._genes))
    return None


def gpr_setattr_hook(eng, st, v, name, val):
    if isinstance(v, VRef) and v.cls == "GPR" and name == "_genes":
        if not (isinstance(val, VObj) and val.kind == "set"):
            raise Unsupported("GPR._genes assigned something that is not a set")
        rec = st.objs[val.oid]
        if not rec.get("lazy") and rec["kkind"] != "id":
            raise Unsupported("GPR._genes assigned a set of non-strings")
        dom = EMPTY if rec.get("lazy") else rec["dom"]
        return [("ok", st.setheap("gpr_genes", z3.Store(eng.heap_arr(st, "gpr_genes"), v.t, dom)), NONE)]
    return None


def global_hook(eng, name):
    if name == "deepcopy":
        return VFunc("abstract", "deepcopy")
    return None


def call_abstract_hook(eng, st, f, pos, kw):
    if f.a == "deepcopy" and len(pos) == 1 and not kw and isinstance(pos[0], VObj) and pos[0].kind == "set":
        # ASSUMED copy.deepcopy of a set of strings: a new set with the same members
        rec = st.objs[pos[0].oid]
        if rec.get("lazy") or rec["kkind"] != "id":
            raise Unsupported("deepcopy of a set that is not a set of strings")
        st2, s = alloc_set(st, "id", dom=rec["dom"])
        return [("ok", st2, s)]
    raise Unsupported(f"abstract call {f.a}")


HOOKS_WK = chain_hooks(HOOKS_RM, {"getattr": gpr_getattr_hook, "setattr": gpr_setattr_hook, "global": global_hook,
                                  "call_abstract": call_abstract_hook})
HOOKS = HOOKS_WK


# ---- GPR.update_genes, GPR.genes
def rule_names_of(E, st, g):
    """the gene names of the rule g: names of the tree when it has a body, none otherwise"""
    return z3.If(H(E, st, "body")[g] != NULL, names(*heap3(E, st), g), EMPTY)


def _gpr_pre(E):
    g = E["self"].t
    return z3.And(wfh(*heap3(E, E.s0), g), H(E, E.s0, "ast_tag")[g] == T_GPR)


def _cache_is_names(E):
    g = E["self"].t
    c0, c1 = H(E, E.s0, "gpr_genes"), H(E, E.s1, "gpr_genes")
    k, x = qv("uk", Id), qv("ux", Ref)
    want = rule_names_of(E, E.s0, g)
    return z3.And(FA([k], c1[g][k] == want[k], patterns=[c1[g][k]]),
                  FA([x], z3.Implies(x != g, c1[x] == c0[x]), patterns=[c1[x]]))


REG.add(Contract(MG, "GPR.update_genes", "C08", [("self", TRef("GPR"))], [Case("any", ensures=_cache_is_names)], pre=_gpr_pre,
                 modifies=lambda E: [("heap", "gpr_genes")], axioms=_wk_axioms, key="GPR.update_genes", props=["C08", "C02"]))


def _genes_result(eng, st, E):
    return alloc_set(st, "id", base="genes_res")


def _genes_post(E):
    k = qv("rk", Id)
    rec = E.s1.objs[E.res.oid]
    dom = EMPTY if rec.get("lazy") else rec["dom"]
    want = rule_names_of(E, E.s0, E["self"].t)
    return z3.And(FA([k], dom[k] == want[k], patterns=[dom[k]]), _cache_is_names(E))


REG.add(Contract(MG, "GPR.genes@getter", "C08", [("self", TRef("GPR"))], [Case("any", ensures=_genes_post)], pre=_gpr_pre,
                 modifies=lambda E: [("heap", "gpr_genes")], axioms=_wk_axioms, key="GPR.genes@getter/proved", result=_genes_result,
                 props=["C08", "C02"],
                 note="second contract of the getter (c02_update_genes assumes `GPR.genes@getter`: ghost rule_names): the returned set "
                      "is names(tree) when the rule has a body - the definition of that ghost"))


def names_lemmas():
    """induction step of: K and K2 agree on names(t)  ==>  semh(h, t, K) == semh(h, t, K2)   (the value of a rule depends only on
    the absent genes that occur in it)"""
    from pyvc.engine import Obl
    tg, nid, op = z3.Const("m_tag", RefInt), z3.Const("m_id", z3.ArraySort(Ref, Id)), z3.Const("m_op", RefRef)
    h = (z3.Const("m_VN", RefInt), z3.Const("m_VS", RefSeq), z3.Const("m_BD", RefRef))
    t, K, K2, i, k = z3.Const("m_t", Ref), z3.Const("m_K", IdSet), z3.Const("m_K2", IdSet), z3.Int("m_i"), z3.Const("m_k", Id)
    is_root = z3.Or(tg[t] == T_EXPRESSION, tg[t] == T_GPR)
    agree = lambda x: z3.ForAll([k], z3.Implies(names(*h, x)[k], K[k] == K2[k]), patterns=[names(*h, x)[k]])  # noqa
    claim = lambda x: z3.Implies(agree(x), semh(*h, x, K) == semh(*h, x, K2))  # noqa
    hyp = tree_axioms_arr(tg, nid, op, at=t) + names_axioms_arr(tg, nid, at=t) + [
        wfh(*h, t), t != NULL,
        z3.Implies(z3.And(is_root, h[2][t] != NULL), claim(h[2][t])),                     # induction hypothesis: body
        z3.ForAll([i], z3.Implies(z3.And(0 <= i, i < h[0][t]), claim(h[1][t][i])), patterns=[h[1][t][i]]),   # ... and children
    ]
    # one obligation per kind of node (a well-formed node is of one of these kinds: first hypothesis of the unfolding of wfh)
    kinds = [("root", is_root), ("Name", tg[t] == T_NAME), ("Or", z3.And(tg[t] == T_BOOLOP, tg[op[t]] == T_OR)),
             ("And", z3.And(tg[t] == T_BOOLOP, tg[op[t]] == T_AND))]
    return [Obl(f"C08/lemma/semh-depends-on-names/induction-step/{nm}", hyp + [c], claim(t), "lemma") for nm, c in kinds] + \
           [Obl("C08/lemma/semh-depends-on-names/induction-step/kinds-cover", hyp, z3.Or(*[c for _, c in kinds]), "lemma")]


def root_lemma():
    """what remove_genes does with a rule it keeps: `remover.visit(rxn.gpr)` visits the body b of the GPR object t (generic_visit of
    the root: assumed, not part of this lemma) and stores the result r as the new body - None (after `if not hasattr(rxn.gpr,
    "body"): rxn.gpr.body = None`) when r is None.  From the proved contract of visit for b:  r is None only if the OLD rule is
    False with the target genes absent (such a reaction can no longer be catalysed: remove_genes deletes it when remove_reactions
    is set), and otherwise the NEW rule evaluates, for K, to what the OLD rule evaluates to with K u S absent."""
    from pyvc.engine import Obl
    tg, nid, op = z3.Const("r_tag", RefInt), z3.Const("r_id", z3.ArraySort(Ref, Id)), z3.Const("r_op", RefRef)
    h0 = (z3.Const("r_VN", RefInt), z3.Const("r_VS", RefSeq), z3.Const("r_BD", RefRef))
    h1 = (z3.Const("r_VN1", RefInt), z3.Const("r_VS1", RefSeq), z3.Const("r_BD1", RefRef))
    t, r, S, K = z3.Const("r_t", Ref), z3.Const("r_r", Ref), z3.Const("r_S", IdSet), z3.Const("r_K", IdSet)
    b = h0[2][t]
    hyp = tree_axioms_arr(tg, nid, op, at=t) + [t != NULL, tg[t] == T_GPR, b != NULL, wfh(*h0, t),
                                          rm_spec(tg, h0, h1, S, b, r, K), h1[2][t] == r]
    goal = z3.And(z3.Implies(r == NULL, z3.Not(semh(*h0, t, union(K, S)))),
                  z3.Implies(r != NULL, z3.And(wfh(*h1, r), semh(*h1, t, K) == semh(*h0, t, union(K, S)))))
    return [Obl("C08/lemma/remove-genes/kept-rule-is-old-rule-with-genes-absent", hyp, goal, "lemma")]


def all_lemmas():
    return lemmas() + names_lemmas() + root_lemma()


# ================================================================ (3) GPR._symbolic_gpr: the rule tree -> sympy (a tree homomorphism)
# sympy expressions are opaque terms (sort NP) built by ASSUMED constructors with an ASSUMED Boolean meaning symsem(e, K)
# (K = the names that are False):   Symbol(k): k not in K;   Or(*es): some e true;   And(*es): all e true
# (sympy's Or / And flatten, drop duplicates and return the single argument / the neutral element for <= 1 argument: the meaning is
# preserved).  Proved: for a well-formed tree with a body the returned expression e satisfies symsem(e, K) == semh(h, tree, K) for
# the arbitrary K `vis_K`; a rule without body (and `None`) gives exactly Symbol("") (the documented encoding of the empty rule).
# Precondition when a symbol table is passed: it maps every name k of the tree to Symbol(k) (what the first call builds from
# expr.genes - proved in the case `nodict`, which uses the proved contract of the GPR.genes getter).
from pyvc import npalg  # noqa
from pyvc.npalg import NP, VNp  # noqa
SeqNP = z3.ArraySort(z3.IntSort(), NP)
sym_symbol = z3.Function("sympy.Symbol", Id, NP)
sym_or = z3.Function("sympy.Or", z3.IntSort(), SeqNP, NP)
sym_and = z3.Function("sympy.And", z3.IntSort(), SeqNP, NP)
symsem = z3.Function("sympy_sem", NP, IdSet, z3.BoolSort())
symres = z3.Function("symbolic_gpr_of", RefInt, RefSeq, RefRef, Ref, NP)     # the value _symbolic_gpr returns for a node (call sites)
EMPTY_NAME = id_lit("")


sym_touch = z3.Function("sym_touch", NP, z3.BoolSort(), Ref, z3.BoolSort())


def sympy_axioms():
    VS_, x_ = z3.Const("yVS", RefSeq), z3.Const("yx", Ref)
    k, K, n, e, i = z3.Const("yk", Id), z3.Const("yK", IdSet), z3.Int("yn"), z3.Const("ye", SeqNP), z3.Int("yi")
    return [z3.ForAll([k, K], symsem(sym_symbol(k), K) == z3.Not(K[k]), patterns=[symsem(sym_symbol(k), K)]),
            z3.ForAll([n, e, K], symsem(sym_or(n, e), K) == z3.Exists([i], z3.And(0 <= i, i < n, symsem(e[i], K))),
                      patterns=[symsem(sym_or(n, e), K)]),
            z3.ForAll([n, e, K], symsem(sym_and(n, e), K) == z3.ForAll([i], z3.Implies(z3.And(0 <= i, i < n), symsem(e[i], K))),
                      patterns=[symsem(sym_and(n, e), K)]),
            # instantiation hint only (satisfied by sym_touch = True): the i-th argument of an And is looked at whenever the i-th
            # child of some node is
            z3.ForAll([n, e, K, VS_, x_, i], sym_touch(e[i], symsem(sym_and(n, e), K), VS_[x_][i]), patterns=[z3.MultiPattern(symsem(sym_and(n, e), K), VS_[x_][i])])]


def sym_getattr_hook(eng, st, v, name):
    if isinstance(v, VConc) and v.py == ("module", "sympy.logic.boolalg") and name in ("Or", "And"):
        return [("ok", st, VFunc("abstract", "spl." + name))]
    if isinstance(v, VNp) and name == "equals":
        return [("ok", st, VFunc("bound", v, "equals"))]
    if isinstance(v, VRef) and v.cls == "GPR" and name == "genes":
        return eng.apply_contract(st, eng.reg.get("GPR.genes@getter/proved"), [v], {})     # the PROVED contract of the getter
    return None


def sym_global_hook(eng, name):
    if name == "Symbol":
        return VClass("Symbol")          # constructor: the assumed contract Symbol.__init__ below; isinstance: sym_isinstance_hook
    return None


def _symbol_new(eng, st, E):
    return st, VNp(sym_symbol(unwrap(E["name"], "id")))


REG.add(Contract("sympy", "Symbol.__init__", "C08", [("self", TNone()), ("name", TStr())], [Case("new")], assumed=True, key="Symbol.__init__",
                 result=_symbol_new, note="sympy.Symbol(name): an expression determined by its name (the opaque term sympy.Symbol(name)), "
                                          "true exactly when the name is not among the False ones"))
sym_is_symbol = z3.Function("sympy.is_Symbol", NP, z3.BoolSort())
sym_equals = z3.Function("sympy.equals", NP, NP, z3.BoolSort())


def sym_isinstance_hook(eng, st, v, clsname):
    if isinstance(v, VNp):
        return sym_is_symbol(v.t) if clsname == "Symbol" else False
    return None


def sym_compare_hook(eng, st, op, a, b):
    import ast as _ast
    if isinstance(a, VNp) and isinstance(b, VNp) and isinstance(op, (_ast.Eq, _ast.NotEq)):
        # ASSUMED: `==` between two sympy Symbols is structural equality of the expressions
        c = a.t == b.t
        return [("ok", st, VBool(z3.Not(c) if isinstance(op, _ast.NotEq) else c))]
    return None


def sym_call_method_hook(eng, st, recv, name, pos, kw):
    if isinstance(recv, VNp) and name == "equals" and len(pos) == 1 and not kw and isinstance(pos[0], VNp):
        return [("ok", st, VBool(sym_equals(recv.t, pos[0].t)))]      # meaning: sympy_eq_axioms (assumed)
    return None


def sympy_eq_axioms():
    """ASSUMED: expr.equals(other) is True only for logically equivalent expressions"""
    a, b, K = z3.Const("qa", NP), z3.Const("qb", NP), z3.Const("qK", IdSet)
    return [z3.ForAll([a, b, K], z3.Implies(sym_equals(a, b), symsem(a, K) == symsem(b, K)),
                      patterns=[z3.MultiPattern(sym_equals(a, b), symsem(a, K))])]


def sym_call_abstract_hook(eng, st, f, pos, kw):
    if f.a in ("spl.Or", "spl.And"):
        if len(pos) == 1 and not kw and isinstance(pos[0], VConc) and isinstance(pos[0].py, tuple) and pos[0].py[0] == "starred":
            l = pos[0].py[1]
            rec = st.objs[l.oid]
            if rec.get("ekind") != "np":
                raise Unsupported("spl.Or / spl.And of a list of non-expressions")
            return [("ok", st, VNp((sym_or if f.a == "spl.Or" else sym_and)(rec["len"], rec["elem"])))]
        raise Unsupported("spl.Or / spl.And called without *list")
    return None


def _chain_abstract(*hs):
    def h(eng, st, f, pos, kw):
        for g in hs:
            try:
                r = g(eng, st, f, pos, kw)
            except Unsupported:
                r = None
            if r is not None:
                return r
        raise Unsupported(f"abstract call {f.a}")
    return h


HOOKS_SYM = chain_hooks({"isinstance": sym_isinstance_hook}, HOOKS_WK,
                        {"getattr": sym_getattr_hook, "global": sym_global_hook, "compare": sym_compare_hook,
                         "call_method": sym_call_method_hook})
HOOKS_SYM["call_abstract"] = _chain_abstract(sym_call_abstract_hook, call_abstract_hook)
HOOKS = HOOKS_SYM


def _sy_dict_ok(E):
    d = E["GPRGene_dict"]
    x = E["expr"].t
    if isinstance(d, VNone):
        return z3.BoolVal(True)
    rec = E.s0.objs[d.oid]
    if rec.get("lazy") or rec.get("pure"):
        return z3.BoolVal(False)
    k = qv("dk", Id)
    nm = names(*heap3(E, E.s0), x)
    return z3.Implies(x != NULL, FA([k], z3.Implies(nm[k], z3.And(rec["dom"][k], rec["val"][k] == sym_symbol(k))), patterns=[nm[k]]))


def _sy_pre(E):
    h = heap3(E, E.s0)
    return z3.And(wfh(*h, E["expr"].t), _sy_dict_ok(E),
                  decreases(E, "GPR._symbolic_gpr", "expr", lambda v: tree_height(*h, v.t)))


def sym_spec(E, h, x, r):
    tg, BD = H(E, E.s0, "ast_tag"), h[2]
    is_root = z3.Or(tg[x] == T_EXPRESSION, tg[x] == T_GPR)
    empty = z3.Or(x == NULL, z3.And(is_root, BD[x] == NULL))
    return z3.If(empty, r == sym_symbol(EMPTY_NAME), symsem(r, VIS_K) == semh(*h, x, VIS_K))


def _sy_post(E):
    return sym_spec(E, heap3(E, E.s0), E["expr"].t, E.res.t)


def _sy_result(eng, st, E):
    E2 = Env(E.a, st, eng=eng)
    return st, VNp(symres(*heap3(E2, st), E["expr"].t))


def _sy_axioms(E):
    return _wk_axioms(E) + sympy_axioms() + height_axioms(E, E.s0)


def _sy_cases():
    x = lambda E: E["expr"].t  # noqa
    tg = lambda E: H(E, E.s0, "ast_tag")  # noqa
    optag = lambda E: tg(E)[H(E, E.s0, "op")[x(E)]]  # noqa
    nn = lambda E: x(E) != NULL  # noqa
    has_dict = lambda a, st: not isinstance(a["GPRGene_dict"], VNone)  # noqa
    out = []
    for nm, req in (("root", lambda E: z3.And(nn(E), z3.Or(tg(E)[x(E)] == T_EXPRESSION, tg(E)[x(E)] == T_GPR))),
                    ("Name", lambda E: z3.And(nn(E), tg(E)[x(E)] == T_NAME)),
                    ("Or", lambda E: z3.And(nn(E), tg(E)[x(E)] == T_BOOLOP, optag(E) == T_OR)),
                    ("And", lambda E: z3.And(nn(E), tg(E)[x(E)] == T_BOOLOP, optag(E) == T_AND)),
                    ("none", lambda E: z3.Not(nn(E)))):
        c = Case("table:" + nm, requires=req, ensures=_sy_post)
        c.params_override = {"GPRGene_dict": TDict("id", "np")}
        c.applies = has_dict
        out.append(c)
    c = Case("notable:GPR", requires=lambda E: tg(E)[x(E)] == T_GPR, ensures=_sy_post)
    c.params_override = {"expr": TRef("GPR")}
    c.applies = lambda a, st: isinstance(a["GPRGene_dict"], VNone)
    c.domain = c.requires        # without a table the method is called on the GPR object itself (as_symbolic)
    out.append(c)
    return out


_dn = TNone()
_dn.default = NONE
REG.add(Contract(MG, "GPR._symbolic_gpr", "C08", [("self", TRef("GPR")), ("expr", TRef("AstNode", nullable=True)), ("GPRGene_dict", _dn)],
                 _sy_cases(), pre=_sy_pre, modifies=lambda E: ([("heap", "gpr_genes")] if isinstance(E["GPRGene_dict"], VNone) else []),
                 axioms=_sy_axioms, key="GPR._symbolic_gpr", result=_sy_result))
# at call sites (recursive calls inside list comprehensions must not fork): ONE case with the common post-condition of the proved
# `table:` cases, whose preconditions cover every well-formed node and None (obligation cases-cover-domain#0)
_sy_any = Case("table:any", ensures=_sy_post)
_sy_any.applies = lambda a, st: not isinstance(a["GPRGene_dict"], VNone)
_sy_any0 = Case("notable:GPR", requires=lambda E: H(E, E.s0, "ast_tag")[E["expr"].t] == T_GPR, ensures=_sy_post)
_sy_any0.applies = lambda a, st: isinstance(a["GPRGene_dict"], VNone)
REG.get("GPR._symbolic_gpr").call_cases = [_sy_any, _sy_any0]


# ---- GPR.as_symbolic (without a name table), GPR.__eq__
def _as_post(E):
    return sym_spec(E, heap3(E, E.s0), E["self"].t, E.res.t)


def _as_result(eng, st, E):
    E2 = Env(E.a, st, eng=eng)
    return st, VNp(symres(*heap3(E2, st), E["self"].t))


_nn = TNone()
_nn.default = NONE
REG.add(Contract(MG, "GPR.as_symbolic", "C08", [("self", TRef("GPR")), ("names", _nn)], [Case("no_display_names", ensures=_as_post)],
                 pre=_gpr_pre, modifies=lambda E: [("heap", "gpr_genes")], axioms=_sy_axioms, key="GPR.as_symbolic", result=_as_result))


def _eq_pre(E):
    h, tg = heap3(E, E.s0), H(E, E.s0, "ast_tag")
    return z3.And(wfh(*h, E["self"].t), tg[E["self"].t] == T_GPR, wfh(*h, E["other"].t), tg[E["other"].t] == T_GPR)


def _eq_post(E):
    """rules that compare equal are logically equivalent (K arbitrary)"""
    h = heap3(E, E.s0)
    return z3.Implies(E.res.t, semh(*h, E["self"].t, VIS_K) == semh(*h, E["other"].t, VIS_K))


REG.add(Contract(MG, "GPR.__eq__", "C08", [("self", TRef("GPR")), ("other", TRef("GPR"))], [Case("any", ensures=_eq_post)],
                 pre=_eq_pre, modifies=lambda E: [("heap", "gpr_genes")], axioms=lambda E: _sy_axioms(E) + sympy_eq_axioms(),
                 key="GPR.__eq__", result="bool"))


# ================================================================ (3, continued) GPRCleaner.visit_BinOp: `a & b` -> And, `a | b` -> Or
# A BinOp node (tag BinOp, heap fields left / right / op with op a BitAnd / BitOr / other operator node) is what ast.parse produces
# for `&` and `|`.  Proved: after generic_visit has cleaned the operands (assumed: left / right are replaced by the non-None results
# of visiting them; may raise the TypeError of a nested visit_BinOp) the method returns a NEW BoolOp node whose operator is an And
# node for `&` and an Or node for `|`, whose `values` is a LIST (what NodeTransformer.generic_visit descends into later: the
# constructor contract's precondition - a tuple there was a real defect) holding exactly the cleaned left and right operand, in
# this order, and whose Boolean value is therefore the conjunction / disjunction of theirs; any other operator raises TypeError.
# Object allocation is an ASSUMED contract per node class: the new node is not None, is no operand of the call and no child of any
# existing node; the class tag (and, for BoolOp, the `op` field given to the constructor) are attributes of the new identity;
# its `values` are the elements of the list passed; no existing node is written.
T_BINOP, T_BITAND, T_BITOR = 8, 9, 10
_MORE_TAGS = {"BinOp": T_BINOP, "BitAnd": T_BITAND, "BitOr": T_BITOR}
REG.fields.update({"left": "ref:AstNode", "right": "ref:AstNode"})
REG.classes.setdefault("GPRCleaner", ["NodeTransformer"])


def cl_isinstance_hook(eng, st, v, clsname):
    if isinstance(v, VRef) and v.cls == "AstNode" and clsname in _MORE_TAGS:
        return z3.And(v.t != NULL, eng.heap_arr(st, "ast_tag")[v.t] == _MORE_TAGS[clsname])
    return None


def cl_global_hook(eng, name):
    if name in ("BoolOp", "And", "Or", "BitAnd", "BitOr"):
        return VClass(name)
    return None


HOOKS_CL = chain_hooks({"isinstance": cl_isinstance_hook, "global": cl_global_hook}, HOOKS_SYM)
HOOKS_CL["call_abstract"] = HOOKS_SYM["call_abstract"]
HOOKS = HOOKS_CL


def _not_a_child(h, z):
    x, i = qv("cx", Ref), qv("ci")
    return FA([x, i], z3.Implies(z3.And(0 <= i, i < h[0][x]), h[1][x][i] != z), patterns=[h[1][x][i]])


def _new_op_node(tagval, clsname):
    def post(E):
        z = E["self"].t
        return z3.And(z != NULL, H(E, E.s0, "ast_tag")[z] == tagval, _not_a_child(heap3(E, E.s0), z))
    REG.add(Contract("ast", clsname + ".__init__", "C08", [("self", TNone())], [Case("new", ensures=post)], assumed=True,
                     key=clsname + ".__init__", result=lambda eng, st, E: (st, VRef(fresh("new_" + clsname.lower(), Ref), "AstNode")),
                     note=f"object allocation ast.{clsname}(): a new operator node (its class tag is {clsname}), child of no existing node"))


_new_op_node(T_AND, "And")
_new_op_node(T_OR, "Or")


def _values_is_list(E):
    v = E["values"]
    return z3.BoolVal(isinstance(v, VObj) and v.kind == "list" and str(E.s0.objs[v.oid].get("ekind", "")).startswith("ref"))


def _boolop_new_post(E):
    z, o = E["self"].t, E["op"].t
    h0, h1 = heap3(E, E.s0), heap3(E, E.s1)
    n, e = L(E.s0, E["values"])
    j, x = qv("bj"), qv("bx", Ref)
    return z3.And(z != NULL, z != o, H(E, E.s0, "ast_tag")[z] == T_BOOLOP, H(E, E.s0, "op")[z] == o, _not_a_child(h0, z),
                  FA([j], z3.Implies(z3.And(0 <= j, j < n), e[j] != z), patterns=[e[j]]),
                  h1[0][z] == n, FA([j], z3.Implies(z3.And(0 <= j, j < n), h1[1][z][j] == e[j]), patterns=[h1[1][z][j]]),
                  FA([x], z3.Implies(x != z, z3.And(h1[0][x] == h0[0][x], h1[1][x] == h0[1][x])), patterns=[h1[0][x], h1[1][x]]))


REG.add(Contract("ast", "BoolOp.__init__", "C08", [("self", TNone()), ("op", TRef("AstNode")), ("values", TList("ref:AstNode"))],
                 [Case("new", ensures=_boolop_new_post)], pre=_values_is_list, modifies=RM_MOD, assumed=True, key="BoolOp.__init__",
                 result=lambda eng, st, E: (st, VRef(fresh("new_boolop", Ref), "AstNode")),
                 note="object allocation ast.BoolOp(op, values) with `values` a LIST (precondition: the transformer only descends into "
                      "lists): a new node (class tag BoolOp, operator `op`), different from `op` and from the elements, child of no "
                      "existing node, whose child list holds the elements of `values`; no existing node is written"))

CL_PARAMS = [("self", TObj("GPRCleaner", {"gene_set": TSet("id")})), ("node", TRef("AstNode"))]


def _cl_pre(E):
    t = E["node"].t
    return z3.And(H(E, E.s0, "ast_tag")[t] == T_BINOP, H(E, E.s0, "op")[t] != NULL, H(E, E.s0, "left")[t] != NULL, H(E, E.s0, "right")[t] != NULL)


def _cl_optag(E):
    return H(E, E.s0, "ast_tag")[H(E, E.s0, "op")[E["node"].t]]


CL_MOD = lambda E: [("heap", "values_n"), ("heap", "values_seq"), ("heap", "left"), ("heap", "right"), ("heap", "id"),  # noqa
                    ("set", E.s0.objs[E["self"].oid]["attr:gene_set"])]


def _cl_gv_post(E):
    t = E["node"].t
    return z3.And(H(E, E.s1, "left")[t] != NULL, H(E, E.s1, "right")[t] != NULL)


_cl_gv = Case("BinOp", ensures=_cl_gv_post)
_cl_gv.may_raise = "TypeError"
REG.add(Contract(MG, "GPRCleaner.generic_visit", "C08", CL_PARAMS, [_cl_gv], pre=_cl_pre, modifies=CL_MOD, assumed=True,
                 key="GPRCleaner.generic_visit", result="opaque",
                 note="ast.NodeTransformer.generic_visit on a BinOp node: `left`, `op`, `right` are visited in this order and replaced by "
                      "the results, which are nodes (no method of GPRCleaner returns None); identifiers, child lists and gene_set may "
                      "have been rewritten below; a nested visit_BinOp may raise TypeError"))


def _cl_post(optag):
    def post(E):
        t, r = E["node"].t, E.res.t
        tg, op = H(E, E.s0, "ast_tag"), H(E, E.s0, "op")
        h1 = heap3(E, E.s1)
        l1, r1 = H(E, E.s1, "left")[t], H(E, E.s1, "right")[t]
        # (stated over the two entries of the new child list, which the two clauses before identify with the cleaned operands)
        both = (z3.And if optag == T_AND else z3.Or)(semh(*h1, h1[1][r][0], VIS_K), semh(*h1, h1[1][r][1], VIS_K))
        return z3.And(r != NULL, r != t, r != l1, r != r1, tg[r] == T_BOOLOP, op[r] != NULL, tg[op[r]] == optag,
                      h1[0][r] == 2, h1[1][r][0] == l1, h1[1][r][1] == r1, semh(*h1, r, VIS_K) == both)
    return post


_cl_and = Case("BitAnd", requires=lambda E: _cl_optag(E) == T_BITAND, ensures=_cl_post(T_AND))
_cl_or = Case("BitOr", requires=lambda E: _cl_optag(E) == T_BITOR, ensures=_cl_post(T_OR))
_cl_and.may_raise = _cl_or.may_raise = "TypeError"           # from a nested `&` / `|` with an unsupported operator below
_cl_and.ensures_on_raise = _cl_or.ensures_on_raise = lambda E: z3.BoolVal(True)
_cl_other = Case("other_operator", requires=lambda E: z3.And(_cl_optag(E) != T_BITAND, _cl_optag(E) != T_BITOR), raises="TypeError")
_cl_other.modifies_on_raise = CL_MOD
REG.add(Contract(MG, "GPRCleaner.visit_BinOp", "C08", CL_PARAMS, [_cl_and, _cl_or, _cl_other], pre=_cl_pre, modifies=CL_MOD,
                 axioms=lambda E: tree_axioms(E, E.s0), key="GPRCleaner.visit_BinOp",
                 result=lambda eng, st, E: (st, VRef(fresh("binop_res", Ref), "AstNode"))))


# ================================================================ the evaluator against the SAME semantics (heap-resident child lists)
# c07_knockout proves GPR._eval_gpr / GPR.eval equal to `sem` over immutable child sequences; the contracts above talk about semh
# over the mutable heap.  Second contracts of the two functions (keys `.../heap`), proved on the same source with the hook table of
# this module, state the evaluator against semh, so that every clause of C08 proved here is about one and the same function:
# eval(K) == semh(h, rule, K);  removal, symbolic form and == preserve / respect semh;  genes == names.
def _evh_term(E, st):
    x = E["expr"].t
    return z3.If(x == NULL, z3.BoolVal(True), semh(*heap3(E, st), x, C7.set_dom(st, E["knockouts"])))


def _evh_cases():
    x = lambda E: E["expr"].t  # noqa
    tg = lambda E: H(E, E.s0, "ast_tag")  # noqa
    optag = lambda E: tg(E)[H(E, E.s0, "op")[x(E)]]  # noqa
    post = lambda E: E.res.t == _evh_term(E, E.s0)  # noqa
    return [Case("root_node", requires=lambda E: z3.And(x(E) != NULL, z3.Or(tg(E)[x(E)] == T_EXPRESSION, tg(E)[x(E)] == T_GPR)), ensures=post),
            Case("name", requires=lambda E: z3.And(x(E) != NULL, tg(E)[x(E)] == T_NAME), ensures=post),
            Case("or", requires=lambda E: z3.And(x(E) != NULL, tg(E)[x(E)] == T_BOOLOP, optag(E) == T_OR), ensures=post),
            Case("and", requires=lambda E: z3.And(x(E) != NULL, tg(E)[x(E)] == T_BOOLOP, optag(E) == T_AND), ensures=post),
            Case("none", requires=lambda E: x(E) == NULL, ensures=post)]


_evh = REG.add(Contract(MG, "GPR._eval_gpr", "C08", [("self", TRef("GPR")), C7.NODE, C7.KO], _evh_cases(),
                        pre=lambda E: z3.And(wfh(*heap3(E, E.s0), E["expr"].t),
                                             decreases(E, "GPR._eval_gpr/heap", "expr", lambda v: tree_height(*heap3(E, E.s0), v.t))),
                        axioms=lambda E: tree_axioms(E, E.s0) + height_axioms(E, E.s0),
                        key="GPR._eval_gpr/heap", result=lambda eng, st, E: (st, VBool(_evh_term(Env(E.a, st, eng=eng), st)))))
_evh.call_cases = [Case("any")]          # the result term itself is semh(h, expr, K)


def _evalh_K(E, st):
    ko = E["knockouts"]
    return EMPTY if isinstance(ko, VNone) else C7.set_dom(st, ko)


def _evalh_cases():
    out = []
    for nm, t in (("knockouts_set", TSet("id")), ("knockouts_none", TNone())):
        c = Case(nm, ensures=lambda E: E.res.t == semh(*heap3(E, E.s0), E["self"].t, _evalh_K(E, E.s0)))
        c.params_override = {"knockouts": t}
        c.applies = (lambda a, st: isinstance(a["knockouts"], VNone)) if nm == "knockouts_none" else \
            (lambda a, st: not isinstance(a["knockouts"], VNone))
        out.append(c)
    return out


_kn2 = TNone()
_kn2.default = NONE
REG.add(Contract(MG, "GPR.eval", "C08", [("self", TRef("GPR")), ("knockouts", _kn2)], _evalh_cases(), pre=_gpr_pre,
                 axioms=lambda E: tree_axioms(E, E.s0), key="GPR.eval/heap",
                 result=lambda eng, st, E: (st, VBool(semh(*heap3(Env(E.a, st, eng=eng), st), E["self"].t, _evalh_K(E, st))))))


def evh_call_method_hook(eng, st, recv, name, pos, kw):
    """inside this module's proofs the recursive calls of the evaluator use ITS heap contract"""
    if isinstance(recv, VRef) and recv.cls == "GPR" and name == "_eval_gpr":
        return eng.apply_contract(st, eng.reg.get("GPR._eval_gpr/heap"), [recv] + list(pos), kw)
    return None


HOOKS_EV = chain_hooks({"call_method": evh_call_method_hook}, HOOKS_CL)
HOOKS_EV["call_abstract"] = HOOKS_SYM["call_abstract"]
HOOKS = HOOKS_EV


# ================================================================ GPR.copy / GPR.__copy__ (pass-through of an ASSUMED deepcopy)
# copy.deepcopy of a GPR object is ASSUMED to return another GPR object with an isomorphic tree: same truth table (for the arbitrary
# K `vis_K`), same names, a body exactly when the original has one; nothing that exists is written.  Proved: copy() and __copy__()
# return that object (a one-line / two-line pass-through; listed for completeness of the statement `copying yields a rule with the
# same truth table and gene set`).
def copy_spec(E, st, g, r):
    h = heap3(E, st)
    k = qv("ck", Id)
    tg, BD = H(E, st, "ast_tag"), h[2]
    return z3.And(r != NULL, r != g, tg[r] == T_GPR, wfh(*h, r), (BD[r] == NULL) == (BD[g] == NULL),
                  semh(*h, r, VIS_K) == semh(*h, g, VIS_K),
                  FA([k], names(*h, r)[k] == names(*h, g)[k], patterns=[names(*h, r)[k]]))


def copy_call_abstract_hook(eng, st, f, pos, kw):
    if f.a == "deepcopy" and len(pos) == 1 and not kw and isinstance(pos[0], VRef) and pos[0].cls == "GPR":
        r = fresh("gpr_copy", Ref)
        E = Env({}, st, eng=eng)
        return [("ok", st.assume(copy_spec(E, st, pos[0].t, r)), VRef(r, "GPR"))]
    return None


HOOKS_CP = dict(HOOKS_EV)
HOOKS_CP["call_abstract"] = _chain_abstract(copy_call_abstract_hook, sym_call_abstract_hook, call_abstract_hook)
HOOKS = HOOKS_CP

for _q in ("GPR.copy", "GPR.__copy__"):
    REG.add(Contract(MG, _q, "C08", [("self", TRef("GPR"))], [Case("any", ensures=lambda E: copy_spec(E, E.s1, E["self"].t, E.res.t))],
                     pre=_gpr_pre, axioms=_wk_axioms, key=_q, result=lambda eng, st, E: (st, VRef(fresh("copy_res", Ref), "GPR"))))


# ================================================================ GPR.from_symbolic._sympy_to_ast: sympy -> rule tree (a homomorphism)
# The nested recursive function of from_symbolic.  sympy side (ASSUMED accessors, inverse to the constructors above): an
# expression e of the GPR fragment (predicate sym_gpr_expr, unfolding below) is an Or / an And with >= 1 arguments which are again
# of the fragment, or has no arguments and then is a Symbol with a name; its meaning is that of its arguments / its name.
# AST side: allocation is modelled FUNCTIONALLY here - `Name(id=..)`, `Or()`, `And()` and `BoolOp(op=.., values=[..])` return a node
# that carries the content given to the constructor, and no heap field is written (an unused object with the wanted content is
# chosen).  This is adequate for a function that only BUILDS a tree and never writes to an existing node (no aliasing question can
# arise); it is NOT the allocation contract used for GPRCleaner.visit_BinOp above, and it is listed as assumed.
# Proved: for e of the fragment the result is a well-formed Name / BoolOp tree r with semh(h, r, K) == sympy_sem(e, K) (K = vis_K).
sym_is_or = z3.Function("sympy.func_is_Or", NP, z3.BoolSort())
sym_is_and = z3.Function("sympy.func_is_And", NP, z3.BoolSort())
sym_nargs = z3.Function("sympy.nargs", NP, z3.IntSort())
sym_arg = z3.Function("sympy.arg", NP, z3.IntSort(), NP)
sym_name = z3.Function("sympy.name", NP, Id)
sym_gpr_expr = z3.Function("sym_gpr_expr", NP, z3.BoolSort())
sym_size = z3.Function("sympy.size", NP, z3.IntSort())
ast_of = z3.Function("sympy_to_ast_of", NP, Ref)        # the node _sympy_to_ast returns for an expression (call sites)


def sympy_accessor_axioms():
    e, K, i = z3.Const("ze", NP), z3.Const("zK", IdSet), z3.Int("zi")
    n, arg = sym_nargs(e), (lambda j: sym_arg(e, j))
    inner = z3.Or(sym_is_or(e), sym_is_and(e))
    return [
        z3.ForAll([e], z3.Implies(sym_gpr_expr(e), z3.And(
            z3.Not(z3.And(sym_is_or(e), sym_is_and(e))), n >= 0,
            z3.Implies(inner, z3.And(n >= 1, z3.ForAll([i], z3.Implies(z3.And(0 <= i, i < n), sym_gpr_expr(arg(i))), patterns=[arg(i)]))),
            z3.Implies(z3.Not(inner), n == 0))), patterns=[sym_gpr_expr(e)]),
        z3.ForAll([e, K], z3.Implies(z3.And(sym_gpr_expr(e), sym_is_or(e)),
                                     symsem(e, K) == z3.Exists([i], z3.And(0 <= i, i < n, symsem(arg(i), K)))), patterns=[symsem(e, K)]),
        z3.ForAll([e, K], z3.Implies(z3.And(sym_gpr_expr(e), sym_is_and(e)),
                                     symsem(e, K) == z3.ForAll([i], z3.Implies(z3.And(0 <= i, i < n), symsem(arg(i), K)))), patterns=[symsem(e, K)]),
        z3.ForAll([e, K], z3.Implies(z3.And(sym_gpr_expr(e), z3.Not(inner)), symsem(e, K) == z3.Not(K[sym_name(e)])), patterns=[symsem(e, K)]),
        # expressions are finite: an argument is smaller than the expression
        z3.ForAll([e, i], z3.Implies(z3.And(sym_gpr_expr(e), 0 <= i, i < n), sym_size(arg(i)) < sym_size(e)),
                  patterns=[z3.MultiPattern(sym_size(arg(i)), sym_size(e))]),
    ]


def s2a_getattr_hook(eng, st, v, name):
    if isinstance(v, VNp) and name == "func":
        return [("ok", st, VFunc("symfunc", v))]
    if isinstance(v, VNp) and name == "args":
        e = v.t
        return [("ok", st, VSeq(sym_nargs(e), lambda s, i: VNp(sym_arg(e, i)), tag="sympy_args"))]
    if isinstance(v, VNp) and name == "name":
        return [("ok", st, VStr(sym_name(v.t)))]
    return None


def s2a_compare_hook(eng, st, op, a, b):
    import ast as _ast
    if isinstance(op, (_ast.Is, _ast.IsNot)) and isinstance(a, VFunc) and a.kind == "symfunc" and isinstance(b, VFunc) and b.kind == "abstract" \
            and b.a in ("spl.Or", "spl.And"):
        c = (sym_is_or if b.a == "spl.Or" else sym_is_and)(a.a.t)
        return [("ok", st, VBool(z3.Not(c) if isinstance(op, _ast.IsNot) else c))]
    return None


def s2a_truth_hook(eng, st, v):
    if isinstance(v, VSeq) and v.tag == "sympy_args":
        return v.n != 0
    return None


def s2a_global_hook(eng, name):
    if name in ("BoolOp", "Name"):
        return VFunc("abstract", "new:" + name)
    return None


s2a_touch = z3.Function("s2a_touch", Ref, NP, z3.BoolSort())


def s2a_call_abstract_hook(eng, st, f, pos, kw):
    if f.a == "_sympy_to_ast":
        return eng.apply_contract(st, eng.reg.get("GPR.from_symbolic._sympy_to_ast"), pos, kw)      # recursion: its own contract
    tg = eng.heap_arr(st, "ast_tag")
    if f.a == "new:Name" and not pos and set(kw) == {"id"}:
        z = fresh("new_name", Ref)
        return [("ok", st.assume(z != NULL, tg[z] == T_NAME, eng.heap_arr(st, "id")[z] == unwrap(kw["id"], "id")), VRef(z, "AstNode"))]
    if f.a == "new:BoolOp" and not pos and set(kw) == {"op", "values"}:
        vals = kw["values"]
        if not (isinstance(vals, VObj) and vals.kind == "list" and st.objs[vals.oid].get("ekind", "").startswith("ref")):
            raise Unsupported("BoolOp(values=...) with something that is not a list of nodes")
        rec = st.objs[vals.oid]
        z = fresh("new_boolop", Ref)
        j = qv("nj")
        VN, VS = eng.heap_arr(st, "values_n"), eng.heap_arr(st, "values_seq")
        he, hi = z3.Const(fresh_name("he"), NP), qv("hi")
        return [("ok", st.assume(z != NULL, tg[z] == T_BOOLOP, eng.heap_arr(st, "op")[z] == kw["op"].t, VN[z] == rec["len"],
                                 FA([j], z3.Implies(z3.And(0 <= j, j < rec["len"]), VS[z][j] == rec["elem"][j]),
                                    patterns=[VS[z][j], rec["elem"][j]]),
                                 # instantiation hint only (satisfied by s2a_touch = True): look at the i-th element of the list
                                 # whenever the i-th argument of some expression is looked at
                                 FA([he, hi], s2a_touch(rec["elem"][hi], sym_arg(he, hi)), patterns=[sym_arg(he, hi)])),
                 VRef(z, "AstNode"))]
    return None


HOOKS_S2A = chain_hooks({"getattr": s2a_getattr_hook, "compare": s2a_compare_hook, "truth": s2a_truth_hook, "global": s2a_global_hook},
                        HOOKS_CP)
HOOKS_S2A["call_abstract"] = _chain_abstract(s2a_call_abstract_hook, copy_call_abstract_hook, sym_call_abstract_hook, call_abstract_hook)


def _s2a_spec(E, st, e, r):
    h, tg = heap3(E, st), H(E, st, "ast_tag")
    return z3.And(r != NULL, wfh(*h, r), is_expr_tag(tg, r), semh(*h, r, VIS_K) == symsem(e, VIS_K))


def _s2a_self(st, name):
    return st, VFunc("abstract", "_sympy_to_ast")


_s2a = REG.add(Contract(MG, "GPR.from_symbolic._sympy_to_ast", "C08", [("sympy_expr", npalg.TNp())],
                        [Case("Or", requires=lambda E: sym_is_or(E["sympy_expr"].t), ensures=lambda E: _s2a_spec(E, E.s1, E["sympy_expr"].t, E.res.t)),
                         Case("And", requires=lambda E: sym_is_and(E["sympy_expr"].t), ensures=lambda E: _s2a_spec(E, E.s1, E["sympy_expr"].t, E.res.t)),
                         Case("Symbol", requires=lambda E: z3.Not(z3.Or(sym_is_or(E["sympy_expr"].t), sym_is_and(E["sympy_expr"].t))),
                              ensures=lambda E: _s2a_spec(E, E.s1, E["sympy_expr"].t, E.res.t))],
                        pre=lambda E: z3.And(sym_gpr_expr(E["sympy_expr"].t),
                                             decreases(E, "GPR.from_symbolic._sympy_to_ast", "sympy_expr", lambda v: sym_size(v.t))),
                        axioms=lambda E: _sy_axioms(E) + sympy_accessor_axioms(),
                        closure=[("_sympy_to_ast", TCustom(_s2a_self))], key="GPR.from_symbolic._sympy_to_ast",
                        result=lambda eng, st, E: (st, VRef(ast_of(E["sympy_expr"].t), "AstNode"))))
_s2a.call_cases = [Case("any", ensures=lambda E: _s2a_spec(E, E.s1, E["sympy_expr"].t, E.res.t))]
