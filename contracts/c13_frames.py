"""C13 frame contracts (pure data; read by pyvc/frame_check.py).

C13: every analysis that takes a model without being documented to modify it returns with the model's content,
bounds, objective and direction, solver problem and gene states identical to before the call, on every exit.

The tables below are the *frame contracts of the callees*, relative to which each analysis is checked:

ANALYSES  functions whose own contract is "modifies nothing" (each is checked; a call to one is neutral).
HELPERS   functions that DO modify the model and are only correct under a stated precondition at the call
          site (`requires`); their bodies are checked assuming it, every reference is checked to establish it.
EFFECTS   classification of every other callee / attribute write that can touch the model.

Line numbers are those of /repo at HEAD 0d7737c (the tree keeps moving); they are documentation, explain() prints the
current ones.  The machine-checked
part of the evidence is the `ev` field: (relpath, qualname, kind, arg) re-verified against the real source on every
run (`frame_check.verify_evidence`); a row whose evidence no longer holds makes its sites UNDECIDED.
"""

CORE, FA, UT = "cobra/core/", "cobra/flux_analysis/", "cobra/util/"
MED, SAM, SUM = "cobra/medium/", "cobra/sampling/", "cobra/summary/"

# (module relpath under $VERIF_REPO/src, function qualname, model expression)
#   model expression: a parameter name | "self" (Model methods) | "self._model" | "_model" (module global set by
#   an _init_worker) | "<init>" (method of a class built from a model: kinds of self.* are taken from the analysis
#   of the class' and its bases' __init__) | None (no model parameter; Reaction/Metabolite parameters are
#   recognised by their annotations).
ANALYSES = [
    (CORE + "model.py", "Model.optimize", "self"),
    (CORE + "model.py", "Model.slim_optimize", "self"),
    (CORE + "model.py", "Model.summary", "self"),
    (CORE + "reaction.py", "Reaction.summary", "self._model"),
    (CORE + "metabolite.py", "Metabolite.summary", "self._model"),
    (FA + "helpers.py", "normalize_cutoff", "model"),
    (FA + "variability.py", "flux_variability_analysis", "model"),
    (FA + "variability.py", "find_blocked_reactions", "model"),
    (FA + "variability.py", "find_essential_genes", "model"),
    (FA + "variability.py", "find_essential_reactions", "model"),
    (FA + "parsimonious.py", "pfba", "model"),
    (FA + "moma.py", "moma", "model"),
    (FA + "room.py", "room", "model"),
    (FA + "geometric.py", "geometric_fba", "model"),
    (FA + "loopless.py", "loopless_solution", "model"),
    (FA + "loopless.py", "loopless_fva_iter", "model"),
    (FA + "deletion.py", "_get_growth", "model"),
    (FA + "deletion.py", "_reaction_deletion", "model"),
    (FA + "deletion.py", "_gene_deletion", "model"),
    (FA + "deletion.py", "_reaction_deletion_worker", "_model"),
    (FA + "deletion.py", "_gene_deletion_worker", "_model"),
    (FA + "deletion.py", "_init_worker", "model"),
    (FA + "deletion.py", "_multi_deletion", "model"),
    (FA + "deletion.py", "_entities_ids", None),
    (FA + "deletion.py", "_element_lists", None),
    (FA + "deletion.py", "single_reaction_deletion", "model"),
    (FA + "deletion.py", "single_gene_deletion", "model"),
    (FA + "deletion.py", "double_reaction_deletion", "model"),
    (FA + "deletion.py", "double_gene_deletion", "model"),
    (FA + "phenotype_phase_plane.py", "production_envelope", "model"),
    (FA + "phenotype_phase_plane.py", "_add_envelope", "model"),
    (FA + "phenotype_phase_plane.py", "_find_carbon_sources", "model"),
    (FA + "phenotype_phase_plane.py", "_reaction_elements", None),
    (FA + "phenotype_phase_plane.py", "_reaction_weight", None),
    (FA + "reaction.py", "assess", "model"),
    (FA + "reaction.py", "assess_component", "model"),
    (FA + "reaction.py", "assess_precursors", "model"),
    (FA + "reaction.py", "assess_products", "model"),
    (FA + "reaction.py", "_optimize_or_value", "model"),
    (MED + "minimal_medium.py", "minimal_medium", "model"),
    (MED + "minimal_medium.py", "_as_medium", None),
    (MED + "boundary_types.py", "find_boundary_types", "model"),
    (MED + "boundary_types.py", "find_external_compartment", "model"),
    (MED + "boundary_types.py", "is_boundary_type", None),
    (FA + "gapfilling.py", "GapFiller.__init__", "model"),
    (FA + "gapfilling.py", "GapFiller.extend_model", "<init>"),
    (FA + "gapfilling.py", "GapFiller.update_costs", "<init>"),
    (FA + "gapfilling.py", "GapFiller.add_switches_and_objective", "<init>"),
    (FA + "gapfilling.py", "GapFiller.fill", "<init>"),
    (FA + "gapfilling.py", "GapFiller.validate", "<init>"),
    (FA + "gapfilling.py", "gapfill", "model"),
    (FA + "fastcc.py", "fastcc", "model"),
    (SAM + "hr_sampler.py", "HRSampler.__init__", "model"),
    (SAM + "hr_sampler.py", "HRSampler.__build_problem", "<init>"),
    (SAM + "hr_sampler.py", "HRSampler.generate_fva_warmup", "<init>"),
    (SAM + "hr_sampler.py", "HRSampler.validate", "<init>"),
    (SAM + "achr.py", "ACHRSampler.__init__", "model"),
    (SAM + "achr.py", "ACHRSampler.sample", "<init>"),
    (SAM + "optgp.py", "OptGPSampler.__init__", "model"),
    (SAM + "optgp.py", "OptGPSampler.sample", "<init>"),
    (SAM + "sampling.py", "sample", "model"),
    (SUM + "summary.py", "Summary._generate", "model"),
    (SUM + "model_summary.py", "ModelSummary.__init__", "model"),
    (SUM + "model_summary.py", "ModelSummary._generate", "model"),
    (SUM + "metabolite_summary.py", "MetaboliteSummary.__init__", "model"),
    (SUM + "metabolite_summary.py", "MetaboliteSummary._generate", "model"),
    (SUM + "reaction_summary.py", "ReactionSummary.__init__", "model"),
    (SUM + "reaction_summary.py", "ReactionSummary._generate", "model"),
]

# What a call to an ANALYSES / HELPERS function returns (default "value": floats, Solutions, DataFrames, id lists;
# constructors of ANALYSES classes default to "wrap": the object may retain references to what it was given).
RETURNS = {
    "find_essential_genes": "wrap", "find_essential_reactions": "wrap", "find_boundary_types": "wrap",
    "_find_carbon_sources": "wrap", "_find_sparse_mode": "wrap", "assess": "wrap", "assess_component": "wrap",
    "assess_precursors": "wrap", "assess_products": "wrap", "fastcc": "copy", "_entities_ids": "wrap",
    "_element_lists": "wrap", "Model.summary": "wrap", "Reaction.summary": "wrap", "Metabolite.summary": "wrap",
}

# class -> (relpath, base class) for "<init>" seeding and super() resolution
BASES = {
    "ACHRSampler": (SAM + "hr_sampler.py", "HRSampler"),
    "OptGPSampler": (SAM + "hr_sampler.py", "HRSampler"),
}

# Helper (modifier) contracts.  requires-tokens, to be established at every reference:
#   "ctx"        the reference lies inside `with <model>:` (or inside a helper that itself requires "ctx"):
#                every context-aware mutator in the body registers its undo there (C03).
#   "objective"  a set_objective reset of this model was registered earlier in the same (or an enclosing, still
#                open) context: util/solver.py set_objective L164-167 captures expression+direction in
#                `reverse_value`, L205-209 registers `reset` which re-installs that Objective and its direction.
#                It therefore wipes every later behind-the-back write to the objective (coefficients, direction).
#   "owned:<p>"  solver constraints/variables whose name matches <p> were added inside the same open context (by
#                add_cons_vars, whose undo removes them), so their state at exit is irrelevant.
# establishes: token -> None (unconditionally, on normal return) | parameter name (only if that argument is truthy).
#   "objective" establishment is re-verified structurally (a top-level `<model>.objective = ...` in the body, or in
#   the top-level `if <param>:`); "owned:*" establishment is trusted from the quoted lines.
HELPERS = [
    dict(mod=FA + "parsimonious.py", fn="add_pfba", model="model", requires=("ctx",), establishes={"objective": None},
         why="documented modifier; L137 installs a fresh objective via the context-aware setter before L140 fills it"),
    dict(mod=FA + "moma.py", fn="add_moma", model="model", requires=("ctx",), establishes={"objective": None},
         why="documented modifier; L138 installs a fresh objective before L164 fills it"),
    dict(mod=FA + "room.py", fn="add_room", model="model", requires=("ctx",), establishes={"objective": None},
         why="documented modifier; L136 installs a fresh objective before L167 fills it"),
    dict(mod=FA + "loopless.py", fn="_add_cycle_free", model="model", requires=("ctx",),
         establishes={"objective": None}, why="L105 installs a fresh objective, L112-118 bounds setters, L121 fills it"),
    dict(mod=UT + "solver.py", fn="fix_objective_as_constraint", model="model", requires=("ctx",), establishes={},
         why="documented modifier, used by add_pfba; L521 registers removal of the new constraint"),
    dict(mod=FA + "variability.py", fn="_init_worker", model="model", requires=("ctx", "objective"), establishes={},
         why="L44 writes the objective direction directly on the optlang objective"),
    dict(mod=FA + "variability.py", fn="_fva_step", model="_model", requires=("ctx", "objective"), establishes={},
         why="L69/L85 write objective coefficients directly (comment L65-68 says so)"),
    dict(mod=MED + "minimal_medium.py", fn="add_linear_obj", model="model", requires=("ctx", "objective"),
         establishes={}, why="L41-42 write coefficients and direction directly on model.objective"),
    dict(mod=MED + "minimal_medium.py", fn="add_mip_obj", model="model", requires=("ctx", "objective"),
         establishes={}, why="L84 add_cons_vars; L86-87 write coefficients and direction directly"),
    dict(mod=FA + "fastcc.py", fn="_find_sparse_mode", model="model", requires=("ctx",),
         establishes={"objective": "rxns", "owned:constraint_*": "rxns", "owned:auxiliary_*": "rxns"},
         why="only `if rxns:` (L36): L42-53 add auxiliary_<id>/constraint_<id> via add_cons_vars, L54 fresh objective"),
    dict(mod=FA + "fastcc.py", fn="_flip_coefficients", model="model",
         requires=("ctx", "objective", "owned:constraint_*"), establishes={},
         why="L81 flips coefficients of constraint_<id>, L86 flips the objective, both directly on optlang objects"),
]

# ---------------------------------------------------------------------------------------------------------------
# Kinds of values tracked by the checker: M the argument model, O its objective object, P any other mutable part
# reachable from it (reactions, metabolites, genes, solver, variables, constraints, containers of those), X another
# Model argument, C a Model.copy() or part of one, F an object created in the function (optlang Variable/
# Constraint/Objective, Reaction(...), Model(...)), V plain data.  Attribute reads that yield plain data:
M_VALUE_ATTRS = {"id", "name", "tolerance", "medium", "objective_direction", "problem", "compartments", "__name__"}
O_VALUE_ATTRS = {"direction", "value", "expression", "name", "is_Linear"}
P_VALUE_ATTRS = {
    "id", "name", "flux", "fluxes", "primal", "dual", "value", "status", "direction", "lower_bound", "upper_bound",
    "bounds", "lb", "ub", "boundary", "reversibility", "expression", "flux_expression", "objective_coefficient",
    "formula_weight", "elements", "compartment", "compartments", "reduced_cost", "shadow_price", "functional",
    "gene_reaction_rule", "is_integer", "is_Linear", "type", "primal_values", "interface", "__name__", "formula",
    "charge", "rxn_id", "cost",
}
# constructors: the result is a new object not attached to the model (attaching is add_cons_vars/add_reactions)
CONSTRUCTORS = {"Variable", "Constraint", "Objective", "Reaction", "Metabolite", "Gene", "Model", "Group"}
# higher-order callables: argument 0 is the function that gets called with the remaining arguments
HOF = {"map", "partial", "filter", "imap", "imap_unordered", "starmap"}
GETTERS = {"attrgetter", "itemgetter"}

_RS = "resettable"  # evidence kinds: resettable | get_context | calls (arg: names that must occur as call/store)
R, S, MD = CORE + "reaction.py", UT + "solver.py", CORE + "model.py"

# (form, receiver kinds, name pattern, class, returns, ev, note)
#   form: "set" attribute store | "method" call on a model-kind receiver | "call" call whose receiver is not part
#         of the model (module function, local container) | "setitem" subscript store | "iadd" augmented assignment
#   class: pure | ctx | raw:<resource> | copy ; returns: value | elem | part | fresh | copy | wrap (default)
#   First matching row wins.  Anything unmatched is UNKNOWN and its site is reported undecided -- in particular every
#   write to another Model argument (kind X): a `with <model>:` block registers nothing for a different model.
EFFECTS = [
    # ---- ctx: attribute setters that register their undo (C03 trusted for "undo o do = id")
    ("set", "P", "bounds", "ctx", None, [(R, "Reaction.bounds@setter", _RS, None)], "reaction.py L426-428 @resettable"),
    ("set", "P", "lower_bound", "ctx", None, [(R, "Reaction.lower_bound@setter", _RS, None)], "reaction.py L344-346"),
    ("set", "P", "upper_bound", "ctx", None, [(R, "Reaction.upper_bound@setter", _RS, None)], "reaction.py L385-387"),
    ("set", "P", "gene_reaction_rule", "ctx", None, [(R, "Reaction.gene_reaction_rule@setter", _RS, None)], "L666-668"),
    ("set", "P", "gpr", "ctx", None, [(R, "Reaction.gpr@setter", _RS, None)], "reaction.py L710-712"),
    ("set", "P", "functional", "ctx", None, [(CORE + "gene.py", "Gene.functional@setter", _RS, None)], "gene.py L233-235"),
    ("set", "M", "objective", "ctx", None,
     [(MD, "Model.objective@setter", "calls", "set_objective"), (S, "set_objective", "get_context", None)],
     "model.py L1331 -> solver.py set_objective L202-209 registers reset(expression, direction)"),
    ("set", "M", "objective_direction", "ctx", None, [(MD, "Model.objective_direction@setter", _RS, None)], "model.py L1344-1346"),
    ("set", "M", "solver", "ctx", None, [(MD, "Model.solver@setter", "get_context", None)],
     "model.py: the setter records context(partial(setattr, self, '_solver', <old solver>)) itself (since /repo 10ce3f2)"),
    ("set", "M", "medium", "ctx", None,
     [(MD, "Model.medium@setter", "calls", "lower_bound,upper_bound"), (R, "Reaction.lower_bound@setter", _RS, None),
      (R, "Reaction.upper_bound@setter", _RS, None)], "model.py L346-349 only uses the resettable bound setters"),
    # ---- raw: writes behind the context's back
    ("set", "O", "direction", "raw:objective", None, [], "optlang Objective.direction setter; no cobra context involved"),
    ("set", "P", "objective", "raw:objective", None, [], "model.solver.objective = ... bypasses set_objective"),
    ("set", "M", "tolerance", "raw:tolerance", None, [], "model.py L187-222: plain setter, no @resettable"),
    ("set", "OP", "lb", "raw:solver", None, [], "optlang variable/constraint bound"),
    ("set", "OP", "ub", "raw:solver", None, [], "optlang variable/constraint bound"),
    ("method", "O", "set_linear_coefficients", "raw:objective", "value", [], "optlang, writes objective coefficients"),
    ("method", "P", "set_linear_coefficients", "raw:solver", "value", [], "optlang, writes constraint coefficients"),
    ("method", "P", "set_bounds", "raw:solver", "value", [], "optlang variable bounds"),
    ("method", "P", "remove", "raw:remove", "value", [], "solver.remove / container removal with no undo registered"),
    ("method", "P", "add", "raw:solver", "value", [], "solver.add without context registration"),
    # ---- ctx: methods / functions that register their undo
    ("method", "M", "add_cons_vars", "ctx", "value",
     [(MD, "Model.add_cons_vars", "calls", "add_cons_vars_to_problem"), (S, "add_cons_vars_to_problem", "get_context", None)],
     "model.py L972 -> solver.py L384-388"),
    ("method", "M", "remove_cons_vars", "ctx", "value",
     [(MD, "Model.remove_cons_vars", "calls", "remove_cons_vars_from_problem"),
      (S, "remove_cons_vars_from_problem", "get_context", None)], "model.py L993 -> solver.py L409-413"),
    ("method", "M", "add_boundary", "ctx", "part",
     [(MD, "Model.add_boundary", "calls", "add_reactions"), (MD, "Model.add_reactions", "get_context", None)],
     "model.py L692-696: new Reaction, add_reactions; the metabolite is copied by reaction.py L1236-1239 first"),
    ("method", "M", "add_reactions", "ctx", "value", [(MD, "Model.add_reactions", "get_context", None)], "model.py L734-763"),
    ("method", "M", "remove_reactions", "ctx", "value", [(MD, "Model.remove_reactions", "get_context", None)], "model.py L791-840"),
    ("method", "M", "add_metabolites", "ctx", "value", [(MD, "Model.add_metabolites", "get_context", None)], "model.py L533-538"),
    ("method", "M", "remove_metabolites", "ctx", "value", [(MD, "Model.remove_metabolites", "get_context", None)], "model.py L584-588"),
    ("method", "P", "knock_out", "ctx", "value",
     [(R, "Reaction.knock_out", "calls", "bounds"), (R, "Reaction.bounds@setter", _RS, None),
      (CORE + "gene.py", "Gene.knock_out", "calls", "functional,bounds"), (CORE + "gene.py", "Gene.functional@setter", _RS, None)],
     "reaction.py L1505-1507, gene.py L240-251: only resettable setters"),
    ("method", "P", "add_metabolites", "ctx", "value", [(R, "Reaction.add_metabolites", "get_context", None)], "L1294-1320"),
    ("method", "P", "subtract_metabolites", "ctx", "value", [(R, "Reaction.subtract_metabolites", "calls", "add_metabolites")], ""),
    ("call", "*", "add_cons_vars_to_problem", "ctx", "value", [(S, "add_cons_vars_to_problem", "get_context", None)], "L384-388"),
    ("call", "*", "remove_cons_vars_from_problem", "ctx", "value", [(S, "remove_cons_vars_from_problem", "get_context", None)], ""),
    ("call", "*", "set_objective", "ctx", "value", [(S, "set_objective", "get_context", None)], "solver.py L202-209"),
    ("call", "*", "add_absolute_expression", "ctx", "fresh",
     [(S, "add_absolute_expression", "calls", "add_cons_vars_to_problem")], "solver.py L463-466 (nothing added when add=False)"),
    ("call", "*", "choose_solver", "ctx", "value", [(MD, "Model.solver@setter", "get_context", None)],
     "solver.py L306-309: assigns model.solver (resettable) only when a solver name is passed"),
    ("call", "*", "knock_out_model_genes", "ctx", "wrap", [("cobra/manipulation/delete.py", "knock_out_model_genes", "calls", "knock_out"), (CORE + "gene.py", "Gene.knock_out", "calls", "functional,bounds")],
     "manipulation/delete.py L86-90: only gene.knock_out()"),
    ("call", "*", "add_lp_feasibility", "ctx", "value", [(S, "add_lp_feasibility", "calls", "add_cons_vars,objective")],
     "solver.py L624/L629; the raw L625 coefficients sit on the variables whose removal is registered at L624"),
    ("call", "*", "add_lexicographic_constraints", "ctx", "value",
     [(S, "add_lexicographic_constraints", "calls", "objective,objective_direction,fix_objective_as_constraint")], "L677-679"),
    ("call", "*", "add_loopless", "ctx", "value", [(FA + "loopless.py", "add_loopless", "calls", "add_cons_vars")],
     "loopless.py L78/L84; raw L90 writes go to the constraint added at L84"),
    # ---- copies
    ("method", "MX", "copy", "copy", "copy", [], "model.py L374-489 builds new objects, reads self only (L393-395 shares _compartments by reference)"),
    ("call", "*", "ProcessPool", "copy", "value", [], "util/process_pool.py: initializer/initargs run in forked or pickled worker copies"),
    ("method", "PX", "copy", "pure", "fresh", [],
     "reaction.py L942-967 / species.py L75: returns a detached copy; Reaction.copy clears _model at L953-958 and restores"
     " it at L962-966 without try/finally (assumption A5: deepcopy of plain attributes does not raise)"),
    # ---- pure: reads of the model / solver
    ("method", "MOPX", "get_by_id", "pure", "elem", [], "DictList lookup"),
    ("method", "MOPX", "get_by_any", "pure", "wrap", [], "DictList lookup -> new list"),
    ("method", "MOPX", "query", "pure", "wrap", [], "DictList.query -> new DictList"),
    ("method", "MOPX", "get", "pure", "elem", [], "dict/Container lookup"),
    ("method", "MOPX", "index|has_id|get_coefficient|check_mass_balance|build_reaction_string|_get_primal|to_json", "pure", "value", [],
     "readers returning plain data"),
    ("method", "MOPX", "list_attr|items|keys|values|get_coefficients|get_linear_coefficients|as_coefficients_dict|atoms|clone",
     "pure", "wrap", [], "readers returning new containers of parts"),
    ("method", "MOPX", "upper|lower|strip|startswith|endswith|format|split|join|replace|difference|union|intersection"
     "|issubset|isdisjoint|count|abs|max|min|sum|tolist", "pure", "wrap", [], "str/set/number methods on read values"),
    ("method", "P", "optimize", "pure", "value", [], "optlang Model.optimize: solves, changes only solution status/primal values"),
    ("method", "P", "update/0", "pure", "value", [], "optlang Model.update() (no arguments): flushes pending additions, no content change"),
    ("call", "*", "get_solution|check_solver_status|assert_optimal|create_stoichiometric_matrix|constraint_matrices|nullspace"
     "|_valid_atoms", "pure", "value", [],
     "core/solution.py get_solution, solver.py check_solver_status/assert_optimal, util/array.py: read primal/dual values, status, coefficients"),
    ("call", "*", "linear_reaction_coefficients|get_context", "pure", "wrap", [],
     "solver.py L71-105 reads the objective expression, returns a dict keyed by the model's reactions; context.py L49-79"),
    ("call", "*", "len|abs|any|all|str|repr|float|int|bool|isinstance|hasattr|type|id|print|range|round|format|warn|sum|full|zeros"
     "|linspace|interface_to_str", "pure", "value", [], "builtins / numpy: read their arguments, return plain data"),
    ("call", "*", "list|set|dict|tuple|frozenset|sorted|reversed|enumerate|zip|iter|next|min|max|product|chain|combinations"
     "|fromkeys|array|DataFrame|Series|concat|attrgetter|itemgetter|partial|map|filter|add|deepcopy", "pure", "wrap", [],
     "builtins / itertools / pandas constructors: read their arguments, may return (containers of) them"),
    ("call", "*", "append|extend|insert|update|add|setdefault|pop|remove|discard|sort|clear|difference|union|intersection"
     "|items|keys|values|get|index|count|join|format|debug|info|warning|error|where|mul|abs|tolist|copy", "pure", "wrap", [],
     "methods of a local container / DataFrame / logger: mutate the local object only, never its elements"),
    ("call", "*", "set_linear_coefficients|set_bounds", "pure", "value", [],
     "receiver is not part of the model (a fresh optlang object or a copy): the write lands in the receiver only"),
    ("setitem", "*", "metabolites", "pure", None, [(R, "Reaction.metabolites@getter", "calls", "copy")],
     "reaction.py L568-580 returns self._metabolites.copy(): the store hits the copy"),
    ("iadd", "F", "*", "pure", None, [(R, "Reaction.add_metabolites", "calls", "copy")],
     "fresh_reaction += model_reaction: reaction.py L1018 add_metabolites copies metabolites of another model (L1236-1239)"
     " because fresh._model is None; gene rule is rebuilt on the fresh reaction only"),
]

ASSUMPTIONS = [
    "A1 (C03, trusted here, proved/tested under C03): inside `with model:` every context-aware mutator registers an undo "
    "such that `undo o do = id` on the observable state, and Model.__exit__ (model.py L1421-1431) runs all undos on "
    "normal and on exceptional exit of the block; Model.__enter__ returns self (L1419), so `with model as m` aliases.",
    "A2: the EFFECTS/HELPERS classification is correct; the `ev` evidence (decorator @resettable, get_context()+context(...)"
    " registration, delegation to such functions) is re-verified on the real source at every run.",
    "A3: a callee that receives no object reachable from the model (receiver, arguments, elements of container arguments)"
    " cannot change the model; module globals holding a model are only the `_model` of the worker protocols, declared.",
    "A4: optlang attribute setters are atomic (raise before changing anything); solver.optimize()/update() change no "
    "problem content; Model.copy()/ProcessPool workers operate on copies; parameter annotations are truthful.",
    "A5: Reaction.copy()'s temporary detachment (reaction.py L953-966) is restored because deepcopy does not raise.",
    "A6: every call is assumed able to raise; `finally` and `with` bodies run on every exit; method names of ANALYSES "
    "classes are resolved by name (class-insensitively).",
]
