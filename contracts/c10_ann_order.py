"""C10 — `_parse_annotations`: the ORDER of the identifiers collected (extends contracts/c10_sbml_logic.py, section 3).

The input is the abstract FLAT list of resource uris  FL[0 .. N):  FL[base(c) + k] = uri k of CV term c, base(0) = 0,
base(c + 1) = base(c) + max(#resources of CV term c, 0), N = base(#CV terms) - the list of (provider, identifier) pairs of the task
statement is  (provider(FL[t]), identifier(FL[t]))  for the t the pattern matches.  A ghost LOG (st.ghost["c10_ord"]) records every
uri `getResourceURI` hands out (pu[tick], tick counts the calls) and, for every identifier stored, the tick of the call it came
from (wtick[provider][identifier]; -1 for the SBO term, which is stored before any resource is read).
Proved on top of `_parse_annotations` (nothing dropped / no duplicates / nothing invented):
  * the log IS the flat list: at exit tick = N and pu[base(c) + k] = uri k of CV term c;
  * wtick[p][x] is the FIRST occurrence of the pair (p, x): the pair occurs at that tick, and every occurrence t of it has
    wtick[p][x] <= t;
  * a list is sorted by first occurrence: j1 < j2  =>  wtick[p][list[j1]] < wtick[p][list[j2]]  (an SBO term already present under
    provider "sbo" comes first).
Hence: every provider maps to ALL its identifiers, each once, in the order in which they first occur in the document.
"""
import z3
from .common import *  # noqa
from . import c10_sbml_logic as S
from pyvc.values import id_lit

MS = S.MS
BASE = z3.Function("cv_flat_base", Ref, I, I)
_ORD = {"pu": z3.ArraySort(I, Id), "wtick": z3.ArraySort(Id, z3.ArraySort(Id, I))}


def ordg(st):
    g = st.ghost.get("c10_ord")
    if g is None:
        g = {"tick": z3.IntVal(0), "pu": z3.Const("ord0_pu", _ORD["pu"]), "wtick": z3.Const("ord0_wtick", _ORD["wtick"])}
    return g


def _ord_fresh(st):
    return {"tick": fresh("ord_tick", I), "pu": fresh("ord_pu", _ORD["pu"]), "wtick": fresh("ord_wtick", _ORD["wtick"])}


def _stamp(st, p, x):
    o = dict(ordg(st))
    t = (o["tick"] - 1) if st.ghost.get("c10_cur_uri") is not None else z3.IntVal(-1)
    o["wtick"] = z3.Store(o["wtick"], p, z3.Store(o["wtick"][p], x, t))
    return st.setghost("c10_ord", o)


def _o_call_method(eng, st, recv, name, pos, kw):
    if isinstance(recv, VRef) and recv.cls == "CVTerm" and name == "getResourceURI" and len(pos) == 1:
        outs = []
        for k, s, v in S._pa2_call_method(eng, st, recv, name, pos, kw):
            if k == "ok":
                o = dict(ordg(s))
                o["pu"], o["tick"] = z3.Store(o["pu"], o["tick"], v.t), o["tick"] + 1
                s = s.setghost("c10_ord", o)
            outs.append((k, s, v))
        return outs
    if isinstance(recv, VFunc) and recv.kind == "annval" and name == "append" and len(pos) == 1:
        return [(k, _stamp(s, recv.b, unwrap(pos[0], "id")) if k == "ok" else s, v)
                for k, s, v in S._pa2_call_method(eng, st, recv, name, pos, kw)]
    return None


def _o_setitem(eng, st, obj, idx, val):
    outs = S._pa_setitem(eng, st, obj, idx, val)
    if outs is None or not isinstance(val, (VStr, VConc)):
        return outs
    return [(k, _stamp(s, unwrap(idx, "id"), unwrap(val, "id")) if k == "ok" else s, v) for k, s, v in outs]


HOOKS = chain_hooks({"call_method": _o_call_method, "setitem": _o_setitem}, S.ANN_HOOKS)


def base_axioms(E):
    sb, c = E["sbase"].t, z3.Int("fc")
    n = S.nRES(S.cvS(sb, c))
    return [BASE(sb, 0) == 0,
            z3.ForAll([c], z3.Implies(c >= 0, BASE(sb, c + 1) == BASE(sb, c) + z3.If(n > 0, n, 0)),
                      patterns=[z3.MultiPattern(BASE(sb, c), n)])]


def _occ(o, p, x, w):
    """the pair (p, x) occurs in the log at tick w (or w = -1: the SBO term stored first)"""
    u = o["pu"][w]
    return z3.And(-1 <= w, w < o["tick"], z3.Implies(w >= 0, z3.And(S.RE_M(u), S.prov_t(u) == p, S.ident_t(u) == x)),
                  z3.Implies(w == -1, p == id_lit("sbo")))


def ord_clauses(g, o):
    t, p, j, j2 = qv("ot"), qv("op", Id), qv("oj"), qv("oj2")
    u = o["pu"][t]
    P, X = S.prov_t(u), S.ident_t(u)
    lst = z3.And(g["dom"][p], z3.Not(g["isstr"][p]))
    e, e2 = g["lelem"][p][j], g["lelem"][p][j2]
    return [
        o["tick"] >= 0,
        # every occurrence in the log is held, and its recorded first occurrence is not later
        FA([t], z3.Implies(z3.And(0 <= t, t < o["tick"], S.RE_M(u)), z3.And(g["dom"][P], S.held(g, P, X), o["wtick"][P][X] <= t)),
           patterns=[u]),
        # the recorded tick of an identifier held is an occurrence of its pair
        FA([p], z3.Implies(z3.And(g["dom"][p], g["isstr"][p]), _occ(o, p, g["sval"][p], o["wtick"][p][g["sval"][p]])),
           patterns=[g["sval"][p]]),
        FA([p, j], z3.Implies(z3.And(lst, 0 <= j, j < g["llen"][p]), _occ(o, p, e, o["wtick"][p][e])), patterns=[e]),
        # a list is sorted by first occurrence
        FA([p, j, j2], z3.Implies(z3.And(lst, 0 <= j, j < j2, j2 < g["llen"][p]), o["wtick"][p][e] < o["wtick"][p][e2]),
           patterns=[z3.MultiPattern(e, e2)]),
    ]


def _log_upto(E, o, upto):
    sb, c, k = E["sbase"].t, qv("lc"), qv("lk")
    u = S.URI(S.cvS(sb, c), k)
    pos_ = BASE(sb, c) + k
    return FA([c, k], z3.Implies(z3.And(0 <= c, c < upto, 0 <= k, k < S.nRES(S.cvS(sb, c))),
                                 z3.And(0 <= pos_, pos_ < o["tick"], o["pu"][pos_] == u)), patterns=[u])


def _inv_outer(E, Lc):
    g, o = S.ann(Lc.st), ordg(Lc.st)
    return z3.And(S._an_inv_outer(E, Lc), o["tick"] == BASE(E["sbase"].t, Lc.i), _log_upto(E, o, Lc.i), *ord_clauses(g, o))


def _inv_inner(E, Lc):
    g, o, o0 = S.ann(Lc.st), ordg(Lc.st), ordg(Lc.entry)
    cv = Lc.var("cvterm").t
    k, t = qv("nk"), qv("nt")
    return z3.And(S._an_inv_inner(E, Lc), o0["tick"] >= 0, o["tick"] == o0["tick"] + Lc.i,
                  FA([k], z3.Implies(z3.And(0 <= k, k < Lc.i), o["pu"][o0["tick"] + k] == S.URI(cv, k)), patterns=[S.URI(cv, k)]),
                  FA([t], z3.Implies(z3.And(0 <= t, t < o0["tick"]), o["pu"][t] == o0["pu"][t]), patterns=[o0["pu"][t]]),
                  *ord_clauses(g, o))


def _post(E):
    if not S._is_ann_dict(E.res):
        return z3.BoolVal(False)
    g, o, sb = S.ann(E.s1), ordg(E.s1), E["sbase"].t
    log = z3.If(S.CVNONE(sb), z3.BoolVal(True), z3.And(o["tick"] == BASE(sb, S.nCV(sb)), _log_upto(E, o, S.nCV(sb))))
    return z3.And(S._an_post(1)(E), log, *ord_clauses(g, o))


def _locs(E, Lc=None):
    return S._AN_MOD(E) + [("ghost", "c10_ord", _ord_fresh)]


REG.add(Contract(MS, "_parse_annotations", "C10", [("sbase", TRef("SBase"))], [Case("any", ensures=_post)],
                 key="_parse_annotations@order", axioms=base_axioms, modifies=lambda E: _locs(E),
                 loops={0: LoopSpec(_inv_outer, _locs), 1: LoopSpec(_inv_inner, _locs)}))
KEYS = ["_parse_annotations@order"]
