"""C17 / C05 / C13 / C14 — loopless.loopless_fva_iter: the per-reaction post-processing of flux_variability_analysis(loopless=True).

Documented: "Plugin to get a loopless FVA solution from single FVA iteration.  Assumes ... 1. The model objective is set to be
`reaction`.  2. The model has been optimized and contains the minimum/maximum flux for `reaction` ...  Returns the minimized/maximized
flux through `reaction` if `solution` is False.  Otherwise, returns a loopless flux solution object".

What is NOT claimed (open known finding `loopless-fva-too-narrow`, stays bounded): that the value returned IS the true extreme over
the cycle-free distributions.  What IS proved, for a model with any number of reactions, for solution = False and solution = True
(zero_cutoff None, i.e. as _fva_step calls it; the cutoff is the opaque number normalize_cutoff returns):

(1) BOOKKEEPING (ghost trace of every solver-facing call with the state in force).
  * `current` = the solver's objective value AT ENTRY (the optimum the caller just computed), `sol` = get_solution(model) taken on the
    untouched model, the direction is read once at entry.
  * `current` None ("a suddenly infeasible solution"): None is returned, nothing else was called on the model.
  * boundary reaction: `current` (solution False) / `sol` (True) is returned and NOTHING was called on the model besides that one
    get_solution - no context, no solve, no setter.
  * otherwise, inside the function's FIRST own context: _add_cycle_free(model, sol.fluxes) - the START fluxes, on the entry bounds -
    by its PROVED contract (c17_cyclefree; its precondition is obliged here), then ONE solve whose state has exactly the CycleFreeFlux
    bounds; `reaction.flux` is read after THAT solve; if |flux - current| < cutoff: `current` / `sol` is returned (the context is left).
  * otherwise: ll_sol = the fluxes of get_solution after solve 1 (nothing changed in between), the TARGET's bounds are set to
    (current, current) through the context-aware setter (C01 contract), a SECOND solve in a state whose bounds are the CycleFreeFlux
    bounds except (current, current) on the target, almost_ll_sol = the fluxes of get_solution after solve 2; the first context is left.
  * then, inside a SECOND own context, entered on the ENTRY bounds / objective / direction (the first context's rollback: trusted, see
    below): for EVERY reaction r of the model - THE TARGET INCLUDED, this is the step the known finding is about - with
    |ll_sol[r.id]| < cutoff and |almost_ll_sol[r.id]| > cutoff the bounds become (max(0, lb), min(0, ub)); every other reaction keeps
    its entry bounds (loop invariant over model.reactions).  So the code closes a reaction to 0 when 0 lies within its bounds; for a
    reaction with lb > 0 or ub < 0 the pair is not valid and the bounds setter raises ValueError (a proved exit, see FINDING below).
  * ONE last solve - model.slim_optimize() (solution False) / model.optimize() (True) - in THAT state: objective coefficients and
    direction as at entry (the original problem, the ORIGINAL direction), bounds as just described.  Returned: `reaction.flux` read
    after that solve / the Solution of that optimize().
(2) FRAME (C13 / C14), on EVERY exit - the three returns, and an exception raised by reaction.flux / get_solution / a bounds setter /
    optimize() inside either context: the context stack, ALL reaction bounds and variable bounds, ALL objective coefficients and the
    objective direction are as at entry.  The only write that does not go through a context-aware setter is the final
    `model.objective.direction = objective_dir`; it writes the value read at entry into an objective whose direction the contexts have
    already rolled back, on the normal path only: it is REDUNDANT, and no path has a direct write without compensation (no finding).
(3) LOOPLESS INSIDE PLAIN, as lemmas over the contract: the last solve is a solve of the ENTRY problem (same coefficients, same
    direction) whose bounds are entry bounds or (max(0,lb), min(0,ub)) with lb <= 0 <= ub, i.e. every flux vector admissible for the
    last solve is admissible for the plain problem (`closed-bounds-within-old`); hence, under the assumed solver contract (an optimum
    bounds the objective over the feasible set; the answer of a solve is feasible), max: returned <= current, min: returned >= current
    (`restricted-optimum-not-better/*`, stated over an abstract steady-state predicate and objective functional).  On the two early
    returns the value IS current.
(4) the call site: `_fva_step@loopless` (the same real body, global _loopless = True): +1 forward / -1 reverse of the requested
    reaction are written, the LP is solved, the status is checked, loopless_fva_iter(_model, rxn) is called ONCE with exactly these
    arguments in that state, by the contract above; its result is the value returned under the requested id, and every objective
    coefficient is as at entry afterwards (both written back to 0 after the call).

TRUSTED (C03 / C13 assumption A1, the same step as `apply_restoring` in c09_drivers): leaving `with model:` rolls back what the
context-aware setters changed in it - here the heap bounds, the ghost objective coefficients and the objective direction are reset to
their values at the matching __enter__ (hook on Model.__exit__, applied after the PROVED C03 contract of __exit__).  Without that step
the second context could not be analysed at all.  `reaction.flux` / get_solution: raise OptimizationError exactly for a status that is
neither optimal nor one of the six has-primals statuses (C04), otherwise a finite number / a Solution keyed by all reaction ids.
Stated precondition: the solver status is `optimal` with a finite value at entry (docstring assumption 2), bounds valid, reactions
attached, the target is a reaction of the model.

Mutation trials: see the end of the module.
"""
import copy
import z3
import cobra  # noqa
from .common import *  # noqa
from . import c15_dictlist  # noqa
from . import c01_lp as C1
from . import c03_context as C3
from . import c04_status as C4
from . import c05_fva as C5
from . import c17_cyclefree as CF
from . import c17_loopless as CL
from pyvc import npalg as N
from pyvc.state import alloc_list
from pyvc.values import VReal, xr_eq, xr_le, xr_lt

ML = CF.ML
KEY = "loopless_fva_iter"
STEP_KEY = "_fva_step@loopless"
CUTOFF = z3.Real("fva_iter_cutoff")
FLUX = z3.Function("lp_flux_after_solve", z3.IntSort(), Ref, z3.RealSort())     # reaction.flux read after the k-th solve of this call
BFIELDS = ("_lower_bound", "_upper_bound", "var_lb", "var_ub")


def _model_t(no_value=False):
    t = CL._model_t()
    if no_value:       # objective.value None: "a suddenly infeasible solution"
        obj = TObj("Objective", {"value": TNone(), "direction": TStr(), "expression": N.TNp()})
        t = TObj("Model", {"_contexts": TList("ref:HistoryManager"), "_solver": TObj("Solver", {"status": TStr(), "objective": obj}),
                           "reactions": TDictList("Reaction"), "problem": N.TNp()})
    return t


def _dl(st, m):
    return st.objs[m.oid]["attr:reactions"]


def _verifying(eng):
    return getattr(getattr(eng, "cur_contract", None), "key", None) in (KEY, STEP_KEY)


def _tr(st):
    return st.ghost.get("trace", ())


def _log(st, *event):
    return st.setghost("trace", _tr(st) + (tuple(event),))


def _nsolves(st):
    return sum(1 for ev in _tr(st) if ev[0] in ("solve", "optimize"))


# ---------------------------------------------------------------- hooks
def global_hook(eng, name):
    if _verifying(eng) and name in ("_add_cycle_free", "get_solution", "normalize_cutoff", "loopless_fva_iter"):
        return VFunc("abstract", name)
    return None


def _raising(st, m):
    s = C4.status_of(st, m)
    return z3.And(z3.Not(C4._is_status(s, "optimal")), z3.Not(C4._in_has_primals(s)))


def call_abstract(eng, st, f, pos, kw):
    if not _verifying(eng):
        return None
    if f.a == "normalize_cutoff":
        # zero_cutoff None: model.tolerance - an opaque finite number (its value is not claimed)
        if not (len(pos) == 2 and isinstance(pos[1], VNone) and not kw):
            return None
        return [("ok", st, VReal(z3.IntVal(0), CUTOFF))]
    if f.a == "_add_cycle_free":
        outs = eng.apply_contract(st, REG.get("_add_cycle_free"), list(pos), kw)
        return [(k, _log(s, "cycle_free", tuple(pos), CL._kws(kw), st, s) if k == "ok" else s, v) for k, s, v in outs]
    if f.a == "get_solution":
        if not (len(pos) == 1 and not kw and isinstance(pos[0], VObj)):
            return None
        res = []
        for bad, s in eng.branch(st, _raising(st, pos[0])):
            if bad:
                res.append(eng.raise_(s, "OptimizationError"))
            else:
                s2, sol = CL._solution(eng, s, pos[0])
                res.append(("ok", _log(s2, "get_solution", tuple(pos), st, sol), sol))
        return res
    if f.a == "loopless_fva_iter":
        outs = eng.apply_contract(st, REG.get(KEY), list(pos), kw)
        # the callee's own trace is not visible to the caller: the call is appended to the CALLER's trace
        return [(k, s.setghost("trace", _tr(st) + (("loopless_fva_iter", tuple(pos), CL._kws(kw), st, s, v),)) if k == "ok"
                 else s.setghost("trace", _tr(st)), v) for k, s, v in outs]
    return None


def _restore(st, snap, m):
    """TRUSTED rollback (C03 / C13 A1): what the context-aware setters changed since the matching __enter__ is as it was then"""
    for f in BFIELDS:
        if f in snap.heap:
            st = st.setheap(f, snap.heap[f])
        elif f in st.heap:
            h = dict(st.heap)
            del h[f]
            st = type(st)(st.pc, st.frames, h, st.objs, st.ghost)
    if "objc" in snap.ghost:
        st = st.setghost("objc", snap.ghost["objc"])
    elif "objc" in st.ghost:
        g = dict(st.ghost)
        del g["objc"]
        st = type(st)(st.pc, st.frames, st.heap, st.objs, g)
    obj = C4.objective_of(st, m)
    return st.updobj(obj.oid, **{"attr:direction": snap.objs[C4.objective_of(snap, m).oid]["attr:direction"]})


def call_method_hook(eng, st, recv, name, pos, kw):
    if not _verifying(eng):
        return None
    if isinstance(recv, VObj) and recv.cls == "Model" and name == "__enter__":
        outs = eng.apply_contract(st, REG.get("Model.__enter__"), [recv] + list(pos), kw)
        return [(k, _log(s.setghost("fi_snaps", st.ghost.get("fi_snaps", ()) + (st,)), "enter", st) if k == "ok" else s, v) for k, s, v in outs]
    if isinstance(recv, VObj) and recv.cls == "Model" and name == "__exit__":
        snaps = st.ghost.get("fi_snaps", ())
        if not snaps:
            return None
        res = []
        for k, s, v in eng.apply_contract(st, REG.get("Model.__exit__"), [recv] + list(pos), kw):
            if k == "ok":
                s = _restore(s, snaps[-1], recv).setghost("fi_snaps", snaps[:-1])
                s = _log(s, "exit", st, s)
            res.append((k, s, v))
        return res
    if isinstance(recv, VObj) and recv.cls == "Model" and name == "slim_optimize":
        outs = eng.apply_contract(st, REG.get("Model.slim_optimize"), [recv] + list(pos), kw)
        res = []
        for k, s, v in outs:
            if k == "ok":
                if getattr(eng.cur_contract, "key", None) == STEP_KEY:
                    # TRUSTED (optlang / GLPK): objective.value is a finite float - c.x of the stored primal values - for any status
                    s = s.assume(C4.value_of(s, recv).k == 0)
                s = _log(s.setghost("solved_with", C5.objc(s)), "solve", tuple(pos), CL._kws(kw), st, s)
            res.append((k, s, v))
        return res
    if isinstance(recv, VObj) and recv.cls == "Model" and name == "optimize":
        a = dict(kw)
        if len(pos) < 2:
            a.setdefault("raise_error", VBool(False))
        if not pos:
            a.setdefault("objective_sense", NONE)
        res = []
        for k, s, v in eng.apply_contract(st, CL.OPT, [recv] + list(pos), a):
            if k == "ok":
                s, v = CL._solution(eng, s, recv)
                s = _log(s.setghost("solved_with", C5.objc(s)), "optimize", tuple(pos), CL._kws(kw), st, s, v)
            res.append((k, s, v))
        return res
    return None


def getattr_hook(eng, st, v, name):
    if not _verifying(eng):
        return None
    if isinstance(v, VRef) and v.cls == "Reaction" and name == "flux":
        m = eng.entry_args.get("model") or eng.entry_args.get("_model")
        res = []
        for bad, s in eng.branch(st, _raising(st, m)):
            if bad:
                res.append(eng.raise_(s, "OptimizationError"))
            else:
                val = VReal(z3.IntVal(0), FLUX(z3.IntVal(_nsolves(s)), v.t))
                res.append(("ok", _log(s, "flux", v, s, val), val))
        return res
    return None


HOOKS = chain_hooks({"global": global_hook, "call_abstract": call_abstract, "call_method": call_method_hook, "getattr": getattr_hook},
                    N.HOOKS)
REG.external_classes = getattr(REG, "external_classes", set()) | {"Solver", "Objective"}


# ---------------------------------------------------------------- specification
def _same(a, b):
    if isinstance(a, tuple):
        return z3.And(*[x == y for x, y in zip(a, b)])
    return a == b


def _dir(st, m):
    """the objective direction as an identifier term (a literal written by hand is a VConc)"""
    from pyvc.values import id_lit
    d = C4.direction_of(st, m)
    return id_lit(d.py) if isinstance(d, VConc) else d.t


def _frame(E, st):
    """stack, all bounds, all objective coefficients and the direction as at entry"""
    m = E["model"]
    cs = [CL._stack_as_at_entry(E, st)]
    for f in BFIELDS:
        cs.append(_same(E.eng.heap_arr(st, f), E.eng.heap_arr(E.s0, f)))
    cs.append(C5.objc(st) == C5.objc(E.s0))
    cs.append(_dir(st, m) == _dir(E.s0, m))
    return z3.And(*cs)


def _problem_as_at_entry(E, st):
    m = E["model"]
    return z3.And(C5.objc(st) == C5.objc(E.s0), _dir(st, m) == _dir(E.s0, m))


def _absr(x):
    return z3.If(x >= 0, x, -x)


def closes(E, ll, al, r):
    """the loop's test for reaction r: ~zero in the cycle-free solution, not ~zero in the almost cycle-free one"""
    idA = idarr(E, E.s0)
    # ... and whose ENTRY bounds admit the flux 0 (since the repair recorded in known_findings.jsonl: a reaction with lb > 0 or ub < 0
    # cannot be closed - the pair (max(0, lb), min(0, ub)) is not valid - and used to make the bounds setter raise ValueError)
    lb0, ub0 = C1.lbub(E, E.s0, r)
    return z3.And(_absr(z3.Select(ll["val"], idA[r])) < CUTOFF, _absr(z3.Select(al["val"], idA[r])) > CUTOFF,
                  xr_le(lb0, CF.ZERO), xr_le(CF.ZERO, ub0))


def _closed_effect(E, st, ll, al, upto):
    """reactions at positions < upto that pass the test have bounds (max(0, lb), min(0, ub)) of their ENTRY bounds; all others their
    entry bounds"""
    m = E["model"]
    dl = _dl(E.s0, m)
    n, e = L(E.s0, dl)
    dom, val = Dv(E.s0, dl)
    idA = idarr(E, E.s0)
    x = qv("zx", Ref)
    lb0, ub0 = C1.lbub(E, E.s0, x)
    lb1, ub1 = C1.lbub(E, st, x)
    inlist = z3.And(z3.Select(dom, idA[x]), e[val[idA[x]]] == x)
    done = z3.And(inlist, val[idA[x]] < upto, closes(E, ll, al, x))
    lo, hi = CF.xmax(CF.ZERO, lb0), CF.xmin(CF.ZERO, ub0)
    return FA([x], z3.If(done, z3.And(xr_eq(lb1, lo), xr_eq(ub1, hi)), z3.And(xr_eq(lb1, lb0), xr_eq(ub1, ub0))),
              patterns=[E.eng.heap_arr(st, "_lower_bound")[0][x]])


def _unchanged(E, a, b):
    """nothing the solver or a setter writes differs between the two states (python-level identity of the terms)"""
    m = E["model"]
    return (all(CL._same_arrays(E.eng.heap_arr(a, f), E.eng.heap_arr(b, f)) for f in BFIELDS)
            and C4.status_of(a, m) is C4.status_of(b, m) and C4.value_of(a, m) is C4.value_of(b, m)
            and C5.objc(a).eq(C5.objc(b)) and C4.direction_of(a, m) is C4.direction_of(b, m))


def _is_model(E, v):
    return isinstance(v, VObj) and v.oid == E["model"].oid


def _fluxes_of(st, sol):
    return st.objs[st.objs[sol.oid]["attr:fluxes"].oid]


def _names(tr):
    return [ev[0] for ev in tr]


def _flag(v):
    """python truth of a concrete boolean argument (None when it is not concrete)"""
    if isinstance(v, VConc) and isinstance(v.py, bool):
        return v.py
    if isinstance(v, VBool):
        t = z3.simplify(v.t) if not isinstance(v.t, bool) else v.t
        if isinstance(t, bool):
            return t
        return True if z3.is_true(t) else False if z3.is_false(t) else None
    return None


def _want_solution(E):
    return _flag(E["solution"]) is True


def _result_is(E, sol, val):
    """solution True: the Solution `sol`; False: the number `val`"""
    if _want_solution(E):
        return z3.BoolVal(isinstance(E.res, VObj) and sol is not None and E.res.oid == sol.oid)
    if not isinstance(E.res, VReal):
        return z3.BoolVal(False)
    return xr_eq(E.res, val)


def _no(why):
    import os, sys
    if os.environ.get("FI_DEBUG"):
        print("FI_DEBUG shape mismatch:", why, file=sys.stderr)
    return z3.BoolVal(False)


def _post(E):
    m = E["model"]
    tr = _tr(E.s1)
    names = _names(tr)
    current = C4.value_of(E.s0, m)
    r = E["reaction"].t
    n, _ = L(E.s0, _dl(E.s0, m))
    cs = [_frame(E, E.s1)]
    if getattr(E, "role", "goal") != "goal":
        # at a call site the trace is not visible: callers get the FRAME (a conjunct of every proved exit) and a finite-or-not number
        return cs[0]
    if not names or names[0] != "get_solution":
        return _no("site 1: " + str(names))
    _, gpos, st_g0, sol0 = tr[0]
    # `sol` is taken on the untouched model
    if not (_is_model(E, gpos[0]) and len(_tr(st_g0)) == 0 and _unchanged(E, st_g0, E.s0)):
        return _no("site 2: " + str(names))
    if isinstance(current, VNone):
        # no objective value: None is returned and nothing else was called on the model
        if names != ["get_solution"] or not isinstance(E.res, VNone):
            return _no("no value: " + str(names))
        return z3.And(*cs)
    bnd = E.eng.heap_arr(E.s0, "is_boundary")[r]
    if names == ["get_solution"]:
        # boundary reaction: nothing else happened on the model
        return z3.And(bnd, _result_is(E, sol0, current), *cs)
    head = ["get_solution", "enter", "cycle_free", "solve", "flux"]
    if names[:5] != head:
        return _no("site 3: " + str(names))
    cs.append(z3.Not(bnd))
    # CONFINE: _add_cycle_free(model, sol.fluxes) on the entry bounds, in the first own context
    _, cpos, ckws, st_cf, st_cf_after = tr[2]
    fl0 = E.s1.objs[sol0.oid]["attr:fluxes"]
    if not (len(cpos) == 2 and not ckws and _is_model(E, cpos[0]) and isinstance(cpos[1], VObj) and cpos[1].oid == fl0.oid
            and CL._heap_as_at_entry(E, st_cf, BFIELDS + ("is_boundary", "_id"))
            and st_cf.objs[_dl(E.s0, m).oid] is E.s0.objs[_dl(E.s0, m).oid]):
        return _no("site 4: " + str(names))
    cs.append(CL._in_own_context(E, st_cf))
    # SOLVE 1 sees exactly the CycleFreeFlux bounds; reaction.flux is read after it, of the TARGET
    _, spos, skws, st_s1, st_s1_after = tr[3]
    Ecf = Env({"model": m, "fluxes": fl0}, st_cf, eng=E.eng)
    if spos or skws:
        return _no("site 5: " + str(names))
    cs += [CF._effect(Ecf, st_s1, n), CL._in_own_context(E, st_s1)]
    _, fr, st_f1, fval1 = tr[4]
    if not (isinstance(fr, VRef) and _nsolves(st_f1) == 1):
        return _no("site 6: " + str(names))
    cs.append(fr.t == r)
    near = _absr(fval1.v - current.v) < CUTOFF
    if names == head + ["exit"]:
        # the optimum survives cycle removal: it is returned as it is
        return z3.And(near, _result_is(E, sol0, current), *cs)
    full = head + ["get_solution", "solve", "get_solution", "exit", "enter"] + ["solve" if not _want_solution(E) else "optimize"] + \
        (["flux"] if not _want_solution(E) else []) + ["exit"]
    if names != full:
        return _no("site 7: " + str(names))
    cs.append(z3.Not(near))
    # ll_sol: get_solution after solve 1, nothing changed in between
    _, _, st_g1, sol1 = tr[5]
    if not _unchanged(E, st_g1, st_s1_after):
        return _no("site 8: " + str(names))
    # SOLVE 2: CycleFreeFlux bounds, except (current, current) on the target
    _, s2pos, s2kws, st_s2, st_s2_after = tr[6]
    if s2pos or s2kws:
        return _no("site 9: " + str(names))
    x = qv("s2x", Ref)
    lo, hi = CF.new_bounds(Ecf, x)
    lb2, ub2 = C1.lbub(E, st_s2, x)
    dl = _dl(E.s0, m)
    _, e = L(E.s0, dl)
    dom, val = Dv(E.s0, dl)
    idA = idarr(E, E.s0)
    inlist = z3.And(z3.Select(dom, idA[x]), e[val[idA[x]]] == x)
    cs.append(FA([x], z3.Implies(z3.And(inlist, x != r), z3.And(xr_eq(lb2, lo), xr_eq(ub2, hi))),
                 patterns=[E.eng.heap_arr(st_s2, "_lower_bound")[0][x]]))
    lbr, ubr = C1.lbub(E, st_s2, r)
    cs += [xr_eq(lbr, current), xr_eq(ubr, current), CL._in_own_context(E, st_s2)]
    _, _, st_g2, sol2 = tr[7]
    if not _unchanged(E, st_g2, st_s2_after):
        return _no("site 10: " + str(names))
    # the SECOND context is entered on the entry problem
    st_enter2 = tr[9][1]
    cs.append(z3.And(_frame(E, st_enter2)))
    # LAST SOLVE: entry objective and direction, entry bounds except the closed reactions - in the second own context
    ev = tr[10]
    st_s3, st_s3_after = ev[3], ev[4]
    if ev[1] or ev[2]:
        return _no("site 11: " + str(names))
    ll, al = _fluxes_of(E.s1, sol1), _fluxes_of(E.s1, sol2)
    cs += [_closed_effect(E, st_s3, ll, al, n), _problem_as_at_entry(E, st_s3), CL._in_own_context(E, st_s3)]
    if _want_solution(E):
        cs.append(_result_is(E, ev[5], None))
    else:
        _, fr3, st_f3, fval3 = tr[11]
        if not (isinstance(fr3, VRef) and _nsolves(st_f3) == 3 and _unchanged(E, st_f3, st_s3_after)):
            return _no("site 12: " + str(names))
        cs += [fr3.t == r, _result_is(E, None, fval3)]
    return z3.And(*cs)


def _on_raise(E):
    return _frame(E, E.s1)


def _pre(E):
    m = E["model"]
    dl = _dl(E.s0, m)
    n, e = L(E.s0, dl)
    dom, val = Dv(E.s0, dl)
    idA = idarr(E, E.s0)
    j = qv("pj")
    r = e[j]
    lb, ub = C1.lbub(E, E.s0, r)
    per = [xr_le(lb, ub), lb.k != 1, ub.k != -1, C1.vars_distinct(r), C1.model_of(E, E.s0, r) != NULL]
    t = E["reaction"].t
    return z3.And(WF(E, E.s0, dl), FA([j], z3.Implies(z3.And(0 <= j, j < n), z3.And(*per)), patterns=[e[j]]),
                  z3.Select(dom, idA[t]), e[val[idA[t]]] == t,                                  # the target is a reaction of the model
                  *([] if isinstance(C4.value_of(E.s0, m), VNone) else
                    [C4.value_of(E.s0, m).k == 0, C4.value_of(E.s0, m).v != z3.Real("NaN_const")]))   # `current` is None or a finite number


def _mod(E):
    m = E["model"]
    obj = C4.objective_of(E.s0, m)
    return [("heap", "hm_len"), ("attr", m, "_contexts", lambda st: alloc_list(st, "ref:HistoryManager")),
            ("ghost", "world", lambda st: fresh("world", C3.World)), ("ghost", "trace", lambda st: ()),
            ("ghost", "fi_snaps", lambda st: ()), ("ghost", "solved_with", lambda st: fresh("solved", C5.CoefMap)),
            ("attr", obj, "direction", lambda st: (st, VStr(fresh("dir", Id))))] + CF.BMOD(E) + \
        C4._slim_mod(Env({"self": m}, E.s0, eng=E.eng))


def _inv(E, Lc):
    ll, al = Lc.var("ll_sol"), Lc.var("almost_ll_sol")
    st = Lc.st
    return z3.And(_closed_effect(E, st, st.objs[ll.oid], st.objs[al.oid], Lc.i), _problem_as_at_entry(E, st),
                  CL._in_own_context(E, st))


def _loop_mod(E, Lc):
    return [l for l in CF.BMOD(E) if l[0] != "ghost"]


def _res(eng, st, E):
    if _flag(E["solution"]) is True:
        return CL._solution(eng, st, E["model"])
    from pyvc.values import xr_fresh
    v, c = xr_fresh("fva_iter_value")
    return st.assume(c), v


def _cases():
    out = []
    for tag, flag in (("value", False), ("solution", True)):
        c = Case(tag, ensures=_post)
        c.params_override = {"solution": TConc(flag)}
        c.applies = (lambda fl: lambda a, st: _flag(a.get("solution")) is fl and not isinstance(C4.value_of(st, a["model"]), VNone))(flag)
        c.may_raise = "OptimizationError"       # a status without primal values; (before the repair also ValueError: closing a reaction whose bounds exclude 0)
        c.ensures_on_raise = _on_raise
        c.modifies_on_raise = _mod
        out.append(c)
    c = Case("no_objective_value", ensures=_post)
    c.params_override = {"model": _model_t(no_value=True), "solution": TBool()}
    c.applies = lambda a, st: isinstance(C4.value_of(st, a["model"]), VNone)
    c.result = lambda eng, st, E: (st, NONE)
    c.may_raise = "OptimizationError"       # get_solution on a status without primal values; nothing has been touched
    c.ensures_on_raise = _on_raise
    c.modifies_on_raise = _mod
    out.append(c)
    return out


_sol_t = TConc(False)
_sol_t.default = VBool(False)
_zc = TNone()
_zc.default = NONE
REG.add(Contract(ML, "loopless_fva_iter", "C17", [("model", _model_t()), ("reaction", TRef("Reaction")), ("solution", _sol_t),
                                                  ("zero_cutoff", _zc)], _cases(), pre=_pre, modifies=_mod, key=KEY, result=_res,
                 loops={0: LoopSpec(_inv, _loop_mod)}, props=["C17", "C05", "C13", "C14"],
                 note="zero_cutoff None; solver status optimal with a finite value at entry (docstring assumption 2); bounds valid, "
                      "reactions attached, target in the model; the rollback at `with model` exit is the trusted C03 / C13 step"))


# ================================================================ (4) the call site: _fva_step with the global _loopless = True
MV = C5.MV


def _as_iter_env(E, st0=None):
    return Env({"model": E["_model"]}, st0 or E.s0, eng=E.eng)


def _step_pre(E):
    m = E["_model"]
    dl = _dl(E.s0, m)
    n, e = L(E.s0, dl)
    j = qv("qj")
    r = e[j]
    lb, ub = C1.lbub(E, E.s0, r)
    per = [xr_le(lb, ub), lb.k != 1, ub.k != -1, C1.vars_distinct(r), C1.model_of(E, E.s0, r) != NULL]
    return z3.And(C5._pre(E), FA([j], z3.Implies(z3.And(0 <= j, j < n), z3.And(*per)), patterns=[e[j]]))


def _step_frame(E, st):
    """stack, bounds and direction as at entry (the callee's frame); the coefficients are stated separately"""
    Ei = _as_iter_env(E)
    cs = [CL._stack_as_at_entry(Ei, st)]
    for f in BFIELDS:
        cs.append(_same(E.eng.heap_arr(st, f), E.eng.heap_arr(E.s0, f)))
    cs.append(_dir(st, E["_model"]) == _dir(E.s0, E["_model"]))
    return z3.And(*cs)


def _step_post(E):
    m = E["_model"]
    r = C5._rxn(E)
    o0 = C5.objc(E.s0)
    want = z3.Store(z3.Store(o0, C1.fwd(r), z3.RealVal(1)), C1.rev(r), z3.RealVal(-1))
    res = E.res
    tr = _tr(E.s1)
    if not (isinstance(res, VTuple) and len(res.items) == 2 and isinstance(res.items[1], VReal)):
        return _no("step: result shape")
    if _names(tr) != ["solve", "loopless_fva_iter"]:
        return _no("step: " + str(_names(tr)))
    _, spos, skws, st_solve, st_solved = tr[0]
    _, ipos, ikws, st_call, st_after, val = tr[1]
    # ONE call loopless_fva_iter(_model, rxn): exactly these arguments, made in the state the +1 / -1 solve left (status checked)
    if not (not spos and not skws and len(ipos) == 2 and not ikws and isinstance(ipos[0], VObj) and ipos[0].oid == m.oid
            and isinstance(ipos[1], VRef) and isinstance(val, VReal)
            and C4.status_of(st_call, m) is C4.status_of(st_solved, m) and C4.value_of(st_call, m) is C4.value_of(st_solved, m)
            and C5.objc(st_call).eq(C5.objc(st_solve)) and CL._heap_as_at_entry(_as_iter_env(E), st_call, BFIELDS)):
        return _no("step: call shape")
    x, y = qv("ox", Ref), qv("oy", Ref)
    return z3.And(unwrap(res.items[0], "id") == E["reaction_id"].t,
                  ipos[1].t == r,
                  FA([x], C5.objc(st_solve)[x] == want[x]),                  # solved: +forward -reverse (+ the entry objective)
                  xr_eq(res.items[1], val),                                  # the value returned is the callee's result
                  FA([y], C5.objc(E.s1)[y] == o0[y]),                        # every coefficient as at entry
                  _step_frame(E, E.s1))


def _step_mod(E):
    return C5._mod(E) + [l for l in _mod(_as_iter_env(E)) if not (l[0] == "ghost" and l[1] in ("objc", "solved_with"))]


_s1 = Case("known_reaction", requires=C5._known, ensures=_step_post)
_s1.result = C5._step_result
_s1.may_raise = "Exception"     # the status check (OptimizationError) or the post-processing (its own exits): bounds / direction / stack as at entry
_s1.ensures_on_raise = lambda E: _step_frame(E, E.s1)
_s1.modifies_on_raise = _step_mod
_s2 = Case("unknown_id", requires=lambda E: z3.Not(C5._known(E)), raises="KeyError")
REG.add(Contract(MV, "_fva_step", "C05", [("reaction_id", TStr()), ("_model", _model_t()), ("_loopless", TConc(True))],
                 [_s1, _s2], pre=_step_pre, modifies=_step_mod, key=STEP_KEY, props=["C05", "C14", "C13"],
                 note="global _loopless = True; bounds valid, reactions attached (precondition of loopless_fva_iter); both coefficients "
                      "of the requested reaction 0 at entry; on an exceptional exit the two coefficients stay written (+1 / -1): the "
                      "caller's context and objective reset wipe them (C13 helper contract `ctx`, `objective`)"))
STEP_HOOKS = chain_hooks(HOOKS, C5.HOOKS)


# ================================================================ (3) lemmas: loopless inside plain
def lemmas():
    from pyvc.engine import Obl
    Vec = z3.ArraySort(Ref, z3.RealSort())
    IntA = z3.ArraySort(Ref, z3.IntSort())
    steady = z3.Function("fi_steady_state", Vec, z3.BoolSort())
    objf = z3.Function("fi_objective", Vec, z3.RealSort())
    w = z3.Real("fi_w")
    lb, ub = VReal(z3.Int("fi_lbk"), z3.Real("fi_lbv")), VReal(z3.Int("fi_ubk"), z3.Real("fi_ubv"))
    dom = [lb.k >= -1, lb.k <= 1, ub.k >= -1, ub.k <= 1, xr_le(lb, ub), lb.k != 1, ub.k != -1]
    lo, hi = CF.xmax(CF.ZERO, lb), CF.xmin(CF.ZERO, ub)
    zero_inside = z3.And(xr_le(lb, CF.ZERO), xr_le(CF.ZERO, ub))
    out = [
        Obl("C05/lemma/loopless-fva/closed-bounds-within-old", dom + [C1.in_rng(w, lo, hi)], z3.And(C1.in_rng(w, lb, ub), w == 0), "lemma"),
        Obl("C05/lemma/loopless-fva/closing-valid-iff-zero-admissible", dom, xr_le(lo, hi) == zero_inside, "lemma"),
    ]
    # bounds of the plain problem (0) and of the last solve (1): every reaction keeps its bounds or is closed (shape of _closed_effect)
    l0k, u0k, l1k, u1k = [z3.Const("fi_" + nm, IntA) for nm in ("l0k", "u0k", "l1k", "u1k")]
    l0v, u0v, l1v, u1v = [z3.Const("fi_" + nm, Vec) for nm in ("l0v", "u0v", "l1v", "u1v")]
    closed = z3.Const("fi_closed", z3.ArraySort(Ref, z3.BoolSort()))
    x, v = z3.Const("fi_x", Ref), z3.Const("fi_v", Vec)
    b0 = lambda t: (VReal(l0k[t], l0v[t]), VReal(u0k[t], u0v[t]))  # noqa
    b1 = lambda t: (VReal(l1k[t], l1v[t]), VReal(u1k[t], u1v[t]))  # noqa
    shape = z3.ForAll([x], z3.And(l0k[x] >= -1, l0k[x] <= 1, u0k[x] >= -1, u0k[x] <= 1,
                                  z3.If(closed[x],
                                        z3.And(xr_eq(b1(x)[0], CF.xmax(CF.ZERO, b0(x)[0])), xr_eq(b1(x)[1], CF.xmin(CF.ZERO, b0(x)[1]))),
                                        z3.And(xr_eq(b1(x)[0], b0(x)[0]), xr_eq(b1(x)[1], b0(x)[1])))), patterns=[l1k[x]])
    feas = lambda vec, b: z3.And(steady(vec), z3.ForAll([x], C1.in_rng(vec[x], *b(x)), patterns=[vec[x]]))  # noqa
    current, v1 = z3.Real("fi_current"), z3.Const("fi_v1", Vec)
    for sense, better in (("max", lambda a, c: a <= c), ("min", lambda a, c: a >= c)):
        # assumed solver contract: `current` bounds the objective over the plain feasible set; the last solve's answer v1 is feasible for ITS bounds
        plain_opt = z3.ForAll([v], z3.Implies(feas(v, b0), better(objf(v), current)), patterns=[objf(v)])
        out.append(Obl(f"C05/lemma/loopless-fva/restricted-optimum-not-better/{sense}", [shape, plain_opt, feas(v1, b1)],
                       better(objf(v1), current), "lemma"))
    return out


"""Mutation trials (tools/mutate_and_run.sh cobra/flux_analysis/loopless.py ... contracts.c17_fva_iter --hooks HOOKS loopless_fva_iter;
every one NOT verified, both cases unless said otherwise):
  M1  second `with model:` -> `if True:` (closing outside any context) ............ loop#0/inv-init.4 (own context) unknown
  M2  _add_cycle_free(model, get_solution(model).fluxes) (another Solution) ........ exit=return#2/post, #3/post (trace shape) unknown
  M3  closing pair min(0, lb), min(0, ub) ............................................ loop#0/inv-preserve.1 unknown
  M4  test inverted: abs(ll_sol[rid]) > zero_cutoff .................................. loop#0/inv-preserve.1, .1~3 unknown
  M5  target fixed at (min(0,current), max(0,current)) instead of (current,current) . exit=return#3/post.23, .25 unknown
  M6  last slim_optimize() skipped (value case) ...................................... exit=return#3/post (trace shape) unknown
  M7  final write model.objective.direction = "max" .................................. exit=return#3/post.12 (direction as at entry) unknown
  M8  abs(reaction.flux + current) < zero_cutoff ..................................... exit=return#2/post.1, return#3/post.20 unknown
  M9  ll_sol read after the SECOND solve ............................................. exit=return#3/post (trace shape) unknown
  M10 a raw `model.objective.direction = "min"` before the contexts (compensated by the final write on the normal path only)
      ....... value: exit=raise:OptimizationError#2/post.12, #3/post.12 (direction on the exceptional exits), loop#0/inv-init.3,
              exit=return#2/post.15 unknown; solution: undecided (C04's Model.optimize contract cannot read a literal direction)
  M11 `if current is None: return 0.0` ............................................... case=no_objective_value/exit=return#1/post sat
_fva_step@loopless (cobra/flux_analysis/variability.py ... --hooks STEP_HOOKS "_fva_step@loopless"), each NOT verified:
  S1  the slim_optimize() before the status check dropped ............................ call:loopless_fva_iter/pre (`current` finite), post
  S2  reset dictionary {rxn.forward_variable: 0} only ................................. exit=return#1/post.6, #2/post.6 sat
  S3  loopless result discarded, value = _model.solver.objective.value .............. exit=return#1/post.4 sat, post.5 unknown
  S4  {forward: 1, reverse: 1} ........................................................ exit=return#1/post.3, #2/post.3 unknown

FINDING (native, /venv/bin/python against /repo; the ValueError exit proved above is reachable): a reaction on an internal cycle with
the target whose lower bound is positive but below the cutoff (0 < lb < model.tolerance) is ~0 in the cycle-free solution and not ~0
in the almost cycle-free one, so the closing loop writes bounds (lb, 0) and the bounds setter raises - 5-reaction model EX_A: -> A
(0..10), EX_B: B -> (0..1000), R1: A -> B, R3: C -> A (0..1000), R2: B -> C with bounds (1e-9, 1000):
flux_variability_analysis(model, loopless=True, fraction_of_optimum=0.0, processes=1) raises "ValueError: The lower bound must be less
than or equal to the upper bound (1e-09 <= 0)"; with lb(R2) = 0 it returns R1 in [0, 10].  The model is as before the call on that
exit too (bounds, direction, objective expression compared) - the frame clause (2), observed natively.
"""
