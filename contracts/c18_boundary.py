"""C18 — medium.boundary_types: is_boundary_type (the decision table) and find_boundary_types (the filter of model.reactions
through it), which the other C18 contracts ASSUME under the keys find_boundary_types / find_boundary_types[EX] / [medium] /
[minimal_medium] (their interface is untouched; `lemmas()` below says which of their assumptions follow from what is proved here).

is_boundary_type(reaction, boundary_type, external_compartment) - documented: 'Whether the reaction looks like the requested type.
Might be based on a heuristic', comments: 'Annotations dominate everything', 'correct compartment (exterior or inside)', 'correct
reversibility'; annotations.py: `sbo_terms` (type -> SBO identifier), `excludes` (type -> id fragments that indicate another type).
Spec functions per reaction r: SBO(r) = upper-case of the `sbo` annotation (of its first entry when it is a list, '' when absent),
in_compartment(r, c) = c is the compartment of some metabolite of r, boundary(r) = Reaction.boundary (ghost flag of C17),
reversible(r) = lb < 0 < ub, contains(id, s) = s occurs in id.
PROVED (three cases, boundary_type in exchange / demand / sink; the result is a bool and is the decision table):
    SBO(r) = sbo_terms[type]                       -> True      (whatever else holds: also for a reaction that is no boundary)
    SBO(r) = sbo_terms[another of the five types]  -> False
    otherwise  boundary(r) and no fragment of excludes[type] occurs in r.id
               and (exchange: in_compartment(r, external) | demand, sink: not in_compartment(r, external))
               and (exchange: nothing | demand: not reversible(r) | sink: reversible(r))
so for `exchange` NO reaction bound is read (what find_boundary_types[medium] assumes).  Nothing is modified.
Precondition: an `sbo` annotation that is a list is not empty (the code indexes [0]).
NOTE (documentation / code divergence, not a violation of C18): annotations.py documents `excludes` as PREFIXES of reaction ids; the
code tests `ex in reaction.id`, i.e. occurrence ANYWHERE in the id - the contract states what the code does (contains).

find_boundary_types(model, boundary_type, external_compartment=None) - documented: 'A list of likely boundary reactions of a user
defined type', external compartment 'detected automatically' when None.  PROVED (boundary_type x compartment given / None):
    model.boundary empty                       -> an empty list;
    otherwise the result of  model.reactions.query(P)  with  P(r) = the decision table above for (r, boundary_type, C),  C = the
    compartment given, else the ONE value find_external_compartment(model) returned (assumed call, recorded; its RuntimeError
    propagates): the result holds, in the order of model.reactions, exactly the members r of model.reactions with P(r)
    (ghost maps src / dst of the assumed `DictList.query(callable)`: a filter; the predicate handed over is shown to BE the table by
    executing the lambda on an arbitrary member through is_boundary_type's proved contract).
ASSUMED: Reaction.annotation.get('sbo', '') (str or non-empty list, ghost), str.upper / `in` on strings as uninterpreted functions,
Reaction.compartments (ghost relation), Reaction.boundary (C17 ghost flag), Model.boundary (the members with the flag, inlined list
comprehension), find_external_compartment (pandas heuristic: returns a string or raises RuntimeError), DictList.query(callable).

Mutation trials: listed under MUTANTS in the docstring of c18_minmedium.py.
"""
import z3
from .common import *  # noqa
from . import c01_lp as C1
from . import c15_dictlist  # noqa
from . import c17_cyclefree  # noqa  (Reaction.boundary@getter, ghost flag is_boundary)
from pyvc.values import VReal, xr_lt, id_lit
from pyvc.state import alloc_list, alloc_set, alloc_obj

MB = "cobra/medium/boundary_types.py"
IBT, FBT = "is_boundary_type", "find_boundary_types@filter"
SBO_TERMS = {"demand": "SBO:0000628", "exchange": "SBO:0000627", "sink": "SBO:0000632", "biomass": "SBO:0000629",
             "pseudoreaction": "SBO:0000631"}
EXCLUDES = {"demand": ["SN_", "SK_", "sink", "EX_", "exchange"],
            "exchange": ["demand", "DM_", "biosynthesis", "transcription", "replication", "SN_", "SK_", "sink"],
            "sink": ["demand", "DM_", "biosynthesis", "transcription", "replication", "EX_", "exchange"]}
TYPES = ("exchange", "demand", "sink")
REG.fields.update({"sbo_raw": "id", "sbo_is_list": "bool"})
REG.inline.add("Reaction.reversibility@getter")
UPPER = z3.Function("str_upper", Id, Id)
SUBSTR = z3.Function("str_contains", Id, Id, z3.BoolSort())          # str_contains(s, t): t occurs in s
IN_COMP = z3.Function("in_compartment", Ref, Id, z3.BoolSort())


def _tables_match_the_source():
    """the two tables are copied from /repo/src/cobra/medium/annotations.py: checked at import"""
    import importlib.util
    import os
    src = os.path.join(os.environ.get("VERIF_REPO", "/repo"), "src", "cobra", "medium", "annotations.py")
    spec = importlib.util.spec_from_file_location("_annotations_copy", src)
    m = importlib.util.module_from_spec(spec)
    spec.loader.exec_module(m)
    assert m.sbo_terms == SBO_TERMS and m.excludes == EXCLUDES, "annotations.py differs from the tables of contracts/c18_boundary.py"


_tables_match_the_source()


# ---------------------------------------------------------------- the decision table
def sbo(eng, st, r):
    return UPPER(eng.heap_arr(st, "sbo_raw")[r])


def reversible(eng, st, r):
    lbk, lbv = eng.heap_arr(st, "_lower_bound")
    ubk, ubv = eng.heap_arr(st, "_upper_bound")
    zero = VReal(0, 0)
    return z3.And(xr_lt(VReal(lbk[r], lbv[r]), zero), xr_lt(zero, VReal(ubk[r], ubv[r])))


def table(eng, st, r, bt, ext):
    """the documented decision for reaction r, boundary type bt (python str), external compartment ext (Id term)"""
    s = sbo(eng, st, r)
    others = [id_lit(v) for k, v in SBO_TERMS.items() if k != bt]
    ida = eng.heap_arr(st, "_id")
    frag = z3.Or(*[SUBSTR(ida[r], id_lit(x)) for x in EXCLUDES[bt]])
    inc = IN_COMP(r, ext)
    cc = inc if bt == "exchange" else z3.Not(inc)
    rv = {"exchange": z3.BoolVal(True), "demand": z3.Not(reversible(eng, st, r)), "sink": reversible(eng, st, r)}[bt]
    heur = z3.And(eng.heap_arr(st, "is_boundary")[r], z3.Not(frag), cc, rv)
    return z3.If(s == id_lit(SBO_TERMS[bt]), z3.BoolVal(True), z3.If(z3.Or(*[s == o for o in others]), z3.BoolVal(False), heur))


# ---------------------------------------------------------------- assumed pieces
REG.add(Contract("cobra/core/object.py", "Object.annotation@getter", "C18", [("self", TNone())], [Case("any")], assumed=True,
                 key="Reaction.annotation.get('sbo', '')",
                 note="reaction.annotation.get('sbo', ''): the SBO annotation, a string ('' when absent) or a NON-EMPTY list of strings "
                      "(ghost fields sbo_is_list, sbo_raw = the string resp. the first entry)"))
REG.add(Contract("builtins", "str", "C18", [("self", TNone())], [Case("any")], assumed=True, key="str.upper / substring test",
                 note="s.upper() and `t in s` on strings are uninterpreted functions (str_upper, str_contains) of their arguments"))
REG.add(Contract("cobra/core/reaction.py", "Reaction.compartments@getter", "C18", [("self", TNone())], [Case("any")], assumed=True,
                 key="Reaction.compartments@getter",
                 note="the set of compartments of the reaction's metabolites: c in r.compartments iff in_compartment(r, c) (ghost relation)"))
REG.add(Contract("cobra/medium/boundary_types.py", "find_external_compartment", "C18", [("model", TNone())], [Case("any")], assumed=True,
                 key="find_external_compartment",
                 note="pandas heuristic over compartment names and boundary counts: returns a compartment id (a string) or raises "
                      "RuntimeError; reads only"))
REG.add(Contract("cobra/core/dictlist.py", "DictList.query", "C18", [("self", TNone())], [Case("any")], assumed=True,
                 key="DictList.query(callable)",
                 note="DictList.query(f) with a callable f: a NEW list-like holding, in order, exactly the members x with f(x) true (ghost "
                      "maps src / dst); f is pure here (shown by executing it on an arbitrary member through the callee's contract)"))
REG.classes["Annotation"] = []


def _used(*keys):
    from pyvc.apply import ASSUMED_USED
    for k in keys:
        ASSUMED_USED[k] = REG.get(k).note


def _verifying(eng, keys=(IBT, FBT)):
    return getattr(getattr(eng, "cur_contract", None), "key", None) in keys


def global_hook(eng, name):
    if not _verifying(eng):
        return None
    if name == "sbo_terms":
        return VConc({k: VConc(v) for k, v in SBO_TERMS.items()})
    if name == "excludes":
        return VConc({k: VTuple([VConc(x) for x in v]) for k, v in EXCLUDES.items()})
    if name == "find_external_compartment":
        return VFunc("abstract", name)
    if name == "is_boundary_type" and _verifying(eng, (FBT,)):
        return VFunc("repo", IBT)
    return None


def getattr_hook(eng, st, v, name):
    if not _verifying(eng):
        return None
    if isinstance(v, VRef) and v.cls == "Reaction" and name == "annotation":
        _used("Reaction.annotation.get('sbo', '')")
        st, o = alloc_obj(st, "Annotation", {"attr:of": v})
        return [("ok", st, o)]
    if isinstance(v, VRef) and v.cls == "Reaction" and name == "boundary":
        # Reaction.boundary by its (assumed, C17) contract, with the result as the TERM the post-condition pins down: usable as
        # the condition of a comprehension
        _used("Reaction.boundary@getter")
        return [("ok", st, VBool(z3.Select(eng.heap_arr(st, "is_boundary"), v.t)))]
    if isinstance(v, VObj) and v.cls == "Annotation" and name == "get":
        return [("ok", st, VFunc("bound", v, name))]
    if isinstance(v, (VStr, VConc)) and name == "upper":
        return [("ok", st, VFunc("bound", v, name))]
    if isinstance(v, VRef) and v.cls == "Reaction" and name == "compartments":
        _used("Reaction.compartments@getter")
        st, s = alloc_set(st, "id", base="compartments")
        dom = st.objs[s.oid]["dom"]
        c = qv("cc", Id)
        return [("ok", st.assume(FA([c], z3.Select(dom, c) == IN_COMP(v.t, c), patterns=[z3.Select(dom, c)])), s)]
    return None


def call_method_hook(eng, st, recv, name, pos, kw):
    if not _verifying(eng):
        return None
    if isinstance(recv, VObj) and recv.cls == "Annotation" and name == "get" and len(pos) == 2 and not kw \
            and isinstance(pos[0], VConc) and pos[0].py == "sbo" and isinstance(pos[1], VConc) and pos[1].py == "":
        r = st.objs[recv.oid]["attr:of"].t
        raw = eng.heap_arr(st, "sbo_raw")[r]
        outs = []
        for is_list, s in eng.branch(st, eng.heap_arr(st, "sbo_is_list")[r]):
            if is_list:
                s, l = alloc_list(s, "id", base="sbo_list")
                rec = s.objs[l.oid]
                outs.append(("ok", s.assume(rec["len"] >= 1, z3.Select(rec["elem"], 0) == raw), l))
            else:
                outs.append(("ok", s, VStr(raw)))
        return outs
    if isinstance(recv, (VStr, VConc)) and name == "upper" and not pos and not kw:
        _used("str.upper / substring test")
        return [("ok", st, VStr(UPPER(unwrap(recv, "id"))))]
    if isinstance(recv, VObj) and recv.cls == "DictList" and name == "query" and len(pos) == 1 and not kw and isinstance(pos[0], VFunc):
        return _query(eng, st, recv, pos[0])
    return None


def contains_hook(eng, st, cont, item):
    if _verifying(eng) and isinstance(cont, VStr) and isinstance(item, (VStr, VConc)):
        _used("str.upper / substring test")
        return [("ok", st, VBool(SUBSTR(cont.t, unwrap(item, "id"))))]
    return None


def call_abstract(eng, st, f, pos, kw):
    if _verifying(eng) and f.a == "find_external_compartment":
        _used("find_external_compartment")
        c = VStr(fresh("external_compartment", Id))
        calls = st.ghost.get("fec_calls", ())
        return [("ok", st.setghost("fec_calls", calls + ((tuple(pos), dict(kw), c, st),)), c), eng.raise_(st, "RuntimeError")]
    return None


def member(eng, st, R, x):
    dom, val = Dv(st, R)
    _, e = L(st, R)
    ida = eng.heap_arr(st, "_id")
    return z3.And(z3.Select(dom, ida[x]), e[val[ida[x]]] == x)


def _query(eng, st, R, f):
    """model.reactions.query(f): f is executed ONCE on an arbitrary member x (the contract of is_boundary_type applied: its
    precondition is obliged for every member, its result is a term in x); the result is the filter of R by that term"""
    _used("DictList.query(callable)")
    x = fresh("query_x", Ref)
    n, e = L(st, R)
    s_x = st.assume(x != NULL, member(eng, st, R, x))
    outs = eng.call(s_x, f, [VRef(x, st.objs[R.oid]["ekind"][4:])], {})
    if len(outs) != 1 or outs[0][0] != "ok" or not isinstance(outs[0][2], VBool):
        raise Unsupported("query predicate forks, raises or does not return a bool term")
    s_after, pv = outs[0][1], outs[0][2]
    if len(s_after.pc) != len(s_x.pc):
        # facts the predicate's contract added about x alone are not carried over (the result term is all that is used)
        pass
    P = lambda y: z3.substitute(pv.t, (x, y))  # noqa
    st, l = alloc_list(st, "ref:Reaction", base="query")
    n2, e2 = st.objs[l.oid]["len"], st.objs[l.oid]["elem"]
    src = fresh("query_src", z3.ArraySort(I, I))
    dst = fresh("query_dst", z3.ArraySort(I, I))
    k, j, k2 = qv("qk"), qv("qj"), qv("qk2")
    st = st.assume(
        FA([k], z3.Implies(z3.And(0 <= k, k < n2), z3.And(0 <= src[k], src[k] < n, P(e[src[k]]), e2[k] == e[src[k]], dst[src[k]] == k)),
           patterns=[e2[k]]),
        FA([j], z3.Implies(z3.And(0 <= j, j < n, P(e[j])), z3.And(0 <= dst[j], dst[j] < n2, src[dst[j]] == j)), patterns=[e[j]]),
        FA([k, k2], z3.Implies(z3.And(0 <= k, k < k2, k2 < n2), src[k] < src[k2]), patterns=[z3.MultiPattern(src[k], src[k2])]))
    return [("ok", st.setghost("query", (R, l, x, pv.t, src, dst)), l)]


def iter_hook(eng, st, v):
    """iteration over a module-level constant table: its keys, in order"""
    if _verifying(eng) and isinstance(v, VConc) and isinstance(v.py, dict):
        from pyvc import builtins as B
        return [("ok", st, B.to_seq(eng, st, VTuple([VConc(k) for k in v.py])))]
    return None


HOOKS = {"iter": iter_hook, "global": global_hook, "getattr": getattr_hook, "call_method": call_method_hook, "contains": contains_hook,
         "call_abstract": call_abstract}


# ---------------------------------------------------------------- is_boundary_type
def _ibt_pre(E):
    r = E["reaction"].t
    return z3.BoolVal(True)


def _ibt_cases():
    out = []
    for bt in TYPES:
        c = Case("type=" + bt, ensures=(lambda bt: lambda E: E.res.t == table(E.eng, E.s0, E["reaction"].t, bt, unwrap(E["external_compartment"], "id"))
                                         if isinstance(E.res, VBool) else z3.BoolVal(False))(bt))
        c.params_override = {"boundary_type": TConc(bt)}
        c.applies = (lambda bt: lambda a, st: isinstance(a["boundary_type"], VConc) and a["boundary_type"].py == bt)(bt)
        # at call sites the result IS the table term (usable as the predicate of a filter)
        c.result = (lambda bt: lambda eng, st, E: (st, VBool(table(eng, st, E["reaction"].t, bt, unwrap(E["external_compartment"], "id")))))(bt)
        out.append(c)
    return out


_ibt = REG.add(Contract(MB, "is_boundary_type", "C18", [("reaction", TRef("Reaction")), ("boundary_type", TConc("exchange")), ("external_compartment", TStr())],
                        _ibt_cases(), key=IBT, result="bool",
                        note="an `sbo` annotation that is a list is non-empty (assumed with the annotation getter)"))
_ibt.genexp_unroll = 8        # `any(ex in reaction.id for ex in excludes[type])`: a constant tuple of up to 8 fragments, evaluated one by one


# ---------------------------------------------------------------- find_boundary_types
def _model_t():
    return TObj("Model", {"reactions": TDictList("Reaction")})


def _R(st, m):
    return st.objs[m.oid]["attr:reactions"]


def some_boundary(E):
    R = _R(E.s0, E["model"])
    n, e = L(E.s0, R)
    j = qv("bj")
    return z3.Exists([j], z3.And(0 <= j, j < n, E.eng.heap_arr(E.s0, "is_boundary")[e[j]]))


def _fbt_post(bt):
    def post(E):
        if not (isinstance(E.res, VObj) and E.res.kind == "list"):
            return z3.BoolVal(False)
        rec = E.s1.objs[E.res.oid]
        q = E.s1.ghost.get("query")
        if q is None:
            # model.boundary empty: the empty list
            return z3.And(z3.Not(some_boundary(E)), rec["len"] == 0)
        R, l, x, pterm, src, dst = q
        calls = E.s1.ghost.get("fec_calls", ())
        if l.oid != E.res.oid or R.oid != _R(E.s0, E["model"]).oid:
            return z3.BoolVal(False)
        if isinstance(E["external_compartment"], VNone):
            # detected automatically: ONE call find_external_compartment(model), its value is the compartment used
            if not (len(calls) == 1 and len(calls[0][0]) == 1 and calls[0][0][0] is E["model"] and not calls[0][1]):
                return z3.BoolVal(False)
            ext = calls[0][2].t
        else:
            if calls:
                return z3.BoolVal(False)
            ext = unwrap(E["external_compartment"], "id")
        n, e = L(E.s0, R)
        n2, e2 = rec["len"], rec["elem"]
        P = lambda y: table(E.eng, E.s0, y, bt, ext)  # noqa
        k, j, k2 = qv("rk"), qv("rj"), qv("rk2")
        return z3.And(
            some_boundary(E),
            FA([k], z3.Implies(z3.And(0 <= k, k < n2), z3.And(0 <= src[k], src[k] < n, P(e[src[k]]), e2[k] == e[src[k]])), patterns=[e2[k]]),
            FA([j], z3.Implies(z3.And(0 <= j, j < n, P(e[j])), z3.And(0 <= dst[j], dst[j] < n2, e2[dst[j]] == e[j])), patterns=[e[j]]),
            FA([k, k2], z3.Implies(z3.And(0 <= k, k < k2, k2 < n2), src[k] < src[k2]), patterns=[z3.MultiPattern(src[k], src[k2])]))
    return post


def _fbt_cases():
    out = []
    for bt in TYPES:
        for tag, t in (("compartment_given", TStr()), ("compartment_detected", TNone())):
            c = Case(f"type={bt}:{tag}", ensures=_fbt_post(bt))
            c.params_override = {"boundary_type": TConc(bt), "external_compartment": t}
            if tag == "compartment_detected":
                c.may_raise = "RuntimeError"          # find_external_compartment gives up: propagated, nothing was changed
                c.ensures_on_raise = lambda E: some_boundary(E)
            out.append(c)
    return out


def _fbt_res(eng, st, E):
    return alloc_list(st, "ref:Reaction", base="found")


REG.inline.add("Model.boundary@getter")
REG.add(Contract(MB, "find_boundary_types", "C18",
                 [("model", _model_t()), ("boundary_type", TConc("exchange")), ("external_compartment", TNone())],
                 _fbt_cases(), pre=lambda E: WF(E, E.s0, _R(E.s0, E["model"])), key=FBT, result=_fbt_res,
                 modifies=lambda E: [("ghost", "query", lambda st: None), ("ghost", "fec_calls", lambda st: ())],
                 note="model.reactions a well-formed DictList; find_external_compartment and DictList.query(callable) assumed"))


# ---------------------------------------------------------------- what the ASSUMED exchange lists of C18 get from the proved table
def lemmas():
    """(1) for boundary_type 'exchange' the decision does not depend on any reaction bound (two states that differ in the bound
    fields only give the same decision): the exchange list is the same before and after a change of bounds (assumed by
    find_boundary_types[medium] / [EX] / [minimal_medium] through their fixed names); (2) a reaction that the table accepts is a
    boundary reaction (Reaction.boundary: a single metabolite) UNLESS it carries the SBO term of the type - the single-metabolite
    assumption of those contracts is therefore an assumption about annotated reactions only."""
    from pyvc.engine import Engine, Obl
    from pyvc.state import State
    eng = Engine(REG)
    s0 = State()
    s1 = s0
    for f in ("_lower_bound", "_upper_bound"):
        s1 = s1.setheap(f, (z3.Const(f"b1{f}_k", z3.ArraySort(Ref, I)), z3.Const(f"b1{f}_v", z3.ArraySort(Ref, z3.RealSort()))))
    r, ext = z3.Const("b_r", Ref), z3.Const("b_ext", Id)
    kinds = eng.kind_axioms(s0) + eng.kind_axioms(s1)
    out = [Obl("C18/lemma/boundary/exchange-decision-reads-no-bound", kinds,
               table(eng, s0, r, "exchange", ext) == table(eng, s1, r, "exchange", ext), "lemma")]
    for bt in TYPES:
        out.append(Obl(f"C18/lemma/boundary/{bt}-accepted-is-boundary-or-annotated", kinds,
                       z3.Implies(table(eng, s0, r, bt, ext),
                                  z3.Or(eng.heap_arr(s0, "is_boundary")[r], sbo(eng, s0, r) == id_lit(SBO_TERMS[bt]))), "lemma"))
    return out
