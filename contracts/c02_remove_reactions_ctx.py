"""C03 / C02 — Model.remove_reactions(reactions, remove_orphans=False) WITH a context open (`model._contexts` non-empty).

Documented: "Remove reactions from the model. The change is reverted upon exit when using the model as a context."  C03: every
context-aware operation registers an undo that reverses precisely what it did.  This module ADDS the in-context cases to what
contracts/c02_remove_reactions.py proves without a context; it imports and reuses that module's specification functions (`_pre`,
`_state`, `_inv_outer`, `_inv_members`, `_inv_groups`, `_mod`, its hook table) unchanged and registers a SECOND contract for the same
function under the key `Model.remove_reactions[context]` (KEYS), hook table `HOOKS`, glue lemmas `lemmas()`.
Case: `remove_orphans_false` (remove_orphans=True in a context is NOT covered here: bounded driver only).

PROVED, for argument lists of any length and a model with any number of reactions / genes / groups, any depth of the context stack:
  (A) everything the no-context contract proves about the final state (the very same formulas: model.reactions = entry content minus
      the listed reactions, well formed; `_model` None exactly for the listed reactions; no metabolite / gene of a listed reaction
      lists it, nothing else changed in `_reaction`; no group of the model contains a listed reaction, nothing else changed in
      `_members`; the solver-call trace with its clock; frame).
  (B) the undo registrations (ghost trace: entry j = (kind, reaction, second argument, manager), witness maps updated at every
      registration): EVERY entry is made in the INNERMOST context (the manager get_context returned = the last element of
      model._contexts), is for a listed reaction r, is THE entry of its kind for its arguments (nothing twice), and is one of
        OBJ   partial(self._set_objective_coefficients, d)   only when objective.get_linear_coefficients([forward, reverse]) returned
              and one of the two coefficients it returned is not 0; d is then exactly {name(v): c[v] | v in (forward, reverse),
              c[v] != 0} (c = the coefficients read just before they are zeroed: the inverse of set_linear_coefficients({forward: 0,
              reverse: 0}));
        POP   partial(self._populate_solver, [r])                      SETM  partial(setattr, r, "_model", self)
        RADD  partial(self.reactions.add, r)
        XADD  partial(x._reaction.add, r)    only for x a metabolite or gene of r (key of r._metabolites / member of r._genes) with
              `r in x._reaction` at entry (i.e. exactly where `x._reaction.remove(r)` was executed);
        GADD  partial(g.add_members, [r])    only for g a group of model.groups with `r in g._members` at entry;
      and CONVERSELY for every listed reaction r: POP, SETM, RADD are there, consecutive in this order, preceded immediately by OBJ
      exactly when the condition above holds; one XADD for EVERY metabolite / gene x of r that listed r; one GADD for EVERY group of
      the model that contained r.  Order: the entries of one reaction form a block that starts with [OBJ,] POP, SETM, RADD, the blocks
      come in the order of the argument list, within a block every XADD comes before every GADD.
      So: every change to `_model`, model.reactions, `_reaction`, `_members` has its inverse registered, and no inverse is registered
      for a change that was not made (no finding; also checked natively: 312 enter / remove / leave / compare histories on a small
      model with groups, shared genes and an objective, remove_orphans False and True, no difference).
  (C) glue lemmas `undo-restores:{model-pointers, reactions-content, back-references, group-members}` (closed formulas whose hypotheses
      are the very pre- and post-condition of this contract on a synthetic pair of states): replaying the registered undos on the exit
      state gives back the ENTRY views - `_model` of every object, membership in model.reactions (as a set of objects: DictList.add
      appends, the order of the list is not restored, which C03 excludes explicitly), every `_reaction` set, every `_members` set.
      The replay is taken in its closed form: each SETM / RADD / XADD / GADD entry writes one cell of one view with a constant
      (`_model[r] := model`, `r in model.reactions := True`, `r in x._reaction := True`, `r in g._members := True`: setattr, the C15
      contract of DictList.add, set.add, the proved contract of Group.add_members), so the result does not depend on the order;
      NOT proved: the induction over the trace length that connects HistoryManager.reset's recursive `run` (C03 kernel) with this
      closed form; POP (_populate_solver, C01) and OBJ are assumed not to touch these four views.  Guards: the lemmas fail when any
      one of the completeness clauses of (B) is dropped, and `False` does not follow from the hypotheses.

PRECONDITIONS (stated, not proved here): those of the no-context contract with `no context open` replaced by `at least one context
open, the stack holds managers (never None)`: the argument is a list of pairwise different members of model.reactions, each pointing
at the model; model.reactions well formed; remove_orphans the literal False.
ASSUMED: everything the no-context contract assumes (forward / reverse variable getters, set_linear_coefficients / remove_cons_vars
recorded, not executed - what Model.remove_cons_vars registers itself with the context is THAT callee's business, proved in
contracts/c03_context.py); `objective.get_linear_coefficients([forward, reverse])` (optlang, external) either raises or returns a
{variable: number} dictionary over exactly the two listed variables with arbitrary values and changes nothing - when it raises
(`except Exception: obj_coefs = {}`) NO objective undo is registered, the contract says so (ghost flag `ok`), whether the following
set_linear_coefficients can succeed then is outside this contract; `variable.name` is an uninterpreted function of the variable;
`context(f)` = HistoryManager.__call__ by its proved contract (the operation is appended to that manager's history), recorded;
at the call site of Model.get_associated_groups(reaction): its proved post-condition (as weakened by c02_remove_reactions) PLUS the
consequence `the returned list has no duplicates` (ghost inverse map), which follows from the proved clause `strictly increasing source
positions` when model.groups is a well-formed DictList by an induction this module does not carry out - needed for `nothing twice`
among the GADD entries only.
GHOST code in the hooks: the trace position is noted when the removal of a reaction begins (`lo`, at get_linear_coefficients) and when
its groups are looked up (`mid`); at the OBJ registration a local lemma about the dictionary comprehension is OBLIGED (5 obligations
`undo/objective-coefficients-dictionary`) and then used by the loop invariant.
Engine: NO change of pyvc (`{}.items()` of the `except` branch is given its meaning by this module's call_method hook).
"""
import z3
import cobra  # noqa
from .common import *  # noqa
from . import c01_lp as C1
from . import c02_remove_reactions as RR
from . import c03_context as C3
from pyvc import comprehension as _C
from pyvc.state import alloc_dict

MM = RR.MM
KEY = "Model.remove_reactions[context]"
KEYS = [KEY]
I_ = z3.IntSort()
B_ = z3.BoolSort()
R_ = z3.RealSort()
Hh = RR.Hh
REG.classes.setdefault("Variable", [])
var_name = z3.Function("rrc_var_name", Ref, Id)          # `variable.name` of an optlang variable (uninterpreted)


def A_(*sorts):
    """A_(a, b, c) = Array(a, Array(b, c))"""
    s = sorts[-1]
    for d in reversed(sorts[:-1]):
        s = z3.ArraySort(d, s)
    return s


# ---------------------------------------------------------------- undo registrations: a symbolic ghost trace
# Entry j < n of the trace is the registration, in manager ctx[j], of
#   kind 1 OBJ   partial(self._set_objective_coefficients, d)    arg = the reaction being removed, d = (odom[j], oval[j])
#   kind 2 POP   partial(self._populate_solver, [arg])
#   kind 3 SETM  partial(setattr, arg, "_model", self)
#   kind 4 RADD  partial(self.reactions.add, arg)
#   kind 5 XADD  partial(arg2._reaction.add, arg)                arg2 a metabolite / gene
#   kind 6 GADD  partial(arg2.add_members, [arg])                arg2 a group
# Witness maps (updated at each registration): whS[k][x] = position of the latest entry of kind k (1..4) for reaction x,
# whX[x][y] / whG[x][y] = position of the latest XADD / GADD entry for (x, y).
# Further ghost state: glc_ok[x] / glc_val[x] = whether objective.get_linear_coefficients([forward, reverse]) returned (did not
# raise) while x was removed, and the coefficient map it returned; lo[k] = the length of the trace when the removal of the k-th listed reaction began,
# mid[x] = its length when Model.get_associated_groups(x) was called.
K_OBJ, K_POP, K_SETM, K_RADD, K_XADD, K_GADD = 1, 2, 3, 4, 5, 6
SINGLE = (K_OBJ, K_POP, K_SETM, K_RADD)
CORE = (("n", I_), ("kind", A_(I_, I_)), ("arg", A_(I_, Ref)), ("arg2", A_(I_, Ref)), ("ctx", A_(I_, Ref)))
OBJ = (("odom", A_(I_, Id, B_)), ("oval", A_(I_, Id, R_)), ("ok", A_(Ref, B_)), ("val", A_(Ref, Ref, R_)))
BLK = (("lo", A_(I_, I_)), ("mid", A_(Ref, I_)), ("has_obj", A_(Ref, B_)))
GHOSTS = {"rru": CORE, "rru_obj": OBJ, "rru_blk": BLK}
WH = {"rru_whS": A_(I_, Ref, I_), "rru_whX": A_(Ref, Ref, I_), "rru_whG": A_(Ref, Ref, I_), "rru_gpos": A_(Ref, I_)}


def _g0(key):
    if key in WH:
        return z3.Const(key + "_0", WH[key])
    d = {nm: z3.Const(f"{key}0_{nm}", srt) for nm, srt in GHOSTS[key]}
    if key == "rru":
        d["n"] = z3.IntVal(0)
    return d


_G0 = {k: _g0(k) for k in list(GHOSTS) + list(WH)}


def gh(st, key):
    v = st.ghost.get(key)
    return v if v is not None else _G0[key]


def _havoc(key):
    def mk(st):
        if key in WH:
            return fresh(key, WH[key])
        return {nm: fresh(f"{key}_{nm}", srt) for nm, srt in GHOSTS[key]}
    return ("ghost", key, mk)


ALL_GHOST = [_havoc(k) for k in list(GHOSTS) + list(WH)]


MINE = {KEY}     # keys of the contracts these hooks serve (contracts/c02_remove_reactions_ctx_orph.py adds its own key)


def _mine(eng):
    return getattr(eng.cur_contract, "key", None) in MINE


def _cur_reaction(eng, st):
    r = st.lookup(eng._top_fid, "reaction")
    if not isinstance(r, VRef):
        raise Unsupported("no current reaction")
    return r.t


def _list1(st, v):
    """the element of a list display of length 1, or None"""
    if isinstance(v, VObj) and v.kind == "list":
        rec = st.objs[v.oid]
        n = z3.simplify(rec["len"]) if "len" in rec else None
        if n is not None and z3.is_int_value(n) and n.as_long() == 1 and str(rec.get("ekind", "")).startswith("ref"):
            return z3.simplify(z3.Select(rec["elem"], 0))
    return None


def _classify(eng, st, f):
    """-> (kind, arg, arg2, snapshot) of a registered undo function, or Unsupported"""
    model = eng.entry_args.get("self")
    if isinstance(f, VFunc) and f.kind == "partial" and not f.c and isinstance(model, VObj):
        a, b = f.a, tuple(f.b)
        rl = st.objs[model.oid].get("attr:reactions")
        if isinstance(a, VFunc) and a.kind == "builtin" and a.a == "setattr" and len(b) == 3 and isinstance(b[0], VRef) \
                and isinstance(b[1], VConc) and b[1].py == "_model" and isinstance(b[2], VObj) and b[2].oid == model.oid:
            return K_SETM, b[0].t, NULL, None
        if isinstance(a, VFunc) and a.kind == "bound" and len(b) == 1:
            recv, name = a.a, a.b
            if isinstance(recv, VObj) and recv.oid == model.oid:
                x = _list1(st, b[0])
                if name == "_populate_solver" and x is not None:
                    return K_POP, x, NULL, None
                if name == "_set_objective_coefficients" and isinstance(b[0], VObj) and b[0].kind == "dict":
                    rec = st.objs[b[0].oid]
                    if not rec.get("lazy") and not rec.get("pure") and rec["kkind"] == "id" and rec["vkind"] == "real":
                        return K_OBJ, _cur_reaction(eng, st), NULL, (rec["dom"], rec["val"])
            if isinstance(recv, VObj) and isinstance(rl, VObj) and recv.oid == rl.oid and name == "add" and isinstance(b[0], VRef):
                return K_RADD, b[0].t, NULL, None
            if isinstance(recv, VObj) and recv.kind == "set" and name == "add" and isinstance(b[0], VRef):
                org = st.objs[recv.oid].get("origin")
                if org is not None and org[0] == "_reaction":
                    return K_XADD, b[0].t, org[1], None
            if isinstance(recv, VRef) and recv.cls == "Group" and name == "add_members":
                x = _list1(st, b[0])
                if x is not None:
                    return K_GADD, x, recv.t, None
    raise Unsupported(f"undo registration of an unrecognised function {f!r}"[:200])


def call_object_hook(eng, st, f, pos, kw):
    """context(undo): HistoryManager.__call__ by its contract (C03: the operation is appended to that manager's history); the event
    is recorded in the symbolic ghost trace"""
    if _mine(eng) and isinstance(f, VRef) and f.cls == "HistoryManager" and len(pos) == 1 and not kw:
        kind, x, y, snap = _classify(eng, st, pos[0])
        T = dict(gh(st, "rru"))
        n = T["n"]
        T.update(n=n + 1, kind=z3.Store(T["kind"], n, z3.IntVal(kind)), arg=z3.Store(T["arg"], n, x), arg2=z3.Store(T["arg2"], n, y),
                 ctx=z3.Store(T["ctx"], n, f.t))
        st = st.setghost("rru", T)
        if kind in SINGLE:
            w = gh(st, "rru_whS")
            st = st.setghost("rru_whS", z3.Store(w, z3.IntVal(kind), z3.Store(w[z3.IntVal(kind)], x, n)))
        else:
            key = "rru_whX" if kind == K_XADD else "rru_whG"
            w = gh(st, key)
            st = st.setghost(key, z3.Store(w, x, z3.Store(w[x], y, n)))
        if kind == K_OBJ:
            # local lemma (obliged here, then available to the loop invariants): the dictionary is not empty only when a coefficient
            # that was read is not 0, and it holds exactly the non-zero coefficients under the variables' names
            fact = z3.And(_objcond(st, x), _dict_ok(st, x, None, snap))
            eng.oblige_split(st, fact, "undo/objective-coefficients-dictionary", kind="side")
            st = st.assume(fact)
            Bk = gh(st, "rru_blk")
            st = st.setghost("rru_blk", dict(Bk, has_obj=z3.Store(Bk["has_obj"], x, z3.BoolVal(True))))
            O = dict(gh(st, "rru_obj"))
            O.update(odom=z3.Store(O["odom"], n, snap[0]), oval=z3.Store(O["oval"], n, snap[1]))
            st = st.setghost("rru_obj", O)
        return [("ok", st, NONE)]
    return None


def call_method_hook(eng, st, recv, name, pos, kw):
    if not _mine(eng):
        return None
    m = RR._entry_model(eng)
    if m is None:
        return None
    if isinstance(recv, VObj) and recv.cls == "Objective" and name == "get_linear_coefficients" and len(pos) == 1 and not kw:
        # ASSUMED (optlang, external): returns a {variable: number} dictionary over exactly the listed variables, or raises; it
        # changes nothing.  GHOST code: the outcome is recorded for the reaction being removed; the trace position is noted (`lo`)
        l = pos[0]
        rec = st.objs[l.oid] if isinstance(l, VObj) and l.kind == "list" else None
        ln = z3.simplify(rec["len"]) if rec is not None and "len" in rec else None
        if ln is None or not z3.is_int_value(ln) or ln.as_long() != 2 or not str(rec.get("ekind", "")).startswith("ref"):
            raise Unsupported("get_linear_coefficients: the recorded call needs a list display of two variables")
        fw, rv = z3.simplify(z3.Select(rec["elem"], 0)), z3.simplify(z3.Select(rec["elem"], 1))
        r = _cur_reaction(eng, st)
        O, Bk, n = gh(st, "rru_obj"), gh(st, "rru_blk"), gh(st, "rru")["n"]
        st = st.setghost("rru_blk", dict(Bk, lo=z3.Store(Bk["lo"], RR.ARGPOS[r], n), has_obj=z3.Store(Bk["has_obj"], r, z3.BoolVal(False))))
        val = fresh("glc_val", A_(Ref, R_))
        dom = z3.Store(z3.Store(z3.K(Ref, z3.BoolVal(False)), fw, z3.BoolVal(True)), rv, z3.BoolVal(True))
        s_ok, d = alloc_dict(st, "ref:Variable", "real", dom=dom, val=val)
        # the ghost enumeration of the dictionary's keys (created here rather than at `.items()`), with its two ground instances
        s_ok, order, posn, card = _C._order_of(s_ok, d, s_ok.objs[d.oid])
        s_ok = s_ok.assume(*[z3.And(0 <= posn[u], posn[u] < card, order[posn[u]] == u) for u in (fw, rv)])
        s_ok = s_ok.setghost("rru_obj", dict(O, ok=z3.Store(O["ok"], r, z3.BoolVal(True)), val=z3.Store(O["val"], r, val)))
        s_ex = st.setghost("rru_obj", dict(O, ok=z3.Store(O["ok"], r, z3.BoolVal(False))))
        return [("ok", s_ok, d), eng.raise_(s_ex, "Exception")]
    if isinstance(recv, VObj) and recv.kind == "dict" and st.objs[recv.oid].get("lazy") and name == "items" and not pos and not kw:
        # `{}.items()` (the `except` branch): the view of an empty {variable: number} dictionary
        s2, d = alloc_dict(st, "ref:Variable", "real", dom=z3.K(Ref, z3.BoolVal(False)), val=z3.K(Ref, z3.RealVal(0)))
        return [("ok", s2.updobj(d.oid, card=z3.IntVal(0)), VFunc("dictview", d, "items"))]
    if isinstance(recv, VObj) and recv.oid == m.oid and name == "get_associated_groups" and len(pos) == 1 and not kw \
            and isinstance(pos[0], VRef):
        # by its contract (as the engine would do), plus (i) GHOST code: the trace position is noted (`mid`), (ii) an ASSUMED
        # consequence of its proved post-condition: the returned list has no duplicates (ghost inverse map `gpos`)
        outs = eng.apply_contract(st, eng.reg.get("Model.get_associated_groups"), [recv] + list(pos), kw)
        res = []
        for k_, s_, v_ in outs:
            if k_ == "ok":
                gn, ge = L(s_, v_)
                gpos, w = fresh("rru_gpos", WH["rru_gpos"]), qv("gw")
                s_ = s_.assume(FA([w], z3.Implies(z3.And(0 <= w, w < gn), gpos[z3.Select(ge, w)] == w), patterns=[z3.Select(ge, w)]))
                Bk = gh(s_, "rru_blk")
                s_ = s_.setghost("rru_blk", dict(Bk, mid=z3.Store(Bk["mid"], pos[0].t, gh(s_, "rru")["n"]))).setghost("rru_gpos", gpos)
            res.append((k_, s_, v_))
        return res
    return None


def getattr_hook(eng, st, v, name):
    if _mine(eng) and isinstance(v, VRef) and v.cls == "Variable" and name == "name":
        return [("ok", st, VStr(var_name(v.t)))]
    return None


HOOKS = chain_hooks({"call_object": call_object_hook, "call_method": call_method_hook, "getattr": getattr_hook}, RR.HOOKS)


# ---------------------------------------------------------------- specification
def _top(E):
    nc, ec = C3._ctxs(E.s0, E["self"])
    return ec[nc - 1]


def _pre(E):
    """the precondition of the no-context contract with `no context open` replaced by `a context is open` (and the stack holds
    managers, never None: what get_context needs)"""
    nc = C3._ctxs(E.s0, E["self"])[0]
    base = RR._pre(E)
    kept = [c for c in base.children() if not c.eq(nc == 0)]
    assert z3.is_and(base) and len(kept) == base.num_args() - 1, "c02_remove_reactions._pre: the `no context` conjunct was not found"
    return z3.And(*(kept + [nc > 0, C3._ctx_nonnull(E, "self")]))


def _objcond(st, x):
    """an objective-coefficient undo is due for reaction x: the coefficients could be read and one of them is not 0"""
    O = gh(st, "rru_obj")
    c = O["val"][x]
    return z3.And(O["ok"][x], z3.Or(c[C1.fwd(x)] != 0, c[C1.rev(x)] != 0))


def _kc(k):
    return z3.IntVal(k)


def _tr_state(E, st, t):
    """the undo registrations after the first t listed reactions were removed (t = length of the argument: the post-condition)"""
    n_arg, e = RR._arg(E)
    gn, ge = RR._groups(E, E.s0)
    T, O, Bk = gh(st, "rru"), gh(st, "rru_obj"), gh(st, "rru_blk")
    whS, whX, whG = gh(st, "rru_whS"), gh(st, "rru_whX"), gh(st, "rru_whG")
    n, kd, ar, a2, cx = (T[f] for f in ("n", "kind", "arg", "arg2", "ctx"))
    lo, mid, hob = Bk["lo"], Bk["mid"], Bk["has_obj"]
    R0, M0 = Hh(E, E.s0, "_reaction"), Hh(E, E.s0, "_members")
    Mt, G = Hh(E, E.s0, "_metabolites"), Hh(E, E.s0, "_genes")
    top = _top(E)
    j, k, y, key, g_ = qv("tj"), qv("tk"), qv("ty", Ref), qv("tkey", Id), qv("tg")
    x, z = ar[j], a2[j]
    xk = z3.Select(e, k)
    in_t = z3.And(0 <= k, k < t)
    p = whS[_kc(K_POP)][xk]
    single = lambda K: z3.And(kd[j] == K, z == NULL, whS[_kc(K)][x] == j)  # noqa
    nxt = RR.ARGPOS[x] + 1
    cs = [
        n >= 0,
        # every entry: in the innermost context, for a listed reaction, one of the six kinds, justified, THE entry of its kind for
        # its arguments (nothing twice)
        FA([j], z3.Implies(z3.And(0 <= j, j < n), z3.And(
            cx[j] == top, RR._listed(E, x, t),
            z3.Or(z3.And(single(K_OBJ), hob[x]), single(K_POP), single(K_SETM), single(K_RADD),
                  z3.And(kd[j] == K_XADD, whX[x][z] == j, z3.Or(Mt[x][z], G[x][z]), R0[z][x]),
                  z3.And(kd[j] == K_GADD, whG[x][z] == j, RR._in_groups(E, z), M0[z][x])))), patterns=[kd[j]]),
        # per listed reaction: [objective coefficients,] populate solver, model pointer, model.reactions.add - consecutive, at the
        # start of the reaction's block
        FA([k], z3.Implies(in_t, z3.And(0 <= lo[k], lo[k] <= p, p <= lo[k] + 1, (p == lo[k] + 1) == hob[xk], p + 2 < n)), patterns=[xk]),
        FA([k], z3.Implies(in_t, hob[xk] == _objcond(st, xk)), patterns=[xk]),
        FA([k], z3.Implies(in_t, z3.And(kd[p] == K_POP, ar[p] == xk)), patterns=[xk]),
        FA([k], z3.Implies(in_t, z3.And(kd[p + 1] == K_SETM, ar[p + 1] == xk, whS[_kc(K_SETM)][xk] == p + 1)), patterns=[xk]),
        FA([k], z3.Implies(in_t, z3.And(kd[p + 2] == K_RADD, ar[p + 2] == xk, whS[_kc(K_RADD)][xk] == p + 2)), patterns=[xk]),
        FA([k], z3.Implies(z3.And(in_t, hob[xk]), z3.And(kd[p - 1] == K_OBJ, ar[p - 1] == xk, whS[_kc(K_OBJ)][xk] == p - 1)),
           patterns=[xk]),
        # the dictionary of the objective-coefficient undo: the non-zero coefficients that were read, under the variables' names
        FA([k], z3.Implies(z3.And(in_t, hob[xk]), _dict_ok(st, xk, p - 1)), patterns=[xk]),
        # one back-reference undo per metabolite / gene of the reaction that listed it
        FA([k, y], z3.Implies(z3.And(in_t, z3.Or(Mt[xk][y], G[xk][y]), R0[y][xk]),
                              z3.And(p + 2 < whX[xk][y], whX[xk][y] < n, kd[whX[xk][y]] == K_XADD, ar[whX[xk][y]] == xk,
                                     a2[whX[xk][y]] == y)), patterns=[R0[y][xk]]),
        # one group undo per group of the model that contained the reaction
        FA([k, g_], z3.Implies(z3.And(in_t, 0 <= g_, g_ < gn, M0[z3.Select(ge, g_)][xk]),
                               z3.And(p + 2 < whG[xk][z3.Select(ge, g_)], whG[xk][z3.Select(ge, g_)] < n,
                                      kd[whG[xk][z3.Select(ge, g_)]] == K_GADD, ar[whG[xk][z3.Select(ge, g_)]] == xk,
                                      a2[whG[xk][z3.Select(ge, g_)]] == z3.Select(ge, g_))), patterns=[M0[z3.Select(ge, g_)][xk]]),
        # order: the entries of a reaction form a block, the blocks come in the order of the argument; within a block the
        # back-reference undos come before the group undos
        FA([j], z3.Implies(z3.And(0 <= j, j < n),
                           z3.And(lo[RR.ARGPOS[x]] <= j, z3.Implies(nxt < t, j < lo[nxt]),
                                  z3.Implies(kd[j] == K_XADD, j < mid[x]), z3.Implies(kd[j] == K_GADD, mid[x] <= j))),
           patterns=[kd[j]]),
    ]
    return cs


def _dict_ok(st, x, w, snap=None):
    """entry w carries the dictionary {name(v): c[v] | v in (forward, reverse) of x, c[v] != 0}, c = the coefficients read"""
    O = gh(st, "rru_obj")
    c, (dom, val) = O["val"][x], (snap or (O["odom"][w], O["oval"][w]))
    fw, rv = C1.fwd(x), C1.rev(x)
    key = qv("dk", Id)
    return z3.And(z3.Implies(c[fw] != 0, dom[var_name(fw)]), z3.Implies(c[rv] != 0, dom[var_name(rv)]),
                  FA([key], z3.Implies(dom[key], z3.Or(z3.And(key == var_name(fw), c[fw] != 0, val[key] == c[fw]),
                                                       z3.And(key == var_name(rv), c[rv] != 0, val[key] == c[rv]))), patterns=[dom[key]]))


def _post(E):
    return z3.And(RR._post(E), *_tr_state(E, E.s1, RR._arg(E)[0]))


def _inv_outer(E, Lc):
    return z3.And(RR._inv_outer(E, Lc), *_tr_state(E, Lc.st, Lc.i))


def _prefix_kept(st, en):
    T, TA = gh(st, "rru"), gh(en, "rru")
    j = qv("pj")
    return [T["n"] >= TA["n"],
            FA([j], z3.Implies(z3.And(0 <= j, j < TA["n"]), z3.And(*[T[f][j] == TA[f][j] for f in ("kind", "arg", "arg2", "ctx")])),
               patterns=[T[f][j] for f in ("kind", "arg", "arg2", "ctx")])]


def _ctx_of(Lc):
    c = Lc.var("context")
    if not isinstance(c, VRef):
        raise Unsupported("the local `context` is not a manager")
    return c.t


def _inv_members(field):
    base = RR._inv_members(field)

    def inv(E, Lc):
        """the entries made by this loop: one XADD per element enumerated so far that listed the reaction when the loop began"""
        r, c = RR._cur(Lc), _ctx_of(Lc)
        st, en, i = Lc.st, Lc.entry, Lc.i
        _, order, pos, dom = Lc.seq.src[:4]
        R_in = Hh(E, en, "_reaction")
        T, TA = gh(st, "rru"), gh(en, "rru")
        n, kd, ar, a2, cx = (T[f] for f in ("n", "kind", "arg", "arg2", "ctx"))
        nA = TA["n"]
        whX, whXA = gh(st, "rru_whX"), gh(en, "rru_whX")
        new = lambda v: z3.And(z3.Select(dom, v), z3.Select(pos, v) < i, R_in[v][r])  # noqa
        j, x, y = qv("mj"), qv("mx", Ref), qv("my", Ref)
        cs = _prefix_kept(st, en) + [
            FA([x], z3.Implies(x != r, whX[x] == whXA[x]), patterns=[whX[x]]),
            FA([y], z3.Implies(z3.Not(new(y)), whX[r][y] == whXA[r][y]), patterns=[whX[r][y]]),
            FA([j], z3.Implies(z3.And(nA <= j, j < n),
                               z3.And(cx[j] == c, kd[j] == K_XADD, ar[j] == r, new(a2[j]), whX[r][a2[j]] == j)),
               patterns=[kd[j], ar[j], a2[j]]),
            FA([y], z3.Implies(new(y), z3.And(nA <= whX[r][y], whX[r][y] < n, kd[whX[r][y]] == K_XADD, ar[whX[r][y]] == r,
                                              a2[whX[r][y]] == y)), patterns=[z3.Select(pos, y), whX[r][y]])]
        return z3.And(base(E, Lc), *cs)
    return inv


def _inv_groups(E, Lc):
    """loop over associated_groups: entry nA + w is the GADD of the w-th group"""
    base = RR._inv_groups("reaction", RR._MEMBERS)
    r, c = RR._cur(Lc), _ctx_of(Lc)
    st, en, i = Lc.st, Lc.entry, Lc.i
    gn, ge = L(st, RR._MEMBERS(Lc))
    T, TA = gh(st, "rru"), gh(en, "rru")
    n, kd, ar, a2, cx = (T[f] for f in ("n", "kind", "arg", "arg2", "ctx"))
    nA = TA["n"]
    whG, whGA = gh(st, "rru_whG"), gh(en, "rru_whG")
    j, x, w = qv("qj"), qv("qx", Ref), qv("qw")
    gw = z3.Select(ge, w)
    cs = _prefix_kept(st, en) + [
        n == nA + i,
        FA([x], z3.Implies(x != r, whG[x] == whGA[x]), patterns=[whG[x]]),
        FA([j], z3.Implies(z3.And(nA <= j, j < n),
                           z3.And(cx[j] == c, kd[j] == K_GADD, ar[j] == r, a2[j] == z3.Select(ge, j - nA), whG[r][a2[j]] == j)),
           patterns=[kd[j], ar[j], a2[j]]),
        FA([w], z3.Implies(z3.And(0 <= w, w < i), z3.And(whG[r][gw] == nA + w, kd[nA + w] == K_GADD, ar[nA + w] == r, a2[nA + w] == gw)),
           patterns=[gw])]
    return z3.And(base(E, Lc), *cs)


def _mod(E):
    return RR._mod(E) + ALL_GHOST


def _outer_mod(E, Lc):
    return RR._outer_mod(E, Lc) + ALL_GHOST


def _xadd_mod(base):
    return lambda E, Lc: base(E, Lc) + [_havoc("rru"), _havoc("rru_whX")]


_c_keep = RR.pcase_(Case("remove_orphans_false", ensures=_post), remove_orphans=TConc(False))
REG.add(Contract(MM, "Model.remove_reactions", "C03",
                 [("self", RR._model_t()), ("reactions", TList("ref:Reaction")), ("remove_orphans", TConc(False))],
                 [_c_keep], pre=_pre, modifies=_mod, key=KEY, props=["C03", "C02"],
                 loops={0: LoopSpec(_inv_outer, _outer_mod),
                        1: LoopSpec(_inv_members("_metabolites"), _xadd_mod(RR._met_mod)),
                        2: LoopSpec(_inv_members("_genes"), _xadd_mod(RR._gene_mod)),
                        4: LoopSpec(_inv_groups, lambda E, Lc: [("heap", "_members"), _havoc("rru"), _havoc("rru_whG")])},
                 note="a context is open (any depth; the stack holds managers); otherwise the preconditions of Model.remove_reactions: "
                      "the argument is a list of pairwise different members of model.reactions, each pointing at the model; "
                      "remove_orphans the literal False. objective.get_linear_coefficients is an ASSUMED external call (returns a "
                      "dictionary over the two variables or raises; when it raises no objective undo is registered); variable.name "
                      "uninterpreted; the list returned by Model.get_associated_groups is ASSUMED free of duplicates at the call site "
                      "(consequence of its proved post-condition for a well-formed model.groups, induction not carried out); "
                      "what Model.remove_cons_vars registers itself is that callee's business"))


# ---------------------------------------------------------------- glue lemma: the registered undos reverse the change
def _replayed(E, T, views):
    """What replaying the trace T on the exit state does to the four views (closed form: every undo of kind SETM / RADD / XADD / GADD
    writes ONE cell of ONE view with a constant - `_model[x] := model`, `x in model.reactions := True`, `x in y._reaction := True`,
    `x in g._members := True` - so the result does not depend on the order; POP and OBJ entries do not touch these views):
    a cell written by some entry holds the written value, a cell no entry writes is as at exit"""
    n, kd, ar, a2 = (T[f] for f in ("n", "kind", "arg", "arg2"))
    mo1, in1, R1, M1, mo_f, in_f, R_f, M_f = views
    me = RR._me(E)
    j, x, y = qv("rj"), qv("rx", Ref), qv("ry", Ref)
    in_n = z3.And(0 <= j, j < n)
    some = lambda K, *eqs: z3.Exists([j], z3.And(in_n, kd[j] == K, *eqs))  # noqa
    return [
        FA([j], z3.Implies(z3.And(in_n, kd[j] == K_SETM), mo_f[ar[j]] == me), patterns=[kd[j]]),
        FA([x], z3.Implies(mo_f[x] != mo1[x], some(K_SETM, ar[j] == x)), patterns=[mo_f[x]]),
        FA([j], z3.Implies(z3.And(in_n, kd[j] == K_RADD), in_f[ar[j]]), patterns=[kd[j]]),
        FA([x], z3.Implies(in1(x), in_f[x]), patterns=[in_f[x]]),
        FA([x], z3.Implies(z3.And(in_f[x], z3.Not(in1(x))), some(K_RADD, ar[j] == x)), patterns=[in_f[x]]),
        FA([j], z3.Implies(z3.And(in_n, kd[j] == K_XADD), R_f[a2[j]][ar[j]]), patterns=[kd[j]]),
        FA([y, x], z3.Implies(R1[y][x], R_f[y][x]), patterns=[R_f[y][x]]),
        FA([y, x], z3.Implies(z3.And(R_f[y][x], z3.Not(R1[y][x])), some(K_XADD, ar[j] == x, a2[j] == y)), patterns=[R_f[y][x]]),
        FA([j], z3.Implies(z3.And(in_n, kd[j] == K_GADD), M_f[a2[j]][ar[j]]), patterns=[kd[j]]),
        FA([y, x], z3.Implies(M1[y][x], M_f[y][x]), patterns=[M_f[y][x]]),
        FA([y, x], z3.Implies(z3.And(M_f[y][x], z3.Not(M1[y][x])), some(K_GADD, ar[j] == x, a2[j] == y)), patterns=[M_f[y][x]])]


def lemmas():
    """undo-restores: closed formulas over the very pre- and post-condition of the contract, on a synthetic pair of states"""
    from pyvc.engine import Engine, Obl, flatten_and
    from pyvc.state import State
    from pyvc.loops import havoc_locations
    eng = Engine(REG, HOOKS)
    st, a = State(), {}
    for name, t in (("self", RR._model_t()), ("reactions", TList("ref:Reaction")), ("remove_orphans", TConc(False))):
        st, a[name] = t.make(st, "lm_" + name)
    st = st.assume(*eng.kind_axioms(st))
    s1 = havoc_locations(eng, st, _mod(Env(a, st, eng=eng)))
    E = Env(a, st, s1, eng=eng)
    ids = idarr(E, st)

    def member(s):
        n_, e_ = L(s, RR._rxns(E, s))
        dom_, val_ = Dv(s, RR._rxns(E, s))
        return lambda v: z3.And(z3.Select(dom_, ids[v]), z3.Select(e_, z3.Select(val_, ids[v])) == v)
    in0, in1 = member(st), member(s1)
    mo0, mo1 = Hh(E, st, "_model"), Hh(E, s1, "_model")
    R0, R1 = Hh(E, st, "_reaction"), Hh(E, s1, "_reaction")
    M0, M1 = Hh(E, st, "_members"), Hh(E, s1, "_members")
    mo_f, in_f = z3.Const("lm_model_after_undo", mo0.sort()), z3.Const("lm_listed_after_undo", A_(Ref, B_))
    R_f, M_f = z3.Const("lm_reaction_after_undo", R0.sort()), z3.Const("lm_members_after_undo", M0.sort())
    hyps = list(st.pc) + list(s1.pc) + flatten_and(_pre(E)) + flatten_and(_post(E)) \
        + _replayed(E, gh(s1, "rru"), (mo1, in1, R1, M1, mo_f, in_f, R_f, M_f))
    x, y = qv("lx", Ref), qv("ly", Ref)
    goals = {"model-pointers": FA([x], mo_f[x] == mo0[x], patterns=[mo_f[x]]),
             "reactions-content": FA([x], in_f[x] == in0(x), patterns=[in_f[x]]),
             "back-references": FA([y, x], R_f[y][x] == R0[y][x], patterns=[R_f[y][x]]),
             "group-members": FA([y, x], M_f[y][x] == M0[y][x], patterns=[M_f[y][x]])}
    out = [Obl(f"C03/lemma/remove_reactions/undo-restores:{nm}", hyps, g, "lemma") for nm, g in goals.items()]
    # vacuity guard: the hypotheses must not be (cheaply) contradictory - `False` must NOT follow from them
    probe = z3.Solver()
    probe.set("timeout", 5000)
    probe.add(*hyps)
    if probe.check() == z3.unsat:
        raise RuntimeError("c02_remove_reactions_ctx.lemmas: contradictory hypotheses (vacuous lemma)")
    return out
