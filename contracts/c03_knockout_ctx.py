"""C03 / C07 — Reaction.knock_out and Gene.knock_out WITH a context open: what they register, and that replaying it restores.

Documented: Reaction.knock_out "Knockout reaction by setting its bounds to zero"; Gene.knock_out "Knockout gene by marking it as
non-functional and setting all associated reactions bounds to zero. The change is reverted upon exit if executed within the model as
context."  Neither function calls get_context itself: every registration is made by the `@resettable` wrapper around the setters
they go through (`Reaction.bounds`, `Gene.functional`).  The contracts of c07_knockout / c01_lp apply the setter BODIES and ignore
the wrapper; this module ADDS second contracts for the same functions (keys `Reaction.knock_out[context]`, `Gene.knock_out[context]`,
hook table HOOKS) in which an assignment `x.bounds = v` / `g.functional = v` means  wrapper THEN body:
    resettable.wrapper by its PROVED contract (contracts/c03_context.py, cases no_context / unchanged_value / changed_value, generic
    over the wrapped setter), instantiated for the attribute at hand:  no context open -> the body;  a context open and the current
    value equal to the new one -> nothing at all (early return);  otherwise partial(setter, x, OLD value) is pushed to the INNERMOST
    context of x's model (HistoryManager.__call__ by its contract: appended; recorded in a symbolic ghost trace), then the body;
    the body by its own proved contract (Reaction.bounds@setter of c01_lp, Gene.functional@setter of c07_knockout).
The instantiation of the generic wrapper contract (attribute name, getter = the inlined property getter, `==` on a pair of floats /
on bools) is a transcription, not a proof: ASSUMED.  The context stack is seen through two ghost views of `model._contexts`:
ctx_depth(m) and ctx_top(m) (get_context(x) for an object x of model m returns ctx_top(m) when ctx_depth(m) > 0, else None: its
proved contract, cases object_in_model:*); the knock-outs never touch the stack, so the views are constants of the call.

PROVED (loop of any length, any number of reactions per gene, any depth of the stack):
  Reaction.knock_out[context]   everything the no-context contract proves (bounds (0, 0), the variable bounds encode them, frame), and
      the trace: nothing is registered when no context is open or the bounds were (0, 0) already; otherwise EXACTLY ONE entry, in the
      innermost context, the bounds undo for this reaction carrying the ENTRY pair (lb, ub) - registered BEFORE the change.
  Gene.knock_out[context]       everything the no-context contract proves (the gene non-functional, every reaction of the gene whose
      rule is then false has bounds (0, 0), all other bounds as before), and the trace: entry 0 is the `functional` undo carrying True
      exactly when the gene was functional (nothing when it was not); then ONE bounds undo for every reaction x of the gene whose
      rule is false and whose ENTRY bounds are not (0, 0), carrying x's entry pair, and nothing else (witness map: position of x's
      entry; every bounds entry is THE entry of its reaction - nothing twice); every entry in the innermost context.
  lemmas() `knock_out/undo-restores:{reaction-contract,gene-contract}`: from the very post-conditions (synthetic states) and the
      closed form of the LIFO replay (contracts/c03_glue.py `closed-form/*`: entries are point writes of constants to pairwise
      different cells - one bounds entry per reaction, by the witness map): the replay gives back functional, lb and ub of EVERY
      object; the variable bounds then follow from C01's map F (c03_glue `resettable/bounds:*`).

  Reaction.{lower_bound,upper_bound,bounds}@setter[raise], Gene.functional@setter[raise]   the setter BODIES when they raise (lb > ub
      in the NaN-free extended reals; a non-bool value: int, None, str, float): ValueError and NOTHING has been changed - so the
      registration `resettable` made before the call has to undo the unchanged state, a no-op (c03_glue resettable/*).  Mutants:
      `_lower_bound` assigned before _check_bounds -> post.1, post.2, frame.1 (sat); `_functional` assigned before the type check ->
      undecided (cannot store a non-bool).

PRECONDITIONS (stated): those of the no-context contracts (valid bounds everywhere, well-formed rules), the receiver is in a model,
for Gene.knock_out every reaction of the gene points at the gene's model (C02 cross-reference invariant), the innermost manager is
not None.
NOT covered by a contract of its own: knock_out_model_genes in a context (one Gene.knock_out per gene plus reads: c03_glue
`undo-restores/sequence` composes the per-gene lemmas).

Mutation trials (tools/mutate_and_run.sh, none verifies):
  gene.py  `self.functional = False` -> `self._functional = False` (bypasses the wrapper) ........ Gene.knock_out[context] loop#0/inv-init.4, .5 (unknown: trace entry 0)
  gene.py  `if not reaction.functional:` -> `if reaction.functional:` ............................ loop#0/inv-preserve.3 (effect), .6, .7 (trace) (unknown)
  gene.py  `reaction.bounds = (0, 0)` -> `reaction._lower_bound = 0; reaction._upper_bound = 0` .. loop#0/inv-preserve.7 (unknown: the bounds entry is missing;
           the no-context invariant of c07_knockout alone does not notice this mutant)
  gene.py  `self.functional = False` moved AFTER the loop ........................................ loop#0/inv-init.1, .4, .5 (unknown)
  reaction.py knock_out `self.bounds = (0, 0)` -> `self.bounds = (0, 1)` .......................... Reaction.knock_out[context] post.4, post.6, post.8 (sat)
  reaction.py knock_out `self.bounds = (0, 0)` -> `self._lower_bound = 0; self._upper_bound = 0; self.update_variable_bounds()`  post.8 (sat: no registration)
"""
import z3
from .common import *  # noqa
from . import c01_lp as C1
from . import c03_context as C3  # noqa
from . import c07_knockout as K7
from pyvc.values import VReal, xr_eq

KEY_R, KEY_G = "Reaction.knock_out[context]", "Gene.knock_out[context]"
KEYS = [KEY_R, KEY_G]
I_, B_, R_ = z3.IntSort(), z3.BoolSort(), z3.RealSort()
ctx_depth = z3.Function("ctx_depth", Ref, I_)       # ghost view: len(model._contexts)
ctx_top = z3.Function("ctx_top", Ref, Ref)          # ghost view: model._contexts[-1]
K_FUN, K_BND = 1, 2
H = K7.H


def A_(d, r):
    return z3.ArraySort(d, r)


# the symbolic ghost trace: entry j < n = the registration, in manager ctx[j], of
#   kind 1  partial(Gene.functional.fset, who[j], ob[j])
#   kind 2  partial(Reaction.bounds.fset, who[j], ((olk[j], olv[j]), (ouk[j], ouv[j])))
FIELDS = (("n", I_), ("kind", A_(I_, I_)), ("who", A_(I_, Ref)), ("ctx", A_(I_, Ref)), ("ob", A_(I_, B_)),
          ("olk", A_(I_, I_)), ("olv", A_(I_, R_)), ("ouk", A_(I_, I_)), ("ouv", A_(I_, R_)))
_T0 = {nm: z3.Const("kot0_" + nm, srt) for nm, srt in FIELDS}
_T0["n"] = z3.IntVal(0)
_WH0 = z3.Const("kot_wh0", A_(Ref, I_))


def gh(st):
    return st.ghost.get("kot") or _T0


def wh(st):
    v = st.ghost.get("kot_wh")
    return v if v is not None else _WH0


GHOST_MOD = [("ghost", "kot", lambda st: {nm: fresh("kot_" + nm, srt) for nm, srt in FIELDS}),
             ("ghost", "kot_wh", lambda st: fresh("kot_wh", A_(Ref, I_)))]


def _mine(eng):
    return getattr(eng.cur_contract, "key", None) in KEYS


def _push(st, kind, who, ctx, ob=None, old=None):
    T = dict(gh(st))
    n = T["n"]
    T.update(n=n + 1, kind=z3.Store(T["kind"], n, z3.IntVal(kind)), who=z3.Store(T["who"], n, who), ctx=z3.Store(T["ctx"], n, ctx))
    if ob is not None:
        T["ob"] = z3.Store(T["ob"], n, ob)
    if old is not None:
        (lb, ub) = old
        T.update(olk=z3.Store(T["olk"], n, lb.k), olv=z3.Store(T["olv"], n, lb.v), ouk=z3.Store(T["ouk"], n, ub.k),
                 ouv=z3.Store(T["ouv"], n, ub.v))
    return st.setghost("kot", T).setghost("kot_wh", z3.Store(wh(st), who, n))


def has_ctx(eng, st, x):
    m = eng.heap_arr(st, "_model")[x]
    return z3.And(m != NULL, ctx_depth(m) > 0)


def setattr_hook(eng, st, v, name, val):
    """`x.bounds = v` / `g.functional = v`: resettable.wrapper (its proved contract, instantiated) then the setter body (its contract)"""
    if not _mine(eng) or not isinstance(v, VRef):
        return None
    if v.cls == "Reaction" and name == "bounds" and isinstance(val, VTuple) and len(val.items) == 2:
        lb0 = C1.hreal(Env({}, st, eng=eng), st, "_lower_bound", v.t)
        ub0 = C1.hreal(Env({}, st, eng=eng), st, "_upper_bound", v.t)
        nl, nu = eng.to_real(val.items[0]), eng.to_real(val.items[1])
        same = z3.And(xr_eq(lb0, nl), xr_eq(ub0, nu))                     # old_value == new_value on the pair
        body = "Reaction.bounds@setter"
        reg = lambda s, c: _push(s, K_BND, v.t, c, old=(lb0, ub0))  # noqa
    elif v.cls == "Gene" and name == "functional":
        new = val.t if isinstance(val, VBool) else (z3.BoolVal(val.py) if isinstance(val, VConc) and isinstance(val.py, bool) else None)
        if new is None:
            raise Unsupported("functional = <not a bool>")
        val = VBool(new)
        old = eng.heap_arr(st, "_functional")[v.t]
        same = old == new
        body = "Gene.functional@setter"
        reg = lambda s, c: _push(s, K_FUN, v.t, c, ob=old)  # noqa
    else:
        return None
    out = []
    m = eng.heap_arr(st, "_model")[v.t]
    for ctx, s1 in eng.branch(st, has_ctx(eng, st, v.t)):
        if ctx:
            for unchanged, s2 in eng.branch(s1, same):
                if unchanged:
                    out.append(("ok", s2, NONE))                       # "Don't clutter the context with unchanged variables"
                    continue
                s3 = reg(s2, ctx_top(m))                               # registered BEFORE the setter runs
                out.extend((k, s4, NONE if k == "ok" else x) for k, s4, x in eng.apply_contract(s3, eng.reg.get(body), [v, val], {}))
        else:
            out.extend((k, s4, NONE if k == "ok" else x) for k, s4, x in eng.apply_contract(s1, eng.reg.get(body), [v, val], {}))
    return out


HOOKS = chain_hooks({"setattr": setattr_hook}, K7.HOOKS)


# ---------------------------------------------------------------- Reaction.knock_out[context]
def _zero(lb, ub):
    z = VReal(0, 0)
    return z3.And(xr_eq(lb, z), xr_eq(ub, z))


def _bounds_entry(T, j, x, lb, ub, top):
    return z3.And(T["kind"][j] == K_BND, T["who"][j] == x, T["ctx"][j] == top,
                  T["olk"][j] == lb.k, T["ouk"][j] == ub.k, z3.Implies(lb.k == 0, T["olv"][j] == lb.v), z3.Implies(ub.k == 0, T["ouv"][j] == ub.v))


def _rko_base(E):
    return REG.get("Reaction.knock_out").cases[0].ensures(E)


def _rko_post_ctx(E):
    r = E["self"].t
    lb0, ub0 = C1.lbub(E, E.s0, r)
    T = gh(E.s1)
    top = ctx_top(H(E, E.s0, "_model")[r])
    return z3.And(_rko_base(E),
                  z3.If(_zero(lb0, ub0), T["n"] == 0, z3.And(T["n"] == 1, _bounds_entry(T, z3.IntVal(0), r, lb0, ub0, top))))


def _rko_post_plain(E):
    return z3.And(_rko_base(E), gh(E.s1)["n"] == 0)


REG.add(Contract(K7.MR, "Reaction.knock_out", "C03", [C1.RXN], [
    Case("in_context", requires=lambda E: has_ctx(E.eng, E.s0, E["self"].t), ensures=_rko_post_ctx),
    Case("no_context", requires=lambda E: z3.Not(has_ctx(E.eng, E.s0, E["self"].t)), ensures=_rko_post_plain),
], pre=lambda E: z3.And(C1._valid(E), z3.Implies(C1.model_of(E, E.s0, E["self"].t) != NULL,
                                                      C1.range_lemma(E, E.s0, E.s0, E["self"].t))),
    modifies=lambda E: C1.SET_MOD(E) + GHOST_MOD, key=KEY_R, props=["C03", "C07"],
    note="precondition beyond the no-context contract: the C01 invariant (the variable bounds encode [lb, ub]) holds at entry - "
         "needed because with bounds (0, 0) already and a context open the wrapper returns early and update_variable_bounds does "
         "NOT run; ``self.bounds = (0, 0)` = resettable.wrapper (proved contract, instantiated for `bounds`: ASSUMED transcription) then the "
         "setter body (proved, c01_lp); the context stack through the ghost views ctx_depth / ctx_top of model._contexts"))


# ---------------------------------------------------------------- Gene.knock_out[context]
def _g_model(E):
    return H(E, E.s0, "_model")[E["self"].t]


def _gko_pre(E):
    g, m = E["self"].t, _g_model(E)
    x = qv("px", Ref)
    rs = H(E, E.s0, "_reaction")[g]
    return z3.And(K7._all_valid(E, E.s0), K7._rules_ok(E, E.s0), m != NULL, ctx_depth(m) > 0, ctx_top(m) != NULL,
                  FA([x], z3.Implies(rs[x], H(E, E.s0, "_model")[x] == m), patterns=[rs[x]]))


def _trace_state(E, st, visited):
    """the registrations after the reactions selected by `visited` were handled"""
    g, m = E["self"].t, _g_model(E)
    rs = H(E, E.s0, "_reaction")[g]
    fun0 = H(E, E.s0, "_functional")
    T, W = gh(st), wh(st)
    n, kd, who = T["n"], T["kind"], T["who"]
    top = ctx_top(m)
    n0 = z3.If(fun0[g], 1, 0)
    j, y = qv("tj"), qv("ty", Ref)

    def new(v):
        lb0, ub0 = C1.lbub(E, E.s0, v)
        return z3.And(rs[v], visited(v), K7.rule_false(E, st, v), z3.Not(_zero(lb0, ub0)))
    x = who[j]
    lbx, ubx = C1.lbub(E, E.s0, x)
    return [n >= n0,
            z3.Implies(fun0[g], z3.And(kd[0] == K_FUN, who[0] == g, T["ctx"][0] == top, T["ob"][0])),
            FA([j], z3.Implies(z3.And(n0 <= j, j < n), z3.And(_bounds_entry(T, j, x, lbx, ubx, top), new(x), W[x] == j)), patterns=[kd[j]]),
            FA([y], z3.Implies(new(y), z3.And(n0 <= W[y], W[y] < n, who[W[y]] == y)), patterns=[W[y]])]


def _gko_post(E):
    return z3.And(K7._gko_post(E), *_trace_state(E, E.s1, lambda v: z3.BoolVal(True)))


def _gko_inv(E, Lc):
    _, order, pos = Lc.seq.src[:3]
    return z3.And(K7._gko_inv(E, Lc), *_trace_state(E, Lc.st, lambda v: pos[v] < Lc.i))


REG.add(Contract(K7.MG, "Gene.knock_out", "C03", [("self", TRef("Gene"))], [Case("in_context", ensures=_gko_post)],
                 pre=_gko_pre, axioms=lambda E: K7.sem_axioms(E, E.s0), modifies=lambda E: K7.KO_MOD(E) + GHOST_MOD, key=KEY_G,
                 props=["C03", "C07"],
                 loops={0: LoopSpec(_gko_inv, lambda E, Lc: [("heap", "_lower_bound"), ("heap", "_upper_bound"), ("heap", "var_lb"),
                                                             ("heap", "var_ub")] + GHOST_MOD)},
                 note="a context is open on the gene's model; the gene's reactions point at that model; assignments to `functional` / "
                      "`bounds` = resettable.wrapper (proved contract, instantiated: ASSUMED transcription) then the setter body (proved)"))



# ---------------------------------------------------------------- the setter BODIES when they raise: nothing has been changed
# (the state s' the `resettable` registration then has to undo is the state before the call: c03_glue CI/step with s' = s and the
# undo = setter(old value), a no-op by resettable/bounds:* with nothing arbitrary).  Within the NaN-free extended reals of c01_lp the
# only raising path of the three bounds setters is _check_bounds, BEFORE the first assignment; Gene.functional raises before its
# assignment for every non-bool.  (Outside this model - NaN, strings: optlang raises after the assignment - see c03_glue (3).)
def _nothing_changed(fields):
    def post(E):
        cs = []
        for f in fields:
            a0, a1 = E.eng.heap_arr(E.s0, f), E.eng.heap_arr(E.s1, f)
            if isinstance(a0, tuple):
                cs += [z3.BoolVal(True) if x.eq(y) else x == y for x, y in zip(a0, a1)]
            else:
                cs.append(z3.BoolVal(True) if a0.eq(a1) else a0 == a1)
        return z3.And(*cs)
    return post


_BF = ("_lower_bound", "_upper_bound", "var_lb", "var_ub")
RAISE_KEYS = []
for _name in ("lower_bound", "upper_bound", "bounds"):
    _c = REG.get(f"Reaction.{_name}@setter")
    _raising = [c for c in _c.cases if c.raises][0]
    _k = f"Reaction.{_name}@setter[raise]"
    REG.add(Contract(C1.M, f"Reaction.{_name}@setter", "C03", _c.params,
                     [Case("lb_gt_ub:nothing_changed", requires=_raising.requires, ensures=_nothing_changed(_BF), raises="ValueError")],
                     pre=(lambda c, r: (lambda E: z3.And(c.pre(E), r.requires(E))))(_c, _raising), modifies=C1.SET_MOD, key=_k, props=["C03"],
                     note="the raising case of the C01 contract with the post-condition `no bound and no variable bound has changed`"))
    RAISE_KEYS.append(_k)


def _fun_case(tag, t):
    c = Case(f"{tag}:ValueError_nothing_changed", ensures=_nothing_changed(("_functional",)), raises="ValueError")
    c.params_override = {"value": t}
    return c


REG.add(Contract(K7.MG, "Gene.functional@setter", "C03", [("self", TRef("Gene")), ("value", TInt())],
                 [_fun_case("int", TInt()), _fun_case("none", TNone()), _fun_case("str", TStr()), _fun_case("float", TReal())],
                 modifies=lambda E: [("heap", "_functional")], key="Gene.functional@setter[raise]", props=["C03"],
                 note="a value that is not a bool (an int such as 0 / 1, None, a str, a float): ValueError before the assignment"))
RAISE_KEYS.append("Gene.functional@setter[raise]")
KEYS = KEYS + RAISE_KEYS


# ---------------------------------------------------------------- glue: replaying the registered undos restores
def lemmas():
    """knock_out/undo-restores:{gene,reaction}-contract - hypotheses: the very pre- and post-condition of the contract on a synthetic
    pair of states; entry j of the innermost manager's history segment U is the undo the ghost trace describes, i.e. (ASSUMED: what
    the setter bodies do, by their proved contracts, seen as point writes) a `functional` entry writes the cell functional[who] with
    the recorded flag, a `bounds` entry writes lb[who] and ub[who] with the recorded pair, and neither touches another cell of these
    views; the closed form of the LIFO replay run(U, n, exit world) (statement of c03_glue `closed-form/ref->{bool,int,real}`, proved
    there by induction; its consistency hypothesis is DERIVED here from the witness map: one bounds entry per reaction).  Goal: in
    run(U, n, exit world) functional, lb and ub of EVERY object are those of the entry state.  The variable bounds follow per
    reaction from c03_glue `resettable/bounds:bounds` (each bounds undo ends with update_variable_bounds)."""
    from pyvc.engine import Engine, flatten_and
    from pyvc.state import State
    from pyvc.loops import havoc_locations
    from . import c03_glue as G
    out = []
    eng = Engine(REG, HOOKS)
    for tag, key, cls in (("gene", KEY_G, "Gene"), ("reaction", KEY_R, "Reaction")):
        con = REG.get(key)
        st, me = TRef(cls).make(State(), f"lk_{tag}_self")
        a = {"self": me}
        st = st.assume(*eng.kind_axioms(st))
        s1 = havoc_locations(eng, st, con.modifies(Env(a, st, eng=eng)))
        s1 = s1.assume(*eng.kind_axioms(s1))
        E = Env(a, st, s1, eng=eng)
        if tag == "gene":
            # (the first two conjuncts of the precondition - valid bounds everywhere, well-formed rules - are not needed here)
            spec = flatten_and(_gko_pre(E))[2:] + flatten_and(_gko_post(E))
        else:
            spec = flatten_and(con.pre(E)) + [has_ctx(eng, st, me.t)] + flatten_and(_rko_post_ctx(E))
        T = gh(s1)
        n, kd, who = T["n"], T["kind"], T["who"]
        U, w1 = z3.Const(f"lk_{tag}_U", G.SeqRef), z3.Const(f"lk_{tag}_world_exit", G.World)
        wf = G.run(U, n, w1)
        Vf, Vlk, Vlv, Vuk, Vuv = (G.View(f"ko_{tag}_{nm}", [Ref], srt) for nm, srt in
                                  (("fun", B_), ("lbk", I_), ("lbv", R_), ("ubk", I_), ("ubv", R_)))
        (lbk1, lbv1), (ubk1, ubv1) = H(E, s1, "_lower_bound"), H(E, s1, "_upper_bound")
        exit_views = [Vf.view(w1) == H(E, s1, "_functional"), Vlk.view(w1) == lbk1, Vlv.view(w1) == lbv1, Vuk.view(w1) == ubk1,
                      Vuv.view(w1) == ubv1]
        j, x = z3.Int("lk_j"), z3.Const("lk_x", Ref)
        u = U[j]
        link = z3.ForAll([j], z3.Implies(z3.And(0 <= j, j < n), z3.And(
            Vf.wr(u) == (kd[j] == K_FUN), Vf.cell[0](u) == who[j], Vf.val(u) == T["ob"][j],
            *[z3.And(V.wr(u) == (kd[j] == K_BND), V.cell[0](u) == who[j], V.val(u) == T[f][j])
              for V, f in ((Vlk, "olk"), (Vlv, "olv"), (Vuk, "ouk"), (Vuv, "ouv"))])), patterns=[U[j]])
        base = [(f"contract.{i}", f, False) for i, f in enumerate(spec)]
        base += [("the views of the exit world are the heap fields at exit", z3.And(*exit_views), True),
                 ("history entry j is the undo the ghost trace describes (point writes)", link, True)]
        lb0, ub0 = C1.lbub(E, st, x)
        parts = (("functional", (Vf,), Vf.view(wf)[x] == H(E, st, "_functional")[x], Vf.view(wf)[x]),
                 ("lower_bound", (Vlk, Vlv), xr_eq(VReal(Vlk.view(wf)[x], Vlv.view(wf)[x]), lb0), Vlk.view(wf)[x]),
                 ("upper_bound", (Vuk, Vuv), xr_eq(VReal(Vuk.view(wf)[x], Vuv.view(wf)[x]), ub0), Vuk.view(wf)[x]))
        for nm, views, body, pat in parts:
            hyps = base + [(f"lemma closed-form for view {V.tag}", z3.Implies(V.consistent(U, n), V.closed(U, n, w_from=w1)), True)
                           for V in views]
            G._lemma(out, f"knock_out/undo-restores:{tag}-contract:{nm}", hyps, z3.ForAll([x], body, patterns=[pat]))
    return out
