"""C06 (kernel) — deletion._get_growth / _reaction_deletion / _gene_deletion.

Ghost: `measured` records the reaction bounds (heap) in force at the moment growth and status are read.
Proved: inside the `with model:` block exactly the listed reactions are knocked out (bounds (0,0), every other reaction as
found) when growth and status are read; the values returned are the ones read there; the context opened by the function is
closed again (stack as found) and its undo history is replayed by __exit__.
"""
import z3
import cobra  # noqa
from .common import *  # noqa
from . import c01_lp as C1
from . import c03_context as C3
from . import c04_status as C4
from . import c15_dictlist  # noqa
from pyvc.values import VReal, xr_eq

MD = "cobra/flux_analysis/deletion.py"


def _model_t():
    return TObj("Model", {"_contexts": TList("ref:HistoryManager"), "_solver": C4.SOLVER_T(), "reactions": TDictList("Reaction"),
                          "genes": TDictList("Gene")})


def global_hook(eng, name):
    if name == "_get_growth":
        return VFunc("abstract", "_get_growth")
    return None


def call_abstract(eng, st, f, pos, kw):
    """_get_growth(model): reads growth and status (contract below); records the bounds in force (ghost)"""
    if f.a == "_get_growth":
        lb, ub = eng.heap_arr(st, "_lower_bound"), eng.heap_arr(st, "_upper_bound")
        from pyvc.values import xr_fresh
        g, c = xr_fresh("growth")
        s = VStr(fresh("status", Id))
        st2 = st.assume(c).setghost("measured", (lb, ub)).setghost("measured_values", (g, s))
        st2 = st2.setghost("measured_state", st2)        # the whole state in force (functional flags, for _gene_deletion)
        return [("ok", st2, VTuple((g, s)))]
    return None


HOOKS = chain_hooks({"global": global_hook, "call_abstract": call_abstract}, C3.ALL_HOOKS)

IDS = ("reaction_ids", TList("id"))


def _listed(E, x):
    """x is the reaction named by one of the ids"""
    n, e = L(E.s0, E["reaction_ids"])
    dl = E.s0.objs[E["model"].oid]["attr:reactions"]
    dom, val = Dv(E.s0, dl)
    _, re_ = L(E.s0, dl)
    j = qv("lj")
    return z3.Exists([j], z3.And(0 <= j, j < n, re_[val[e[j]]] == x))


def _listed_upto(E, x, t):
    n, e = L(E.s0, E["reaction_ids"])
    dl = E.s0.objs[E["model"].oid]["attr:reactions"]
    dom, val = Dv(E.s0, dl)
    _, re_ = L(E.s0, dl)
    j = qv("lj")
    return z3.Exists([j], z3.And(0 <= j, j < t, re_[val[e[j]]] == x))


def _all_known(E):
    n, e = L(E.s0, E["reaction_ids"])
    dl = E.s0.objs[E["model"].oid]["attr:reactions"]
    dom, val = Dv(E.s0, dl)
    j = qv("kj")
    return FA([j], z3.Implies(z3.And(0 <= j, j < n), z3.Select(dom, e[j])), patterns=[e[j]])


def _bounds_state(E, lbh, ubh, t):
    x = qv("bx", Ref)
    lb0, ub0 = C1.lbub(E, E.s0, x)
    lb1, ub1 = VReal(lbh[0][x], lbh[1][x]), VReal(ubh[0][x], ubh[1][x])
    zero = VReal(0, 0)
    return FA([x], z3.If(_listed_upto(E, x, t), z3.And(xr_eq(lb1, zero), xr_eq(ub1, zero)), z3.And(xr_eq(lb1, lb0), xr_eq(ub1, ub0))),
              patterns=[lbh[0][x]])


def _inv(E, Lc):
    st = Lc.st
    n, e = L(E.s0, E["reaction_ids"])
    dl = E.s0.objs[E["model"].oid]["attr:reactions"]
    dom, val = Dv(E.s0, dl)
    j = qv("ij")
    return z3.And(FA([j], z3.Implies(z3.And(0 <= j, j < Lc.i), z3.Select(dom, e[j])), patterns=[e[j]]),
                  _bounds_state(E, E.eng.heap_arr(st, "_lower_bound"), E.eng.heap_arr(st, "_upper_bound"), Lc.i))


def _pre(E):
    dl = E.s0.objs[E["model"].oid]["attr:reactions"]
    x = qv("px", Ref)
    lbk, lbv = E.eng.heap_arr(E.s0, "_lower_bound")
    ubk, ubv = E.eng.heap_arr(E.s0, "_upper_bound")
    from pyvc.values import xr_le
    lb, ub = VReal(lbk[x], lbv[x]), VReal(ubk[x], ubv[x])
    return z3.And(WF(E, E.s0, dl), C3._ctx_nonnull(Env({"obj": E["model"]}, E.s0, eng=E.eng)),
                  FA([x], z3.And(xr_le(lb, ub), lb.k != 1, ub.k != -1, C1.vars_distinct(x)), patterns=[lbk[x]]))


def _post(E):
    n, _ = L(E.s0, E["reaction_ids"])
    m = E.s1.ghost.get("measured")
    mv = E.s1.ghost.get("measured_values")
    res = E.res
    if m is None or mv is None or not (isinstance(res, VTuple) and len(res.items) == 3):
        return z3.BoolVal(False)
    n0, e0 = C3._ctxs(E.s0, E["model"])
    n1, e1 = C3._ctxs(E.s1, E["model"])
    j = qv("sj")
    same_ids = z3.BoolVal(isinstance(res.items[0], VObj) and res.items[0].oid == E["reaction_ids"].oid)
    return z3.And(_bounds_state(E, m[0], m[1], n),                                   # measured with exactly the listed reactions at (0,0)
                  same_ids, xr_eq(res.items[1], mv[0]), res.items[2].t == mv[1].t,   # returns what was read there
                  n1 == n0, FA([j], z3.Implies(z3.And(0 <= j, j < n0), e1[j] == e0[j])))   # its own context closed again


def _mod(E):
    return [("heap", "_lower_bound"), ("heap", "_upper_bound"), ("heap", "var_lb"), ("heap", "var_ub"), ("heap", "hm_len"),
            ("attr", E["model"], "_contexts", lambda st: alloc_list_hm(st)), ("ghost", "world", lambda st: fresh("world", C3.World)),
            ("ghost", "measured", lambda st: None), ("ghost", "measured_values", lambda st: None),
            ("ghost", "measured_state", lambda st: None)]


def alloc_list_hm(st):
    from pyvc.state import alloc_list
    return alloc_list(st, "ref:HistoryManager")


_c_ok = Case("all_ids_known", requires=_all_known, ensures=_post)
_c_bad = Case("unknown_id", requires=lambda E: z3.Not(_all_known(E)), raises="KeyError")
_c_bad.modifies_on_raise = _mod
REG.add(Contract(MD, "_reaction_deletion", "C06", [("model", _model_t()), IDS], [_c_ok, _c_bad], pre=_pre, modifies=_mod,
                 key="_reaction_deletion", axioms=lambda E: C3.run_axioms(), props=["C06", "C14"],
                 loops={0: LoopSpec(_inv, lambda E, Lc: [("heap", "_lower_bound"), ("heap", "_upper_bound"), ("heap", "var_lb"), ("heap", "var_ub")])}))


# ---------------------------------------------------------------- _get_growth (body)
from pyvc import npalg as N  # noqa


def _gg_model():
    sol = TObj("Solver", {"status": TStr(), "objective": C4.OBJ_T(), "variables": N.TNp()})
    return TObj("Model", {"_solver": sol})


def contains_hook(eng, st, cont, item):
    if isinstance(cont, N.VNp):
        return [("ok", st, VBool(N.truthy(N.app("contains", cont, item).t)))]
    return None


HOOKS_GG = chain_hooks({"contains": contains_hook}, N.HOOKS)


def _has_moma(E):
    sol = E.s0.objs[E["model"].oid]["attr:_solver"]
    v = E.s0.objs[sol.oid]["attr:variables"]
    return N.truthy(N.term("contains", v.t, N.lift(VConc("moma_old_objective"))))


def _gg_post_plain(E):
    """FBA: growth is the objective value iff the status is optimal, otherwise the NaN error value; status is the solver's"""
    res = E.res
    if not (isinstance(res, VTuple) and len(res.items) == 2 and isinstance(res.items[0], VReal)):
        return z3.BoolVal(False)
    nan = VReal(0, z3.Real("NaN_const"))
    opt = C4._is_status(C4.status_of(E.s1, E["model"]), "optimal")
    return z3.And(z3.If(opt, xr_eq(res.items[0], C4.value_of(E.s1, E["model"])), xr_eq(res.items[0], nan)),
                  unwrap(res.items[1], "id") == C4.status_of(E.s1, E["model"]).t)


def _gg_post_moma(E):
    """linear MOMA: the primal of moma_old_objective iff the status is optimal, NaN otherwise (from the statement: growth is the
    original objective's value at the minimal-adjustment solution - there is none unless the solve is optimal)"""
    res = E.res
    if not (isinstance(res, VTuple) and len(res.items) == 2):
        return z3.BoolVal(False)
    sol = E.s0.objs[E["model"].oid]["attr:_solver"]
    v = E.s0.objs[sol.oid]["attr:variables"]
    want = N.term("attr.primal", N.term("attr.moma_old_objective", v.t))
    opt = C4._is_status(C4.status_of(E.s1, E["model"]), "optimal")
    status_ok = unwrap(res.items[1], "id") == C4.status_of(E.s1, E["model"]).t
    g = res.items[0]
    if isinstance(g, N.VNp):
        return z3.And(opt, g.t == want, status_ok)
    if isinstance(g, VReal):
        return z3.And(z3.Not(opt), xr_eq(g, VReal(0, z3.Real("NaN_const"))), status_ok)
    return z3.BoolVal(False)


REG.add(Contract(MD, "_get_growth", "C06", [("model", _gg_model())], [
    Case("fba", requires=lambda E: z3.Not(_has_moma(E)), ensures=_gg_post_plain),
    Case("moma", requires=_has_moma, ensures=_gg_post_moma),
], modifies=lambda E: C4._slim_mod(Env({"self": E["model"]}, E.s0, eng=E.eng)), key="_get_growth"))


# ---------------------------------------------------------------- _gene_deletion
# Same shape as _reaction_deletion, with the gene-level effect proved in C07: at the moment growth and status are read exactly the
# listed genes have become non-functional and a reaction has bounds (0,0) exactly when it belongs to a listed gene and its rule is
# false with its non-functional genes absent; every other reaction has the bounds it had at entry.
from . import c07_knockout as C7  # noqa

GIDS = ("gene_ids", TList("id"))


def _g_elem(E, j):
    """the gene named by the j-th id"""
    _, e = L(E.s0, E["gene_ids"])
    dl = E.s0.objs[E["model"].oid]["attr:genes"]
    dom, val = Dv(E.s0, dl)
    _, ge = L(E.s0, dl)
    return ge[val[e[j]]]


def _g_known(E, t=None):
    n, e = L(E.s0, E["gene_ids"])
    dl = E.s0.objs[E["model"].oid]["attr:genes"]
    dom, val = Dv(E.s0, dl)
    j = qv("kj")
    return FA([j], z3.Implies(z3.And(0 <= j, j < (n if t is None else t)), z3.Select(dom, e[j])), patterns=[e[j]])


def _g_state(E, fun, lbh, ubh, st_rule, t):
    """effect of knocking out the first t listed genes, on the given functional / bounds arrays (rule truth read in st_rule)"""
    g, x, j, j2 = qv("sg", Ref), qv("sx", Ref), qv("sj"), qv("sj2")
    fun0 = C7.H(E, E.s0, "_functional")
    R0 = C7.H(E, E.s0, "_reaction")
    in_upto = z3.Exists([j], z3.And(0 <= j, j < t, _g_elem(E, j) == g))
    touched = z3.Exists([j2], z3.And(0 <= j2, j2 < t, R0[_g_elem(E, j2)][x]))
    lb0, ub0 = C1.lbub(E, E.s0, x)
    lb1, ub1 = VReal(lbh[0][x], lbh[1][x]), VReal(ubh[0][x], ubh[1][x])
    zero = VReal(0, 0)
    return z3.And(FA([g], fun[g] == z3.And(fun0[g], z3.Not(in_upto)), patterns=[fun[g]]),
                  FA([x], z3.If(z3.And(touched, C7.rule_false(E, st_rule, x)), z3.And(xr_eq(lb1, zero), xr_eq(ub1, zero)),
                                z3.And(xr_eq(lb1, lb0), xr_eq(ub1, ub0))), patterns=[lbh[0][x]]))


def _g_inv(E, Lc):
    st = Lc.st
    return z3.And(_g_known(E, Lc.i), C7._all_valid(E, st),
                  _g_state(E, C7.H(E, st, "_functional"), E.eng.heap_arr(st, "_lower_bound"), E.eng.heap_arr(st, "_upper_bound"), st, Lc.i))


def _g_pre(E):
    dl = E.s0.objs[E["model"].oid]["attr:genes"]
    return z3.And(WF(E, E.s0, dl), C3._ctx_nonnull(Env({"obj": E["model"]}, E.s0, eng=E.eng)),
                  C7._all_valid(E, E.s0), C7._rules_ok(E, E.s0), C7._xref_ok(E, E.s0))


HOOKS_G = chain_hooks(HOOKS, C7.HOOKS)


def _g_post(E):
    n, _ = L(E.s0, E["gene_ids"])
    ms = E.s1.ghost.get("measured_state")
    mv = E.s1.ghost.get("measured_values")
    res = E.res
    if ms is None or mv is None or not (isinstance(res, VTuple) and len(res.items) == 3):
        return z3.BoolVal(False)
    n0, e0 = C3._ctxs(E.s0, E["model"])
    n1, e1 = C3._ctxs(E.s1, E["model"])
    j = qv("sj")
    same_ids = z3.BoolVal(isinstance(res.items[0], VObj) and res.items[0].oid == E["gene_ids"].oid)
    return z3.And(_g_state(E, C7.H(E, ms, "_functional"), E.eng.heap_arr(ms, "_lower_bound"), E.eng.heap_arr(ms, "_upper_bound"), ms, n),
                  same_ids, xr_eq(res.items[1], mv[0]), res.items[2].t == mv[1].t,
                  n1 == n0, FA([j], z3.Implies(z3.And(0 <= j, j < n0), e1[j] == e0[j])))


def _g_mod(E):
    return _mod(E) + [("heap", "_functional")]


_g_ok = Case("all_ids_known", requires=lambda E: _g_known(E), ensures=_g_post)
_g_bad = Case("unknown_id", requires=lambda E: z3.Not(_g_known(E)), raises="KeyError")
_g_bad.modifies_on_raise = _g_mod
REG.add(Contract(MD, "_gene_deletion", "C06", [("model", _model_t()), GIDS], [_g_ok, _g_bad], pre=_g_pre, modifies=_g_mod,
                 key="_gene_deletion", props=["C06", "C14"],
                 axioms=lambda E: C3.run_axioms() + C7.sem_axioms(E, E.s0) + C7.nf_axiom() + C7.sem_mono_axioms(),
                 loops={0: LoopSpec(_g_inv, lambda E, Lc: C7.KO_MOD(E))}))


# ---------------------------------------------------------------- pool workers (C14): the task as the Pool runs it
# _init_worker(model) stores the worker's private model in the module global; _reaction_deletion_worker(ids) /
# _gene_deletion_worker(ids) run _reaction_deletion / _gene_deletion ON THAT MODEL with exactly the ids of the task and return its
# result unchanged - so everything proved for the two functions (measured with exactly the listed knock-outs, own context closed,
# nothing stale reported) holds for every task of the parallel path as well.
def _iw_del_post(E):
    return z3.BoolVal(E.s1.ghost.get(("global", "_model")) is E["model"])


REG.add(Contract(MD, "_init_worker", "C14", [("model", _model_t())], [Case("any", ensures=_iw_del_post)],
                 modifies=lambda E: [("ghost", ("global", "_model"), lambda st: E["model"])], key="deletion._init_worker"))


def _worker_hook_global(eng, name):
    if name in ("_reaction_deletion", "_gene_deletion"):
        return VFunc("abstract", name)
    return None


def _worker_call_abstract(eng, st, f, pos, kw):
    if f.a in ("_reaction_deletion", "_gene_deletion"):
        out = VTuple((pos[1], VReal(fresh("wg_k", z3.IntSort()), fresh("wg_v", z3.RealSort())), VStr(fresh("wstatus", Id))))
        return [("ok", st.setghost("worker_call", (f.a, tuple(pos), dict(kw), out)), out)]
    return None


HOOKS_W = {"global": _worker_hook_global, "call_abstract": _worker_call_abstract}


def _worker_post(fn):
    def post(E):
        c = E.s1.ghost.get("worker_call")
        if c is None:
            return z3.BoolVal(False)
        name, pos, kw, out = c
        return z3.BoolVal(name == fn and len(pos) == 2 and pos[0] is E["_model"] and pos[1] is E["ids"] and not kw and E.res is out)
    return post


for _w, _fn in (("_reaction_deletion_worker", "_reaction_deletion"), ("_gene_deletion_worker", "_gene_deletion")):
    REG.add(Contract(MD, _w, "C14", [("ids", TList("id")), ("_model", _model_t())], [Case("any", ensures=_worker_post(_fn))],
                     modifies=lambda E: [("ghost", "worker_call", lambda st: None)], key=_w,
                     note="`_model` is the module global set by _init_worker (pseudo-parameter)"))
