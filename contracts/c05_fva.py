"""C05 / C14 (kernel) — _fva_step: one flux-variability step.

Ghost state: objc = the linear coefficients of the solver objective (Variable -> Real), solved_with = the coefficient map the
LP was solved with at the last optimize().  Proved: on normal return the LP was solved with objective  +1*forward -1*reverse
of the requested reaction added to the entry objective, the returned value is the solver's objective value, the returned id is
the requested one, and EVERY objective coefficient is what it was at entry (given the two coefficients were 0 at entry - the
sweep's prelude sets the objective to zero) - the frame that makes steps independent of order and of the worker they run in.
"""
import z3
import cobra  # noqa
from .common import *  # noqa
from . import c15_dictlist  # noqa  (DictList contracts used at call sites)
from . import c01_lp as C1
from . import c04_status as C4
from pyvc.values import VReal, xr_eq

MV = "cobra/flux_analysis/variability.py"
CoefMap = z3.ArraySort(Ref, z3.RealSort())


def objc(st):
    return st.ghost.get("objc", z3.Const("objc0", CoefMap))


def solved_with(st):
    return st.ghost.get("solved_with", z3.Const("solved_with0", CoefMap))


def _model_t():
    return TObj("Model", {"_solver": C4.SOLVER_T(), "reactions": TDictList("Reaction")})


# objective.set_linear_coefficients({var: coef, ...})  (assumed, optlang)
def _slc_post(E):
    d = E.s0.objs[E["coefficients"].oid]
    o0, o1 = objc(E.s0), objc(E.s1)
    x = qv("cx", Ref)
    val = z3.Select(d["val"], x)
    val = z3.ToReal(val) if d["vkind"] == "int" else val
    return FA([x], o1[x] == z3.If(z3.Select(d["dom"], x), val, o0[x]), patterns=[o1[x]])


REG.add(Contract("optlang/interface.py", "Objective.set_linear_coefficients", "C05",
                 [("self", C4.OBJ_T()), ("coefficients", TDict("ref:Variable", "int"))], [Case("any", ensures=_slc_post)],
                 assumed=True, key="Objective.set_linear_coefficients",
                 modifies=lambda E: [("ghost", "objc", lambda st: fresh("objc", CoefMap))],
                 note="optlang Objective.set_linear_coefficients: sets exactly the given coefficients"))

# Model.slim_optimize as seen here: additionally records the objective the LP was solved with (ghost)
_base = REG.get("Model.slim_optimize")


def call_method_hook(eng, st, recv, name, pos, kw):
    if isinstance(recv, VObj) and recv.cls == "Model" and name == "slim_optimize":
        outs = eng.apply_contract(st, _base, [recv] + list(pos), kw)
        return [(k, s.setghost("solved_with", objc(s)), v) for k, s, v in outs]
    return None


HOOKS = {"call_method": call_method_hook}


def _rxn(E):
    """the reaction looked up by id (view of DictList.get_by_id)"""
    m = E["_model"]
    dl = E.s0.objs[m.oid]["attr:reactions"]
    dom, val = Dv(E.s0, dl)
    n, e = L(E.s0, dl)
    return e[val[E["reaction_id"].t]]


def _known(E):
    dl = E.s0.objs[E["_model"].oid]["attr:reactions"]
    return z3.Select(Dv(E.s0, dl)[0], E["reaction_id"].t)


def _pre(E):
    dl = E.s0.objs[E["_model"].oid]["attr:reactions"]
    r = _rxn(E)
    return z3.And(WF(E, E.s0, dl), z3.Implies(_known(E), z3.And(C1.model_of(E, E.s0, r) != NULL,
                                                               objc(E.s0)[C1.fwd(r)] == 0, objc(E.s0)[C1.rev(r)] == 0)))


def _post(E):
    r = _rxn(E)
    o0 = objc(E.s0)
    want = z3.Store(z3.Store(o0, C1.fwd(r), z3.RealVal(1)), C1.rev(r), z3.RealVal(-1))
    x = qv("ox", Ref)
    res = E.res
    ok_shape = isinstance(res, VTuple) and len(res.items) == 2 and isinstance(res.items[1], VReal)
    if not ok_shape:
        return z3.BoolVal(False)
    return z3.And(unwrap(res.items[0], "id") == E["reaction_id"].t,
                  xr_eq(res.items[1], C4.value_of(E.s1, E["_model"])),
                  FA([x], solved_with(E.s1)[x] == want[x]),            # solved: max/min of forward - reverse (+ entry objective)
                  FA([x], objc(E.s1)[x] == o0[x]))                      # every coefficient as at entry


def _mod(E):
    return C4._slim_mod(Env({"self": E["_model"]}, E.s0, eng=E.eng)) + [
        ("ghost", "objc", lambda st: fresh("objc", CoefMap)), ("ghost", "solved_with", lambda st: fresh("solved", CoefMap))]


def _step_result(eng, st, E):
    """at a call site: the pair (requested id, a value) - the post-condition ties the value to the solver's objective value"""
    from pyvc.values import xr_fresh
    v, c = xr_fresh("step_value")
    return st.assume(c), VTuple((E["reaction_id"], v))


_c1 = Case("known_reaction", requires=_known, ensures=_post)
_c1.result = _step_result
_c1.may_raise = "OptimizationError"           # status without primal values: the caller aborts inside `with model`
_c1.ensures_on_raise = lambda E: z3.BoolVal(True)
_c1.modifies_on_raise = _mod
_c2 = Case("unknown_id", requires=lambda E: z3.Not(_known(E)), raises="KeyError")
REG.add(Contract(MV, "_fva_step", "C05", [("reaction_id", TStr()), ("_model", _model_t()), ("_loopless", TConc(False))],
                 [_c1, _c2], pre=_pre, modifies=_mod, key="_fva_step", props=["C05", "C14"]))
REG.classes["Reaction"] = ["Object"]
