"""C01 — Model._populate_solver(reaction_list, metabolite_list=None): how every reaction reaches the LP.

Contract key: "Model._populate_solver"      hook table: HOOKS      (cases: with_metabolite_list / reactions_only)

GHOST MODEL OF THE SOLVER (optlang is external: everything about it is ASSUMED and listed here)
  V : Id -> Ref    ghost "lpV": model.variables, an optlang Container keyed by name (NULL = no variable of that name)
  C : Id -> Ref    ghost "lpC": model.constraints, likewise
  A : Ref -> Ref -> Real   ghost "A" (the matrix of contracts/c03_context.py): A[c][v] = coefficient of variable v in constraint c
  heap fields of solver objects: opt_name (optlang `name`), var_lb / var_ub (Variable bounds, c01_lp; None = -inf / +inf),
  con_lb / con_ub (Constraint bounds), lp_alive (the object exists: allocation flag), lp_seq (the object was the n-th one handed
  to add_cons_vars, ghost counter "lp_cnt": the order of the additions)
  stoich_dom(r)[m] / stoich_val(r)[m]: `reaction.metabolites` (a copy of the dict `_metabolites`) read as a finite map that is a
  function of the reaction OBJECT (the function does not write it), iterated in an arbitrary ghost enumeration
  stoich_order(r) / stoich_pos(r) / stoich_card(r) (bijection, as for sets); coefficients are finite reals.
  ASSUMED behaviour of the external calls (hooks below):
    problem.Variable(name)                  a NEW object (not None, lp_alive false before), named `name`, bounds as given (none = unbounded)
    problem.Constraint(Zero, name=, lb=, ub=)   a NEW object, named `name`, bounds as given (None = unbounded); a Zero expression only
    convention: A has the entry 0 wherever the row constraint or the column variable does not exist yet (precondition), i.e. a new
                variable / a new Constraint(Zero) comes with an all-zero column / row - creation does not change A
    add_cons_vars(x) / add_cons_vars([..])  registers the objects under their names (V resp. C); obligation at the call: no name is
                registered already, the names handed over in one call are pairwise different (optlang would raise otherwise)
    name in container / container[name]     by the ghost maps (KeyError when absent)
    reaction.forward_variable / reverse_variable   the real getters: None without a model, else model.variables[id] / [reverse_id]
    reaction.reverse_id = reverse_id_of(id) (c02_rename), injective, never the id of a listed reaction (`has_reverse_shape`)
    constraint.set_linear_coefficients(d)   A[constraint][v] := d[v] for the keys of d, no other entry changes (as in c03_context)
    AutoVivification                        a dict of dicts: T[c][v]; `T[c]` creates the row c, `T[c][v] = x` stores (solver objects
                                            are dictionary keys by IDENTITY)
    solver.update()                         recorded (with the state it happened in)
    Reaction.update_variable_bounds         NOT assumed: its PROVED contract (c01_lp) is applied at the call site; the link between the
                                            abstraction of c01_lp and this ghost model, fwd(r) = V[id r], rev(r) = V[reverse id r], is
                                            assumed in the state of the call (it is what the assumed getters of c01_lp say in words)

PROVED, for lists of any length (two nested loops + three more, each under a hand invariant), from the stated precondition
  every listed reaction belongs to this model and is listed in its well-formed `reactions` DictList under its id, has valid bounds
  (lb <= ub, lb < +inf, ub > -inf), unique metabolite ids within its stoichiometry, an id without reverse shape, and either both
  or none of its two variables; the containers V, C are keyed by the names of existing objects; the identifiers of the given
  metabolite_list are pairwise different and name no constraint yet (the callers' situation: a fresh solver):
  (1) metabolite_list: the FIRST solver call is one add_cons_vars(list) made before any variable exists, with exactly one new
      constraint per metabolite, in order (the j-th metabolite's constraint is the j-th object ever handed over, lp_seq = j): name =
      the metabolite's id, lb = ub = 0 (Zero expression), registered under that id
      (note: the code creates it unconditionally - an id that already names a constraint is excluded by the precondition);
  (2) every listed reaction has afterwards a forward variable registered and named by its id and a different reverse variable
      registered and named by its reverse id; a name that was registered at entry keeps its object (the re-use branch of a
      reverted removal), otherwise the object is new and the two were handed over together, the forward variable immediately before
      the reverse one (lp_seq); NOTE the variables are created by Variable(name) WITHOUT bounds - their lower
      bound 0 is established by (3), not at creation;
  (3) update_variable_bounds ran for every listed reaction after solver.update(): the range lemma RangeOK of c01_lp holds for its
      bounds and its two variables, whose lower bounds are finite and >= 0; no other EXISTING variable's bounds changed;
  (4) for every listed reaction r and EVERY metabolite m of its stoichiometry with coefficient c: a constraint row(m) is registered
      and named by m's id (the one registered at entry if any, else a new one with lb = ub = 0), and
      A1[row(m)][forward(r)] = c and A1[row(m)][reverse(r)] = -c; every other entry of A is as at entry (hence 0 for new objects);
  (5) frame: V and C only grow, and only by the names above; existing solver objects keep name and bounds (except (3)); exactly one
      solver.update(), after all additions and before any bound or coefficient is written; the model's own objects (reactions
      DictList, ids, bounds, model pointers, both argument lists) are unchanged (engine frame).
Lemma (`lemmas()`): the two entries of a row are the coefficient times the net flux, c*f + (-c)*b = c*(f - b).
Mutation trials (tools/mutate_and_run.sh, each breaks the obligation named): reverse coefficient +c -> loop#2/inv-preserve.16 (entries of
the metabolites enumerated so far); `break` after the first metabolite -> loop#1/inv-preserve.17 (EVERY metabolite of the reactions done);
reverse variable created with the forward name -> call:add_cons_vars/name-not-registered~2; update_variable_bounds skipped ->
loop#3/inv-preserve.1; Constraint(.., ub=None) -> loop#0/inv-preserve.3 resp. loop#2/inv-preserve.11; a missing constraint not added ->
loop#2/inv-preserve.16/.17; solver.update() removed -> post; [reverse, forward] handed over in the other order -> loop#1/inv-preserve.24;
forward coefficient -c -> loop#2/inv-preserve.16; set_linear_coefficients skipped -> loop#4/inv-preserve.2.
NOT covered: a reaction_list holding reactions of another model / not in `self.reactions` (the body then re-reads
`self.reactions.get_by_id`), names optlang refuses, the position of the constraints added INSIDE the reaction loop relative to the
variables (per reaction: its two variables, then each missing constraint when first met - visible in the code, not stated; what is
stated: they all come after the first call, the given metabolites' constraints before every variable).
"""
import z3
from .common import *  # noqa
from . import c15_dictlist  # noqa  (DictList.get_by_id)
from . import c01_lp as C1
from . import c03_context as C3
from . import c02_rename as C2R
from pyvc.values import ident_of, VReal, xr_eq
from pyvc.state import alloc_dict, alloc_obj

MM = "cobra/core/model.py"
KEY = "Model._populate_solver"
REG.fields.update({"opt_name": "id", "con_lb": "real", "con_ub": "real", "lp_alive": "bool", "lp_seq": "int", "_model": "ref:Model",
                   "var_lb": "real", "var_ub": "real"})
for _cls in ("Variable", "Constraint", "LPVariables", "LPConstraints", "LPInterface", "LPSolver", "AVRow", "AutoVivification"):
    REG.classes.setdefault(_cls, [])

RefBool = z3.ArraySort(Ref, z3.BoolSort())
RefReal = z3.ArraySort(Ref, z3.RealSort())
NameMap = z3.ArraySort(Id, Ref)
S_dom = z3.Function("stoich_dom", Ref, RefBool)
S_val = z3.Function("stoich_val", Ref, RefReal)
S_ord = z3.Function("stoich_order", Ref, z3.ArraySort(I, Ref))
S_pos = z3.Function("stoich_pos", Ref, z3.ArraySort(Ref, I))
S_card = z3.Function("stoich_card", Ref, I)
REVID = C2R.REVID
REVINV = z3.Function("reverse_id_inverse", Id, Id)
is_rev = z3.Function("has_reverse_shape", Id, z3.BoolSort())
V_ENTRY, C_ENTRY = z3.Const("lpV_entry", NameMap), z3.Const("lpC_entry", NameMap)
TD_NONE = z3.K(Ref, z3.K(Ref, z3.BoolVal(False)))
TV_NONE = z3.K(Ref, z3.K(Ref, z3.RealVal(0)))
TK_NONE = z3.K(Ref, z3.BoolVal(False))
ZERO = VConc(("lp", "Zero"))


def Vm(st):
    return st.ghost.get("lpV", V_ENTRY)


def Cm(st):
    return st.ghost.get("lpC", C_ENTRY)


def Tdom(st):
    return st.ghost.get("ct_dom", TD_NONE)


def Tval(st):
    return st.ghost.get("ct_val", TV_NONE)


def Tkeys(st):
    return st.ghost.get("ct_keys", TK_NONE)


def count(st):
    """ghost: how many solver objects have been handed to add_cons_vars so far (the n-th one gets lp_seq = n)"""
    return st.ghost.get("lp_cnt", z3.IntVal(0))


def calls(st):
    return st.ghost.get("lp_calls", ())


def stoich_axioms(r):
    """the ghost enumeration of reaction.metabolites: order : [0, card) -> metabolites, bijective onto the key set"""
    dom, order, pos, n = S_dom(r), S_ord(r), S_pos(r), S_card(r)
    i, k = qv("si"), qv("sk", Ref)
    return [n >= 0,
            FA([i], z3.Implies(z3.And(0 <= i, i < n), z3.And(z3.Select(dom, order[i]), pos[order[i]] == i)), patterns=[order[i]]),
            FA([k], z3.Implies(z3.Select(dom, k), z3.And(0 <= pos[k], pos[k] < n, order[pos[k]] == k)),
               patterns=[pos[k], z3.Select(dom, k)])]


# ================================================================ hooks: what the external objects mean
def _entry_self(eng):
    m = (getattr(eng, "entry_args", None) or {}).get("self")
    return m if isinstance(m, VObj) and m.cls == "Model" else None


def global_hook(eng, name):
    if name == "Zero":
        return ZERO
    if name == "AutoVivification":
        return VFunc("abstract", "AutoVivification")
    return None


def _lookup_variable(eng, st, r, reverse):
    """the getters Reaction.forward_variable / reverse_variable: `model.variables[id]` / `[reverse_id]` of the reaction's model, which
    is obliged to be the model under verification (the getters return None for a reaction without a model)"""
    me = _entry_self(eng)
    mo = eng.heap_arr(st, "_model")[r]
    ida = eng.heap_arr(st, "_id")
    eng.oblige(st, mo == ident_of(me.oid), "variable-getter/reaction-of-this-model", kind="side")
    st = st.assume(mo == ident_of(me.oid))
    k = REVID(ida[r]) if reverse else ida[r]
    return [("ok", s2, VRef(Vm(s2)[k], "Variable")) if has else eng.raise_(s2, "KeyError") for has, s2 in eng.branch(st, Vm(st)[k] != NULL)]


def getattr_hook(eng, st, v, name):
    if isinstance(v, VRef) and v.cls == "Reaction":
        if name == "reverse_id":
            return [("ok", st, VStr(REVID(eng.heap_arr(st, "_id")[v.t])))]
        if name == "metabolites":
            r = v.t
            st2, d = alloc_dict(st, "ref:Metabolite", "real", dom=S_dom(r), val=S_val(r))
            st2 = st2.assume(*stoich_axioms(r)).setghost(("order", d.oid, S_dom(r).get_id()), (S_ord(r), S_pos(r), S_card(r)))
            return [("ok", st2, d)]
        if name in ("forward_variable", "reverse_variable") and _entry_self(eng) is not None:
            return _lookup_variable(eng, st, v.t, name == "reverse_variable")
    if isinstance(v, VRef) and v.cls == "LPInterface" and name in ("Variable", "Constraint"):
        return [("ok", st, VFunc("abstract", "lp." + name))]
    if isinstance(v, VObj) and v.cls == "AutoVivification" and name == "items":
        return [("ok", st, VFunc("bound", v, "items"))]
    if isinstance(v, VRef) and (v.cls, name) in (("LPSolver", "update"), ("Constraint", "set_linear_coefficients")):
        return [("ok", st, VFunc("bound", v, name))]
    return None


def _new_object(eng, st, base):
    """allocation (ASSUMED): the new object is not None and did not exist before"""
    x = fresh(base, Ref)
    alive = eng.heap_arr(st, "lp_alive")
    st = st.assume(x != NULL, z3.Not(alive[x]))
    return st.setheap("lp_alive", z3.Store(alive, x, z3.BoolVal(True))), x


def _bound(eng, v, default_kind):
    if v is None or isinstance(v, VNone):
        return VReal(default_kind, 0)
    return eng.to_real(v)


def call_abstract(eng, st, f, pos, kw):
    if f.a == "AutoVivification" and not pos and not kw:
        st2, o = alloc_obj(st, "AutoVivification", {})
        st2 = st2.setghost("ct_dom", TD_NONE).setghost("ct_val", TV_NONE).setghost("ct_keys", TK_NONE)
        return [("ok", st2, o)]
    if f.a == "lp.Variable":
        if len(pos) != 1 or set(kw) - {"lb", "ub"}:
            raise Unsupported("problem.Variable(...) in another form than Variable(name[, lb=, ub=])")
        st2, x = _new_object(eng, st, "lpvar")
        st2 = st2.setheap("opt_name", z3.Store(eng.heap_arr(st2, "opt_name"), x, unwrap(pos[0], "id")))
        st2 = eng.heap_write(st2, "var_lb", x, _bound(eng, kw.get("lb"), -1))
        st2 = eng.heap_write(st2, "var_ub", x, _bound(eng, kw.get("ub"), 1))
        return [("ok", st2, VRef(x, "Variable"))]
    if f.a == "lp.Constraint":
        if len(pos) != 1 or pos[0] is not ZERO or set(kw) - {"name", "lb", "ub"} or "name" not in kw:
            raise Unsupported("problem.Constraint(...) in another form than Constraint(Zero, name=..[, lb=, ub=])")
        st2, x = _new_object(eng, st, "lpcon")
        st2 = st2.setheap("opt_name", z3.Store(eng.heap_arr(st2, "opt_name"), x, unwrap(kw["name"], "id")))
        st2 = eng.heap_write(st2, "con_lb", x, _bound(eng, kw.get("lb"), -1))
        st2 = eng.heap_write(st2, "con_ub", x, _bound(eng, kw.get("ub"), 1))
        return [("ok", st2, VRef(x, "Constraint"))]
    return None


def _register(eng, st, what):
    """add_cons_vars(what) (ASSUMED): the objects are registered under their names.  Obliged at the call: the names are not
    registered yet and pairwise different (optlang raises ContainerAlreadyContains otherwise), the objects are not None."""
    nm = eng.heap_arr(st, "opt_name")
    if isinstance(what, VRef) and what.cls in ("Variable", "Constraint"):
        items, key, getm = [what.t], ("lpV" if what.cls == "Variable" else "lpC"), (Vm if what.cls == "Variable" else Cm)
    elif isinstance(what, VObj) and what.kind == "list":
        rec = st.objs[what.oid]
        n = z3.simplify(rec["len"])
        if z3.is_int_value(n) and n.as_long() == 0:
            return st
        if rec["ekind"] not in ("ref:Variable", "ref:Constraint"):
            raise Unsupported(f"add_cons_vars of a list of {rec['ekind']}")
        key, getm = ("lpV", Vm) if rec["ekind"] == "ref:Variable" else ("lpC", Cm)
        if z3.is_int_value(n) and n.as_long() <= 4:
            items = [z3.Select(rec["elem"], k) for k in range(n.as_long())]
        else:
            # a list of symbolic length
            m0, e = getm(st), rec["elem"]
            j, j2, k, w = qv("aj"), qv("aj2"), qv("ak", Id), qv("aw")
            eng.oblige(st, FA([j], z3.Implies(z3.And(0 <= j, j < n), z3.And(e[j] != NULL, m0[nm[e[j]]] == NULL)), patterns=[e[j]]),
                       "call:add_cons_vars/names-not-registered", kind="callpre")
            eng.oblige(st, FA([j, j2], z3.Implies(z3.And(0 <= j, j < j2, j2 < n), nm[e[j]] != nm[e[j2]]),
                              patterns=[z3.MultiPattern(e[j], e[j2])]),
                       "call:add_cons_vars/names-pairwise-different", kind="callpre")
            m1 = fresh(key, NameMap)
            ax1 = FA([j], z3.Implies(z3.And(0 <= j, j < n), m1[nm[e[j]]] == e[j]), patterns=[e[j]])
            ax2 = FA([k], z3.Implies(m1[k] != m0[k], z3.Exists([w], z3.And(0 <= w, w < n, k == nm[e[w]], m1[k] == e[w]),
                                                                patterns=[e[w]])), patterns=[m1[k]])
            sq0, sq1, y, cnt = eng.heap_arr(st, "lp_seq"), fresh("lp_seq", z3.ArraySort(Ref, I)), qv("ay", Ref), count(st)
            ax3 = FA([j], z3.Implies(z3.And(0 <= j, j < n), sq1[e[j]] == cnt + j), patterns=[e[j]])
            ax4 = FA([y], z3.Implies(sq1[y] != sq0[y], z3.Exists([w], z3.And(0 <= w, w < n, y == e[w]), patterns=[e[w]])), patterns=[sq1[y]])
            return st.assume(ax1, ax2, ax3, ax4).setghost(key, m1).setheap("lp_seq", sq1).setghost("lp_cnt", cnt + n)
    else:
        raise Unsupported(f"add_cons_vars of {what!r}")
    for x in items:
        m0 = getm(st)
        eng.oblige(st, z3.And(x != NULL, m0[nm[x]] == NULL), "call:add_cons_vars/name-not-registered", kind="callpre")
        st = st.assume(x != NULL, m0[nm[x]] == NULL).setghost(key, z3.Store(m0, nm[x], x))
        st = st.setheap("lp_seq", z3.Store(eng.heap_arr(st, "lp_seq"), x, count(st))).setghost("lp_cnt", count(st) + 1)
    return st


def call_method_hook(eng, st, recv, name, pos, kw):
    if isinstance(recv, VObj) and recv.cls == "Model" and name == "add_cons_vars" and len(pos) == 1 and not (set(kw) - {"sloppy"}):
        what = pos[0]
        st2 = _register(eng, st, what)
        if isinstance(what, VObj) and what.kind == "list" and st.objs[what.oid]["ekind"] != "ref:Variable":
            # the call made OUTSIDE the loops is also kept as an event, with a snapshot of the list and the state before it
            rec = st.objs[what.oid]
            st2 = st2.setghost("lp_calls", calls(st2) + (("add_list", (rec["len"], rec["elem"], rec["ekind"]), st),))
        return [("ok", st2, NONE)]
    if isinstance(recv, VRef) and recv.cls in ("LPVariables", "LPConstraints") and len(pos) == 1 and not kw:
        m = Vm(st) if recv.cls == "LPVariables" else Cm(st)
        k = unwrap(pos[0], "id")
        if name == "__contains__":
            return [("ok", st, VBool(m[k] != NULL))]
        if name == "__getitem__":
            cls = "Variable" if recv.cls == "LPVariables" else "Constraint"
            return [("ok", s2, VRef(m[k], cls)) if has else eng.raise_(s2, "KeyError") for has, s2 in eng.branch(st, m[k] != NULL)]
    if isinstance(recv, VRef) and recv.cls == "LPSolver" and name == "update" and not pos and not kw:
        return [("ok", st.setghost("lp_calls", calls(st) + (("update", None, st),)), NONE)]
    if isinstance(recv, VRef) and recv.cls == "Reaction" and name == "update_variable_bounds" and not pos and not kw \
            and _entry_self(eng) is not None:
        # the PROVED contract of c01_lp, with the link between its abstraction and the ghost containers (see the docstring)
        r, ida = recv.t, eng.heap_arr(st, "_id")
        st2 = st.assume(C1.fwd(r) == Vm(st)[ida[r]], C1.rev(r) == Vm(st)[REVID(ida[r])])
        if not eng.feasible(st2):
            raise Unsupported("the link fwd(r) = V[id r], rev(r) = V[reverse id r] contradicts what is known")
        return eng.apply_contract(st2, REG.get("Reaction.update_variable_bounds"), [recv], {})
    if isinstance(recv, VRef) and recv.cls == "Constraint" and name == "set_linear_coefficients" and len(pos) == 1 and not kw \
            and isinstance(pos[0], VRef) and pos[0].cls == "AVRow":
        c, t = recv.t, pos[0].t
        a0, td, tv = C3.coef(st), Tdom(st), Tval(st)
        row1, u = fresh("row", C3.CoefRow), qv("su", Ref)
        ax = FA([u], row1[u] == z3.If(td[t][u], tv[t][u], a0[c][u]), patterns=[row1[u]])
        return [("ok", st.assume(ax).setghost("A", z3.Store(a0, c, row1)), NONE)]
    if isinstance(recv, VObj) and recv.cls == "AutoVivification" and name == "items" and not pos and not kw:
        # a {constraint: row} dictionary view; the row of constraint c is identified with c
        rowid, x = fresh("rowid", z3.ArraySort(Ref, Ref)), qv("rx", Ref)
        st2 = st.assume(FA([x], rowid[x] == x, patterns=[rowid[x]]))
        st2, d = alloc_dict(st2, "ref:Constraint", "ref:AVRow", dom=Tkeys(st), val=rowid)
        return [("ok", st2.setghost("ct_items", d), VFunc("dictview", d, "items"))]
    return None


def getitem_hook(eng, st, obj, idx):
    if isinstance(obj, VObj) and obj.cls == "AutoVivification" and isinstance(idx, VRef) and idx.cls == "Constraint":
        return [("ok", st.setghost("ct_keys", z3.Store(Tkeys(st), idx.t, z3.BoolVal(True))), VRef(idx.t, "AVRow"))]
    return None


def setitem_hook(eng, st, obj, idx, val):
    if isinstance(obj, VRef) and obj.cls == "AVRow" and isinstance(idx, VRef) and idx.cls == "Variable":
        x = eng.to_real(val)
        eng.oblige(st, x.k == 0, "coefficient-finite", kind="side")
        td, tv, c, u = Tdom(st), Tval(st), obj.t, idx.t
        st2 = st.setghost("ct_dom", z3.Store(td, c, z3.Store(td[c], u, z3.BoolVal(True))))
        return [("ok", st2.setghost("ct_val", z3.Store(tv, c, z3.Store(tv[c], u, x.v))), NONE)]
    return None


HOOKS = {"global": global_hook, "getattr": getattr_hook, "call_abstract": call_abstract, "call_method": call_method_hook,
         "getitem": getitem_hook, "setitem": setitem_hook}


# ================================================================ specification
class View:
    """the solver as seen in one state"""

    def __init__(self, E, st):
        h = lambda f: E.eng.heap_arr(st, f)  # noqa
        self.st = st
        self.V, self.C, self.A = Vm(st), Cm(st), C3.coef(st)
        self.nm, self.alive, self.seq = h("opt_name"), h("lp_alive"), h("lp_seq")
        self.clb, self.cub, self.vlb, self.vub = h("con_lb"), h("con_ub"), h("var_lb"), h("var_ub")
        self.Td, self.Tv, self.Tk = Tdom(st), Tval(st), Tkeys(st)


def _me(E):
    return ident_of(E["self"].oid)


def _rx(E):
    return L(E.s0, E["reaction_list"])


def _mets(E):
    ml = E["metabolite_list"]
    if isinstance(ml, VNone):
        return z3.IntVal(0), z3.Const("no_metabolite_list", z3.ArraySort(I, Ref))
    return L(E.s0, ml)


def _ida(E):
    return idarr(E, E.s0)


def _same(a, b):
    if isinstance(a, tuple):
        return all(x.eq(y) for x, y in zip(a, b))
    return a.eq(b)


def _real_is(arr, x, kind, val=0):
    ka, va = arr
    return z3.And(ka[x] == kind, va[x] == val) if kind == 0 else ka[x] == kind


def wf_map(m, x):
    """a container is keyed by the names of existing objects"""
    k = qv("wk", Id)
    return FA([k], z3.Implies(m[k] != NULL, z3.And(x.nm[m[k]] == k, x.alive[m[k]])), patterns=[m[k]])


def mono(m0, m1):
    """a container only grows: a registered name keeps its object"""
    if m0.eq(m1):
        return TRUE()
    k = qv("mk", Id)
    return FA([k], z3.Implies(m0[k] != NULL, m1[k] == m0[k]), patterns=[m1[k], m0[k]])


def keep_old(x0, x, fields):
    """objects that existed at entry keep the given fields"""
    cs = []
    y = qv("ky", Ref)
    for f in fields:
        a0, a1 = getattr(x0, f), getattr(x, f)
        if _same(a0, a1):
            continue
        if isinstance(a0, tuple):
            cs.append(FA([y], z3.Implies(x0.alive[y], z3.And(a1[0][y] == a0[0][y], a1[1][y] == a0[1][y])),
                         patterns=[a1[0][y], a1[1][y]]))
        else:
            cs.append(FA([y], z3.Implies(x0.alive[y], a1[y] == a0[y]), patterns=[a1[y]]))
    return cs


def alive_mono(x0, x):
    if x0.alive.eq(x.alive):
        return TRUE()
    y = qv("ay", Ref)
    return FA([y], z3.Implies(x0.alive[y], x.alive[y]), patterns=[x.alive[y], x0.alive[y]])


def new_are_fresh(x0, x):
    """whatever was registered since entry is a new object; a new constraint has lb = ub = 0"""
    k = qv("nk", Id)
    cs = []
    if not x0.C.eq(x.C):
        c = x.C[k]
        cs.append(FA([k], z3.Implies(z3.And(c != NULL, x0.C[k] == NULL),
                                     z3.And(z3.Not(x0.alive[c]), _real_is(x.clb, c, 0), _real_is(x.cub, c, 0))), patterns=[c]))
    if not x0.V.eq(x.V):
        v = x.V[k]
        cs.append(FA([k], z3.Implies(z3.And(v != NULL, x0.V[k] == NULL), z3.Not(x0.alive[v])), patterns=[v]))
    return cs


def pairs(E, x):
    """a listed reaction has both of its variables or none"""
    n, rx = _rx(E)
    ida, j = _ida(E), qv("pj")
    return FA([j], z3.Implies(z3.And(0 <= j, j < n), (x.V[ida[rx[j]]] != NULL) == (x.V[REVID(ida[rx[j]])] != NULL)), patterns=[rx[j]])


def base(E, st, varbounds=True):
    x0, x = View(E, E.s0), View(E, st)
    cs = [wf_map(x.V, x), wf_map(x.C, x), mono(x0.V, x.V), mono(x0.C, x.C), alive_mono(x0, x)]
    cs += keep_old(x0, x, ["nm", "clb", "cub"] + (["vlb", "vub"] if varbounds else []))
    cs += new_are_fresh(x0, x)
    cs.append(pairs(E, x))
    return cs


def _pre(E):
    x0 = View(E, E.s0)
    n, rx = _rx(E)
    nm_, me_ = _mets(E)
    ida = _ida(E)
    rl = E.s0.objs[E["self"].oid]["attr:reactions"]
    nr, er = L(E.s0, rl)
    dom, val = Dv(E.s0, rl)
    mo = E.eng.heap_arr(E.s0, "_model")
    j, j2, m1, m2, c, u = qv("qj"), qv("qj2"), qv("qm1", Ref), qv("qm2", Ref), qv("qc", Ref), qv("qu", Ref)
    r = rx[j]
    lb, ub = C1.lbub(E, E.s0, r)
    return z3.And(
        WF(E, E.s0, rl),
        # every listed reaction belongs to this model and is listed in model.reactions under its id
        FA([j], z3.Implies(z3.And(0 <= j, j < n), z3.And(r != NULL, mo[r] == _me(E), z3.Select(dom, ida[r]), er[val[ida[r]]] == r)),
           patterns=[r]),
        # ... has valid bounds (the validity precondition of C01)
        FA([j], z3.Implies(z3.And(0 <= j, j < n), z3.And(xr_le(lb, ub), lb.k != 1, ub.k != -1)), patterns=[r]),
        # ... an id that is no reverse id
        FA([j], z3.Implies(z3.And(0 <= j, j < n), z3.Not(is_rev(ida[r]))), patterns=[r]),
        # ... and no two metabolites with the same id in its stoichiometry
        FA([j, m1, m2], z3.Implies(z3.And(0 <= j, j < n, S_dom(r)[m1], S_dom(r)[m2], ida[m1] == ida[m2]), m1 == m2),
           patterns=[z3.MultiPattern(S_dom(r)[m1], S_dom(r)[m2])]),
        # the solver containers are keyed by the names of existing objects; both variables of a listed reaction or none
        wf_map(x0.V, x0), wf_map(x0.C, x0), pairs(E, x0),
        # the given metabolites: pairwise different identifiers that name no constraint yet
        FA([j], z3.Implies(z3.And(0 <= j, j < nm_), x0.C[ida[me_[j]]] == NULL), patterns=[me_[j]]),
        FA([j, j2], z3.Implies(z3.And(0 <= j, j < j2, j2 < nm_), ida[me_[j]] != ida[me_[j2]]),
           patterns=[z3.MultiPattern(me_[j], me_[j2])]),
        # convention: no coefficient where the constraint or the variable does not exist yet
        FA([c, u], z3.Implies(z3.Or(z3.Not(x0.alive[c]), z3.Not(x0.alive[u])), x0.A[c][u] == 0), patterns=[x0.A[c][u]]))


def _axioms(E):
    k = qv("xk", Id)
    return [FA([k], z3.And(REVINV(REVID(k)) == k, is_rev(REVID(k))), patterns=[REVID(k)])]


# ---------------------------------------------------------------- what is recorded per reaction / metabolite
def cell_ok(x, row, var, val):
    return z3.And(x.Td[row][var], x.Tv[row][var] == val)


def terms_of(E, x, r, f, b, m):
    """the two entries of constraint_terms for metabolite m of reaction r: [row(m)][f] = coefficient, [row(m)][b] = -coefficient"""
    row = x.C[_ida(E)[m]]
    return z3.And(row != NULL, cell_ok(x, row, f, S_val(r)[m]), cell_ok(x, row, b, -S_val(r)[m]))


def written(E, x, upto, c, u):
    """(c, u) is a cell the function writes: u one of the two variables of a listed reaction (index < upto), c the row of one of
    that reaction's metabolites"""
    n, rx = _rx(E)
    ida = _ida(E)
    j, m = qv("wj"), qv("wm", Ref)
    r = rx[j]
    return z3.Exists([j, m], z3.And(0 <= j, j < upto, S_dom(r)[m], c == x.C[ida[m]],
                                    z3.Or(u == x.V[ida[r]], u == x.V[REVID(ida[r])])), patterns=[S_dom(r)[m]])


def reactions_done(E, x, upto):
    """the reactions [0, upto) have their variables and their entries in constraint_terms, and nothing else is in it"""
    n, rx = _rx(E)
    ida = _ida(E)
    j, m, c, u = qv("dj"), qv("dm", Ref), qv("dc", Ref), qv("du", Ref)
    r = rx[j]
    return [FA([j], z3.Implies(z3.And(0 <= j, j < upto), z3.And(x.V[ida[r]] != NULL, x.V[REVID(ida[r])] != NULL)), patterns=[r]),
            FA([j, m], z3.Implies(z3.And(0 <= j, j < upto, S_dom(r)[m]), terms_of(E, x, r, x.V[ida[r]], x.V[REVID(ida[r])], m)),
               patterns=[S_dom(r)[m]]),
            FA([c, u], z3.Implies(x.Td[c][u], written(E, x, upto, c, u)), patterns=[x.Td[c][u]]),
            FA([c, u], z3.Implies(x.Td[c][u], x.Tk[c]), patterns=[x.Td[c][u]])]


def containers_frame(E, x0, x, upto):
    """what has been registered since entry: only the names of the given metabolites, of the listed reactions' variables and of
    their metabolites"""
    n, rx = _rx(E)
    nm_, me_ = _mets(E)
    ida = _ida(E)
    k, j, j2, m = qv("fk", Id), qv("fj"), qv("fj2"), qv("fm", Ref)
    cs = []
    if not x0.V.eq(x.V):
        cs.append(FA([k], z3.Implies(x.V[k] != x0.V[k],
                                     z3.Exists([j], z3.And(0 <= j, j < upto, z3.Or(k == ida[rx[j]], k == REVID(ida[rx[j]]))),
                                               patterns=[rx[j]])), patterns=[x.V[k]]))
    if not x0.C.eq(x.C):
        given = z3.Exists([j2], z3.And(0 <= j2, j2 < nm_, k == ida[me_[j2]]), patterns=[me_[j2]])
        used = z3.Exists([j, m], z3.And(0 <= j, j < upto, S_dom(rx[j])[m], k == ida[m]), patterns=[S_dom(rx[j])[m]])
        cs.append(FA([k], z3.Implies(x.C[k] != x0.C[k], z3.Or(given, used)), patterns=[x.C[k]]))
    return cs


def seq_frame(xin, x):
    """objects that existed in `xin` keep their position in the order of additions"""
    if xin.seq.eq(x.seq):
        return TRUE()
    y = qv("qy", Ref)
    return FA([y], z3.Implies(xin.alive[y], x.seq[y] == xin.seq[y]), patterns=[x.seq[y]])


def pair_adjacent(E, x0, x, upto):
    """new variables of a listed reaction were handed over together: the forward variable immediately before the reverse one"""
    n, rx = _rx(E)
    ida, j = _ida(E), qv("aj")
    r = rx[j]
    return FA([j], z3.Implies(z3.And(0 <= j, j < upto, x0.V[ida[r]] == NULL), x.seq[x.V[REVID(ida[r])]] == x.seq[x.V[ida[r]]] + 1),
              patterns=[r])


def given_registered(E, x):
    """every metabolite of metabolite_list has a constraint registered under its id"""
    nm_, me_ = _mets(E)
    j = qv("gj")
    return FA([j], z3.Implies(z3.And(0 <= j, j < nm_), x.C[_ida(E)[me_[j]]] != NULL), patterns=[me_[j]])


# ---------------------------------------------------------------- loop 0: one constraint per given metabolite
def _inv0(E, Lc):
    x0, x = View(E, E.s0), View(E, Lc.st)
    nm_, me_ = _mets(E)
    ta = Lc.var("to_add")
    rec = Lc.st.objs[ta.oid]
    if rec.get("ekind") != "ref:Constraint":
        return z3.And(rec["len"] == 0, Lc.i == 0)
    e, j = rec["elem"], qv("ij")
    c = e[j]
    return z3.And(rec["len"] == Lc.i, Lc.n == nm_,
                  FA([j], z3.Implies(z3.And(0 <= j, j < Lc.i),
                                     z3.And(c != NULL, x.alive[c], z3.Not(x0.alive[c]), x.nm[c] == _ida(E)[me_[j]],
                                            _real_is(x.clb, c, 0), _real_is(x.cub, c, 0))), patterns=[c]),
                  alive_mono(x0, x), *keep_old(x0, x, ["nm", "clb", "cub"]))


def _mod0(E, Lc):
    return [("list", Lc.var("to_add"), "ref:Constraint"), ("heap", "opt_name"), ("heap", "con_lb"), ("heap", "con_ub"),
            ("heap", "lp_alive")]


# ---------------------------------------------------------------- loop 1 (reactions) and loop 2 (their metabolites)
SOLVER_OBJECTS = [("heap", "opt_name"), ("heap", "con_lb"), ("heap", "con_ub"), ("heap", "lp_alive")]
ORDER = [("heap", "lp_seq"), ("ghost", "lp_cnt", lambda st: fresh("lp_cnt", I))]


def _ghost(name, sort):
    return ("ghost", name, lambda st: fresh(name, sort))


T_LOCS = [_ghost("ct_dom", TD_NONE.sort()), _ghost("ct_val", TV_NONE.sort()), _ghost("ct_keys", RefBool)]


def _inv1(E, Lc):
    x0, xin, x = View(E, E.s0), View(E, Lc.entry), View(E, Lc.st)
    return z3.And(*(base(E, Lc.st) + [mono(xin.C, x.C), given_registered(E, x)] + reactions_done(E, x, Lc.i)
                    + containers_frame(E, x0, x, Lc.i) + [alive_mono(xin, x), seq_frame(xin, x), pair_adjacent(E, x0, x, Lc.i)]))


def _mod1(E, Lc):
    return SOLVER_OBJECTS + ORDER + [("heap", "var_lb"), ("heap", "var_ub"), _ghost("lpV", NameMap), _ghost("lpC", NameMap)] + T_LOCS


def _inv2(E, Lc):
    """inner loop over reaction.metabolites.items() in the ghost enumeration stoich_order(r): the metabolites enumerated so far have
    their row and their two entries; relative to the state in which the inner loop was entered only those entries were written and
    only their rows were registered"""
    x0, xin, x = View(E, E.s0), View(E, Lc.entry), View(E, Lc.st)
    ida = _ida(E)
    r, f, b = Lc.var("reaction"), Lc.var("forward_variable"), Lc.var("reverse_variable")
    if not (isinstance(r, VRef) and isinstance(f, VRef) and isinstance(b, VRef)):
        return z3.BoolVal(False)
    r, f, b = r.t, f.t, b.t
    order = S_ord(r)
    p, c, u, k, w = qv("ip"), qv("ic", Ref), qv("iu", Ref), qv("ik", Id), qv("iw")
    done = lambda cc: z3.Exists([w], z3.And(0 <= w, w < Lc.i, cc == x.C[ida[order[w]]]), patterns=[order[w]])  # noqa
    changed = z3.Or(x.Td[c][u] != xin.Td[c][u], x.Tv[c][u] != xin.Tv[c][u])
    return z3.And(*(base(E, Lc.st) + [
        Lc.n == S_card(r), mono(xin.C, x.C),
        FA([p], z3.Implies(z3.And(0 <= p, p < Lc.i), terms_of(E, x, r, f, b, order[p])), patterns=[order[p]]),
        FA([c, u], z3.Implies(changed, z3.And(z3.Or(u == f, u == b), done(c))), patterns=[x.Td[c][u], x.Tv[c][u]]),
        FA([c, u], z3.Implies(x.Td[c][u], x.Tk[c]), patterns=[x.Td[c][u]]),
        FA([k], z3.Implies(x.C[k] != xin.C[k], z3.Exists([w], z3.And(0 <= w, w < Lc.i, k == ida[order[w]]), patterns=[order[w]])),
           patterns=[x.C[k]]),
        alive_mono(xin, x), seq_frame(xin, x)]))


def _mod2(E, Lc):
    return SOLVER_OBJECTS + ORDER + [_ghost("lpC", NameMap)] + T_LOCS


# ---------------------------------------------------------------- loop 3: update_variable_bounds for every listed reaction
def range_ok(E, x, r):
    ida = _ida(E)
    lb, ub = C1.lbub(E, E.s0, r)
    f, b = x.V[ida[r]], x.V[REVID(ida[r])]
    g = lambda arr, y: VReal(arr[0][y], arr[1][y])  # noqa
    flb, fub, rlb, rub = g(x.vlb, f), g(x.vub, f), g(x.vlb, b), g(x.vub, b)
    return z3.And(C1.RangeOK(lb.k, lb.v, ub.k, ub.v, flb.k, flb.v, fub.k, fub.v, rlb.k, rlb.v, rub.k, rub.v),
                  flb.k == 0, flb.v >= 0, rlb.k == 0, rlb.v >= 0)


def bounds_done(E, xin, x, upto):
    """the reactions [0, upto) have had their variable bounds set; no other variable's bounds differ from those in `xin`"""
    n, rx = _rx(E)
    ida = _ida(E)
    j, y, w = qv("uj"), qv("uy", Ref), qv("uw")
    differs = z3.Or(*[a1[y] != a0[y] for f in ("vlb", "vub") for a0, a1 in zip(getattr(xin, f), getattr(x, f))])
    mine = z3.Exists([w], z3.And(0 <= w, w < upto, z3.Or(y == x.V[ida[rx[w]]], y == x.V[REVID(ida[rx[w]])])), patterns=[rx[w]])
    return [FA([j], z3.Implies(z3.And(0 <= j, j < upto), range_ok(E, x, rx[j])), patterns=[rx[j]]),
            FA([y], z3.Implies(differs, mine), patterns=[x.vlb[0][y], x.vlb[1][y], x.vub[0][y], x.vub[1][y]])]


def _inv3(E, Lc):
    return z3.And(*bounds_done(E, View(E, Lc.entry), View(E, Lc.st), Lc.i))


def _mod3(E, Lc):
    return [("heap", "var_lb"), ("heap", "var_ub")]


# ---------------------------------------------------------------- loop 4: one set_linear_coefficients per row of constraint_terms
def rows_written(x_in, x, pos, upto):
    """closed form: the rows enumerated so far carry their recorded entries, everything else is as when the loop was entered"""
    c, u = qv("rc", Ref), qv("ru", Ref)
    return FA([c, u], x.A[c][u] == z3.If(z3.And(x.Tk[c], pos[c] < upto, x.Td[c][u]), x.Tv[c][u], x_in.A[c][u]), patterns=[x.A[c][u]])


def _inv4(E, Lc):
    d = Lc.st.ghost.get("ct_items")
    if d is None:
        return z3.BoolVal(False)
    ent = Lc.st.ghost.get(("order", d.oid, Lc.st.objs[d.oid]["dom"].get_id()))
    if ent is None:
        return z3.BoolVal(False)
    order, pos, card = ent
    return z3.And(Lc.n == card, rows_written(View(E, Lc.entry), View(E, Lc.st), pos, Lc.i))


def _mod4(E, Lc):
    return [_ghost("A", C3.CoefMat)]


# ---------------------------------------------------------------- post-condition
def _post(E):
    x0, x = View(E, E.s0), View(E, E.s1)
    n, rx = _rx(E)
    nm_, me_ = _mets(E)
    ida = _ida(E)
    ev = calls(E.s1)
    # the events outside the loops: add_cons_vars(to_add) first, solver.update() after the reaction loop
    if len(ev) != 2 or ev[0][0] != "add_list" or ev[1][0] != "update":
        return z3.BoolVal(False)
    (ln, elem, ekind), st_add = ev[0][1], ev[0][2]
    x_add, x_upd = View(E, st_add), View(E, ev[1][2])
    first_call = z3.BoolVal(x_add.V.eq(x0.V) and x_add.C.eq(x0.C) and x_add.A.eq(x0.A))    # nothing registered / written before it
    # solver.update(): after all additions, before any coefficient is written and while every existing variable has its entry bounds
    update_between = z3.And(z3.BoolVal(x_upd.V.eq(x.V) and x_upd.C.eq(x.C) and x_upd.A.eq(x0.A)), *keep_old(x0, x_upd, ["vlb", "vub"]))
    j, m, c, u, k, y = qv("oj"), qv("om", Ref), qv("oc", Ref), qv("ou", Ref), qv("ok", Id), qv("oy", Ref)
    r = rx[j]
    f, b = x.V[ida[r]], x.V[REVID(ida[r])]
    # (1) the given metabolites
    if isinstance(E["metabolite_list"], VNone):
        given = z3.BoolVal(z3.is_int_value(z3.simplify(ln)) and z3.simplify(ln).as_long() == 0)
    elif ekind != "ref:Constraint":
        given = z3.And(nm_ == 0, ln == 0)
    else:
        g = x.C[ida[me_[j]]]
        given = z3.And(ln == nm_, FA([j], z3.Implies(z3.And(0 <= j, j < nm_),
                                                     z3.And(g != NULL, elem[j] == g, z3.Not(x0.alive[g]), x.alive[g], x.nm[g] == ida[me_[j]],
                                                            _real_is(x.clb, g, 0), _real_is(x.cub, g, 0), x.seq[g] == j)), patterns=[me_[j]]))
    # (2) the two variables of every listed reaction
    variables = FA([j], z3.Implies(z3.And(0 <= j, j < n), z3.And(
        f != NULL, b != NULL, f != b, x.nm[f] == ida[r], x.nm[b] == REVID(ida[r]), x.alive[f], x.alive[b],
        z3.If(x0.V[ida[r]] != NULL, f == x0.V[ida[r]], z3.Not(x0.alive[f])),
        z3.If(x0.V[REVID(ida[r])] != NULL, b == x0.V[REVID(ida[r])], z3.Not(x0.alive[b])))), patterns=[r])
    # (3) their bounds; no other existing variable's bounds changed
    differs = z3.Or(*[a1[y] != a0[y] for fl in ("vlb", "vub") for a0, a1 in zip(getattr(x0, fl), getattr(x, fl))])
    w = qv("ow")
    mine = z3.Exists([w], z3.And(0 <= w, w < n, z3.Or(y == x.V[ida[rx[w]]], y == x.V[REVID(ida[rx[w]])])), patterns=[rx[w]])
    bounds = [FA([j], z3.Implies(z3.And(0 <= j, j < n), range_ok(E, x, r)), patterns=[r]),
              FA([y], z3.Implies(z3.And(x0.alive[y], differs), mine), patterns=[x.vlb[0][y], x.vlb[1][y], x.vub[0][y], x.vub[1][y]])]
    # (4) the rows
    row = x.C[ida[m]]
    rows = FA([j, m], z3.Implies(z3.And(0 <= j, j < n, S_dom(r)[m]), z3.And(
        row != NULL, x.nm[row] == ida[m], x.alive[row],
        x.A[row][f] == S_val(r)[m], x.A[row][b] == -S_val(r)[m],
        z3.If(x0.C[ida[m]] != NULL, row == x0.C[ida[m]],
              z3.And(z3.Not(x0.alive[row]), _real_is(x.clb, row, 0), _real_is(x.cub, row, 0))))), patterns=[S_dom(r)[m]])
    untouched = FA([c, u], z3.Implies(x.A[c][u] != x0.A[c][u], written(E, x, n, c, u)), patterns=[x.A[c][u]])
    new_zero = FA([c, u], z3.Implies(z3.And(z3.Or(z3.Not(x0.alive[c]), z3.Not(x0.alive[u])), x.A[c][u] != 0), written(E, x, n, c, u)),
                  patterns=[x.A[c][u]])
    # (5) frame of the solver
    frame = [wf_map(x.V, x), wf_map(x.C, x), mono(x0.V, x.V), mono(x0.C, x.C), alive_mono(x0, x)] \
        + keep_old(x0, x, ["nm", "clb", "cub"]) + new_are_fresh(x0, x) + containers_frame(E, x0, x, n)
    return z3.And(first_call, update_between, given, variables, pair_adjacent(E, x0, x, n), *(bounds + [rows, untouched, new_zero] + frame))


def _mod(E):
    return SOLVER_OBJECTS + ORDER + [("heap", "var_lb"), ("heap", "var_ub"), _ghost("lpV", NameMap), _ghost("lpC", NameMap),
                                     _ghost("A", C3.CoefMat), ("ghost", "lp_calls", lambda st: ())] + T_LOCS


def _model_t():
    return TObj("Model", {"reactions": TDictList("Reaction"), "variables": TRef("LPVariables"), "constraints": TRef("LPConstraints"),
                          "problem": TRef("LPInterface"), "solver": TRef("LPSolver")})


_c_with = Case("with_metabolite_list", ensures=_post)
_c_with.params_override = {"metabolite_list": TList("ref:Metabolite")}
_c_only = Case("reactions_only", ensures=_post)
_c_only.params_override = {"metabolite_list": TNone()}
for _c, _t in ((_c_with, VObj), (_c_only, VNone)):
    _c.applies = (lambda t: lambda a, st: isinstance(a.get("metabolite_list"), t))(_t)

REG.add(Contract(MM, "Model._populate_solver", "C01",
                 [("self", _model_t()), ("reaction_list", TList("ref:Reaction")), ("metabolite_list", TList("ref:Metabolite"))],
                 [_c_with, _c_only], pre=_pre, axioms=_axioms, modifies=_mod, key=KEY,
                 loops={0: LoopSpec(_inv0, _mod0), 1: LoopSpec(_inv1, _mod1), 2: LoopSpec(_inv2, _mod2), 3: LoopSpec(_inv3, _mod3),
                        4: LoopSpec(_inv4, _mod4)},
                 note="ghost model of the optlang solver (containers V, C keyed by name; coefficient matrix A; allocation flag); "
                      "reaction.metabolites as the finite map stoich_dom / stoich_val of the reaction object in a ghost enumeration; "
                      "ASSUMED: problem.Variable / problem.Constraint(Zero, ..) allocate new objects with an all-zero column / row, "
                      "add_cons_vars registers by name (names new: obliged), container look-ups, set_linear_coefficients writes "
                      "exactly the given entries, reverse_id injective and never a listed reaction's id, AutoVivification is a dict of "
                      "dicts, fwd(r) / rev(r) of c01_lp are V[id r] / V[reverse id r] when update_variable_bounds (PROVED contract, "
                      "applied at the call site) is called. Precondition: listed reactions are members of this model's reactions "
                      "DictList with valid bounds; given metabolite ids are new constraint names"))


def lemmas():
    """what the two entries of a row mean: coefficient times the net flux forward - reverse (the flux of C01)"""
    from pyvc.engine import Obl
    c, f, b = z3.Reals("ps_c ps_f ps_b")
    return [Obl("C01/lemma/populate-solver/row-entries-are-coefficient-times-net-flux", [], c * f + (-c) * b == c * (f - b), "lemma")]
