"""C03 / C02 - Model.add_reactions(reaction_list) WITH a context open (`model._contexts` non-empty).

Documented: "Add reactions to the model. ... The change is reverted upon exit when using the model as a context."  C03: every
context-aware operation registers an undo that reverses precisely what it did.  This module ADDS the in-context case to what
contracts/c02_add_reactions.py proves without a context: it imports and reuses that module's specification functions (`_pre`, `facts`,
`_inv_outer`, `_inv_inner`, `_post`, `_mod`, its hook table) unchanged and registers a SECOND contract for the same function under the
key `Model.add_reactions[context]` (KEYS), hook table `HOOKS`, glue lemmas `lemmas()`.  Cases: `in_context`, `repeated_new_identifier`.

PROVED, for argument lists, models and stoichiometries of any size and any depth of the context stack (two nested loops):
  (A) everything the no-context contract proves about the final state, by the very same formulas (clauses (1)-(6) of
      c02_add_reactions: model.reactions gains exactly `pruned`, re-pointing of the stoichiometry keys to the model's own objects, back
      references, genes, the one `_populate_solver(pruned)` call in the exit state, frame).
  (B) the undo registrations (symbolic ghost trace: entry j = (kind, reaction, second argument, manager); witness maps updated at every
      registration).  EVERY entry is made in the INNERMOST context (the manager get_context returned = the last element of
      model._contexts), is - but for the last one - for a reaction r of pruned, is THE entry of its kind for its arguments (nothing
      twice) and is one of
        SETM  partial(setattr, r, "_model", None)
        XREM  partial(x._reaction.remove, r)      only for x a key of r._metabolites at exit (a member of model.metabolites: the object r
              was re-pointed to, or the metabolite that joined), and only where the `x._reaction.add(r)` it inverts CHANGED the set
              (ghost flag recorded by the hook at the `add`: `r in x._reaction` was False just before - see PRECONDITIONS);
        AM    the RECORDED call self.add_metabolites(x) made while r was handled, x an entry key of r that joined model.metabolites:
              stands for whatever that callee registers itself (its business: `metabolites.__isub__`, `setattr(x, "_model", None)`,
              the solver constraints through add_cons_vars);
        UG    the RECORDED call r.update_genes_from_gpr(), applied by its PROVED contract, case in_model:in_context (c02_update_genes:
              per created gene its removal from model.genes and the reset of its model pointer, one dissociation per gene that became
              one of r's genes, one association per gene that stopped being one, all in the innermost context, nothing twice);
        RISUB partial(self.reactions.__isub__, pruned)   exactly once, the LAST entry, its argument the very DictList `pruned` (which
              no later statement mutates: _populate_solver receives it and is a recorded call);
      and CONVERSELY for every reaction r of pruned: one SETM, one UG after it, and for EVERY key x of r._metabolites at exit an XREM
      entry or an AM entry (x joined while r was handled; when it has no XREM then it listed r before - the code's guard `if reaction
      not in metabolite._reaction`), between the two.  Order: the entries of one reaction form a block SETM ... UG, the blocks come in
      the order of pruned, RISUB comes last (so on exit the reactions leave model.reactions FIRST, then block by block backwards).
  (C) glue lemmas `undo-restores:{reactions-content, model-pointers, back-references}` (closed formulas whose hypotheses are the very
      pre- and post-condition of this contract on a synthetic pair of states): replaying the registered undos on the exit state gives
      back the ENTRY views - membership in model.reactions (RISUB by the C15 meaning of DictList.__isub__: every element of pruned
      leaves), `_model` of every reaction, and the `_reaction` set of every object that was a member of model.metabolites at entry.
      Closed form of the replay as in c02_remove_reactions_ctx (each SETM / XREM entry writes one cell with a constant); NOT proved:
      the induction over the trace that connects HistoryManager.reset's recursive `run` with the closed form; the callees' own undos
      (AM, UG) are ASSUMED to touch `_model` / `_reaction` of metabolites that joined and of genes only (their contracts' business).
JUDGEMENT of the registered inverses against "reverses precisely what it did":
  * the RE-POINTING of a reaction's stoichiometry keys to the model's own objects (pop(foreign copy), insert(model's object)) has NO
    inverse: after exit the reaction - outside the model again - keeps the model's objects as keys, while those objects no longer list
    it.  The statement compares the MODEL's content and cross-references; the reaction is not part of the model at entry nor at exit,
    the model's metabolites have their entry `_reaction` sets (lemma back-references), so this is not a violation (observation only;
    a later add_reactions([r]) takes the else-branch again and re-adds the back reference).  Likewise the back references that
    Model.add_metabolites drops from a JOINING metabolite (to reactions outside the model, repair f52a176) are not restored: that
    metabolite is outside the model at entry and at exit.
  * `model_metabolite._reaction.add(reaction)` in the else-branch is NOT guarded (the joining branch is: `if reaction not in
    metabolite._reaction`), its inverse `remove` is registered unconditionally: if the model's own object already listed the reaction
    the add is a no-op and the registered remove deletes a back reference that was there at entry.  Such an entry state (a member of
    model.metabolites that is a key of a reaction OUTSIDE the model and lists it) is inside the no-context precondition; I could not
    reach it through the public API at the repaired commit (Reaction.add_metabolites copies a metabolite that belongs to another model
    than the reaction's, Model.add_metabolites drops back references to outside reactions, remove_reactions removes them), so it is
    NOT reported as a defect; it is excluded by the STATED precondition `own-keys-do-not-list` below, and without that precondition the
    obligations `XREM inverts an effective add` (loop#1/inv-preserve) and lemma back-references fail, as they must.
PRECONDITIONS (stated, not proved here): those of the no-context contract with `no context open` replaced by `at least one context open,
the stack holds managers (never None)`, plus `own-keys-do-not-list`: a key of a to-be-added reaction that is a member of
model.metabolites at entry does not list that reaction at entry.
ASSUMED: everything the no-context contract assumes; in addition, at the call site `self.add_metabolites(metabolite)`: with a context
open the callee changes model.metabolites / `_model` / `_reaction` exactly as its no-context contract (c02_add_metabolites, PROVED for no
context only) says - its precondition WITHOUT the conjunct `no context open` is obliged - and registers its own undos (recorded call AM,
not looked at); `context(f)` = HistoryManager.__call__ by its proved contract, recorded.
GHOST code in the hooks: at `x._reaction.add(r)` the value of `r in x._reaction` just before is noted (`eff`), at every registration the
trace and the witness maps are extended.
Engine: NO change of pyvc.  c02_add_reactions.py: its hooks are active for this key too (`ME_KEYS`), `_apply_add_metabolites` takes the
variant precondition as an optional argument (default unchanged).
VACUITY / GUARDS: 375 + 4 obligations, one path per case, inv-init / inv-preserve for both loops; the glue lemmas fail (unknown) when
the precondition own-keys-do-not-list (back-references), the SETM completeness clause (model-pointers) or the key completeness clause
(back-references) is dropped, and `False` does not follow from their hypotheses (sat).
MUTANTS (tools/mutate_and_run.sh on cobra/core/model.py, key Model.add_reactions[context]; each is NOT discharged, the obligation that
breaks is named; obligation numbers of the loop invariants: AR's conjuncts first, then own-keys, [the two joined-metabolite clauses,]
trace length, entry justification, SETM/UG per reaction, key completeness, order ...):
  M1 `context(partial(setattr, reaction, "_model", None))` skipped -> loop#1/inv-init.39 - .44 (the SETM entry of the reaction being
     handled exists and precedes its other entries);
  M2 the else-branch registers the remove on the FOREIGN copy (`partial(metabolite._reaction.remove, reaction)`) ->
     loop#1/inv-preserve.35~3 (an XREM entry is for a key the reaction has now) and .45~3 (every handled key has its entry);
  M3 the guard of the joining branch dropped (`if True:`) -> loop#1/inv-preserve.35 (an XREM entry inverts an add that changed the
     set: the remove would be registered for a no-op add);
  M4 `context(partial(model_metabolite._reaction.remove, reaction))` skipped -> loop#1/inv-preserve.45~3 (every handled key has its
     XREM / AM entry);
  M5 the RISUB registration moved BEFORE `self.reactions += pruned` -> exit post.45 sat (model.reactions at the registration is not the
     exit list);
  M6 the RISUB registration skipped -> exit post sat (no RISUB registration recorded).
"""
import z3
import cobra  # noqa
from .common import *  # noqa
from . import c02_add_reactions as AR
from . import c02_update_genes as U
from . import c03_context as C3

MM = AR.MM
KEY = "Model.add_reactions[context]"
KEYS = [KEY]
AR.ME_KEYS.add(KEY)
I_ = z3.IntSort()
B_ = z3.BoolSort()
Hh = AR.Hh
tag, MET, RXN, GENE = AR.tag, AR.MET, AR.RXN, AR.GENE


def A_(*sorts):
    s = sorts[-1]
    for d in reversed(sorts[:-1]):
        s = z3.ArraySort(d, s)
    return s


# ---------------------------------------------------------------- undo registrations: a symbolic ghost trace
# entry j < n of the trace, made with manager ctx[j]:
#   kind 1 SETM   partial(setattr, arg, "_model", None)
#   kind 2 XREM   partial(arg2._reaction.remove, arg)         eff[j]: `arg in arg2._reaction` was False before the add it inverts
#   kind 3 RISUB  partial(self.reactions.__isub__, pruned)    arg = arg2 = NULL
#   kind 4 AM     RECORDED call self.add_metabolites(arg2) while arg was handled (the callee's own registrations)
#   kind 5 UG     RECORDED call arg.update_genes_from_gpr()   (the callee's own registrations, by its in-context contract)
# witness maps: whS[x] / whU[x] = position of the latest SETM / UG entry for reaction x, whX[x][y] / whA[x][y] = of the latest
# XREM / AM entry for (x, y).  was[y][x] = value of `x in y._reaction` just before the latest `y._reaction.add(x)` (ghost).
K_SETM, K_XREM, K_RISUB, K_AM, K_UG = 1, 2, 3, 4, 5
CORE = (("n", I_), ("kind", A_(I_, I_)), ("arg", A_(I_, Ref)), ("arg2", A_(I_, Ref)), ("ctx", A_(I_, Ref)), ("eff", A_(I_, B_)))
WH = {"aru_whS": A_(Ref, I_), "aru_whU": A_(Ref, I_), "aru_whX": A_(Ref, Ref, I_), "aru_whA": A_(Ref, Ref, I_),
      "aru_was": A_(Ref, Ref, B_)}


def _g0(key):
    if key in WH:
        return z3.Const(key + "_0", WH[key])
    d = {nm: z3.Const(f"{key}0_{nm}", srt) for nm, srt in CORE}
    d["n"] = z3.IntVal(0)
    return d


_G0 = {k: _g0(k) for k in ["aru"] + list(WH)}


def gh(st, key):
    v = st.ghost.get(key)
    return v if v is not None else _G0[key]


def _havoc(key):
    def mk(st):
        if key in WH:
            return fresh(key, WH[key])
        return {nm: fresh(f"{key}_{nm}", srt) for nm, srt in CORE}
    return ("ghost", key, mk)


ALL_GHOST = [_havoc(k) for k in ["aru"] + list(WH)]


def _mine(eng):
    return getattr(eng.cur_contract, "key", None) == KEY


def _local(eng, st, name, cls):
    v = st.lookup(eng._top_fid, name)
    if not (isinstance(v, VRef) and v.cls == cls):
        raise Unsupported(f"the local `{name}` is not a {cls}")
    return v.t


def _append(st, kind, x, y, c, eff=None):
    T = dict(gh(st, "aru"))
    n = T["n"]
    T.update(n=n + 1, kind=z3.Store(T["kind"], n, z3.IntVal(kind)), arg=z3.Store(T["arg"], n, x), arg2=z3.Store(T["arg2"], n, y),
             ctx=z3.Store(T["ctx"], n, c), eff=z3.Store(T["eff"], n, eff if eff is not None else z3.BoolVal(True)))
    st = st.setghost("aru", T)
    if kind in (K_SETM, K_UG):
        key = "aru_whS" if kind == K_SETM else "aru_whU"
        st = st.setghost(key, z3.Store(gh(st, key), x, n))
    elif kind in (K_XREM, K_AM):
        key = "aru_whX" if kind == K_XREM else "aru_whA"
        w = gh(st, key)
        st = st.setghost(key, z3.Store(w, x, z3.Store(w[x], y, n)))
    return st


def _classify(eng, st, f):
    """-> (kind, arg, arg2) of a registered undo function, or Unsupported"""
    model = eng.entry_args.get("self")
    if isinstance(f, VFunc) and f.kind == "partial" and not f.c and isinstance(model, VObj):
        a, b = f.a, tuple(f.b)
        rl = st.objs[model.oid].get("attr:reactions")
        if isinstance(a, VFunc) and a.kind == "builtin" and a.a == "setattr" and len(b) == 3 and isinstance(b[0], VRef) \
                and isinstance(b[1], VConc) and b[1].py == "_model" and isinstance(b[2], VNone):
            return K_SETM, b[0].t, NULL
        if isinstance(a, VFunc) and a.kind == "bound" and len(b) == 1:
            recv, name = a.a, a.b
            if isinstance(recv, VObj) and recv.kind == "set" and name == "remove" and isinstance(b[0], VRef):
                org = st.objs[recv.oid].get("origin")
                if org is not None and org[0] == "_reaction":
                    return K_XREM, b[0].t, org[1]
            pr = st.ghost.get("ar_pruned")
            if isinstance(recv, VObj) and isinstance(rl, VObj) and recv.oid == rl.oid and name == "__isub__" and isinstance(b[0], VObj) \
                    and isinstance(pr, VObj) and b[0].oid == pr.oid:
                return K_RISUB, NULL, NULL
    raise Unsupported(f"undo registration of an unrecognised function {f!r}"[:200])


def call_object_hook(eng, st, f, pos, kw):
    """context(undo): HistoryManager.__call__ by its contract (C03: the operation is appended to that manager's history); the event
    is recorded in the symbolic ghost trace"""
    if _mine(eng) and isinstance(f, VRef) and f.cls == "HistoryManager" and len(pos) == 1 and not kw:
        kind, x, y = _classify(eng, st, pos[0])
        eff = z3.Not(gh(st, "aru_was")[y][x]) if kind == K_XREM else None
        st = _append(st, kind, x, y, f.t, eff)
        if kind == K_RISUB:
            # snapshot: the content of model.reactions and of `pruned` at the registration (the post-condition compares them with exit)
            st = st.setghost("aru_risub_state", st)
        return [("ok", st, NONE)]
    return None


def _am_pre(con, E0):
    """the precondition of Model.add_metabolites without its conjunct `no context open`"""
    base = con.pre(E0)
    nc = C3._ctxs(E0.s0, E0["self"])[0]
    kept = [c for c in base.children() if not c.eq(nc == 0)]
    assert z3.is_and(base) and len(kept) == base.num_args() - 1, "c02_add_metabolites._pre: the `no context` conjunct was not found"
    return z3.And(*kept)


def call_method_hook(eng, st, recv, name, pos, kw):
    if not _mine(eng):
        return None
    model = AR._model(eng)
    if model is None:
        return None
    if isinstance(recv, VObj) and recv.oid == model.oid and name == "add_metabolites" and len(pos) == 1 and isinstance(pos[0], VRef) \
            and not kw:
        r, c = _local(eng, st, "reaction", "Reaction"), _local(eng, st, "context", "HistoryManager")
        outs = AR._apply_add_metabolites(eng, st, recv, pos[0], pre=_am_pre)
        return [(k, _append(s, K_AM, r, pos[0].t, c) if k == "ok" else s, v) for k, s, v in outs]
    if isinstance(recv, VRef) and recv.cls == "Reaction" and name == "update_genes_from_gpr" and not pos and not kw:
        c = _local(eng, st, "context", "HistoryManager")
        outs = AR._apply_update_genes(eng, st, recv)
        return [(k, _append(s, K_UG, recv.t, NULL, c) if k == "ok" else s, v) for k, s, v in outs]
    if isinstance(recv, VObj) and recv.kind == "set" and name == "add" and len(pos) == 1 and isinstance(pos[0], VRef) and not kw:
        rec = st.objs[recv.oid]
        org = rec.get("origin")
        if org is not None and org[0] == "_reaction" and not rec.get("lazy"):
            # set.add on a snapshot of a `_reaction` heap field (as pyvc.builtins does it: write through) + GHOST: membership before
            y, x = org[1], pos[0].t
            was = gh(st, "aru_was")
            st = st.setghost("aru_was", z3.Store(was, y, z3.Store(was[y], x, z3.Select(rec["dom"], x))))
            newdom = z3.Store(rec["dom"], x, z3.BoolVal(True))
            st = st.updobj(recv.oid, dom=newdom)
            st = st.setheap("_reaction", z3.Store(eng.heap_arr(st, "_reaction"), y, newdom))
            return [("ok", st, NONE)]
    return None


HOOKS = chain_hooks({"call_object": call_object_hook, "call_method": call_method_hook}, AR.HOOKS)


# ---------------------------------------------------------------- specification
def _top(E):
    nc, ec = C3._ctxs(E.s0, E["self"])
    return ec[nc - 1]


def _own_keys_do_not_list(E):
    """a key of a to-be-added reaction that is a member of model.metabolites at entry does not list the reaction at entry"""
    n, e = AR._arg(E)
    w0 = AR.W(E, E.s0)
    j, y = qv("oj"), qv("oy", Ref)
    r = z3.Select(e, j)
    return FA([j, y], z3.Implies(z3.And(0 <= j, j < n, AR._absent0(E, r), w0.Mt[r][y], w0.memM(y)), z3.Not(w0.R[y][r])),
              patterns=[w0.Mt[r][y]])


def _pre(E):
    nc = C3._ctxs(E.s0, E["self"])[0]
    base = AR._pre(E)
    kept = [c for c in base.children() if not c.eq(nc == 0)]
    assert z3.is_and(base) and len(kept) == base.num_args() - 1, "c02_add_reactions._pre: the `no context` conjunct was not found"
    return z3.And(*(kept + [nc > 0, C3._ctx_nonnull(E, "self"), _own_keys_do_not_list(E)]))


def _p_own(E, p):
    """`own-keys-do-not-list` per element of pruned"""
    w0 = AR.W(E, E.s0)
    k, y = qv("wk"), qv("wy", Ref)
    r = p.e[k]
    return FA([k, y], z3.Implies(z3.And(0 <= k, k < p.m, w0.Mt[r][y], w0.memM(y)), z3.Not(w0.R[y][r])), patterns=[w0.Mt[r][y]])


def tr_facts(E, st, p, io, cur=None, final=False):
    """the undo registrations when the reactions pruned[0..io) have been handled completely (and the reaction at io is being handled,
    `cur` = (r, j, pos): its keys enumerated before j are done); final: the post-condition (RISUB is the last entry)"""
    w0, w = AR.W(E, E.s0), AR.W(E, st)
    id0 = w0.id
    T = gh(st, "aru")
    n, kd, ar, a2, cx, ef = (T[f] for f in ("n", "kind", "arg", "arg2", "ctx", "eff"))
    whS, whU, whX, whA = (gh(st, k_) for k_ in ("aru_whS", "aru_whU", "aru_whX", "aru_whA"))
    top = _top(E)
    hi = io + 1 if cur is not None else io
    nn = n - 1 if final else n
    j, k, y = qv("tj"), qv("tk"), qv("ty", Ref)
    x, z = ar[j], a2[j]
    pv = lambda v: p.val[id0[v]]  # noqa
    in_n = z3.And(0 <= j, j < nn)
    if cur is not None:
        r, jj, pos = cur
        cur_ok = z3.Implies(x == r, pos[AR.KEYOF[r][id0[z]]] < jj)
    else:
        cur_ok = z3.BoolVal(True)
    kinds = z3.Or(z3.And(kd[j] == K_SETM, z == NULL, whS[x] == j),
                  z3.And(kd[j] == K_XREM, whX[x][z] == j, w.Mt[x][z], ef[j], cur_ok),
                  z3.And(kd[j] == K_AM, whA[x][z] == j, w.Mt[x][z], w0.Mt[x][z], w.newM(z, w0), cur_ok),
                  z3.And(kd[j] == K_UG, z == NULL, whU[x] == j, pv(x) < io))
    pk = p.e[k]
    done = z3.And(0 <= k, k < io)
    sS, sU = whS[pk], whU[pk]

    def has(xr, zz, lo_, hi_):
        a, b = whX[xr][zz], whA[xr][zz]
        return z3.Or(z3.And(lo_ < a, a < hi_, kd[a] == K_XREM, ar[a] == xr, a2[a] == zz),
                     z3.And(lo_ < b, b < hi_, kd[b] == K_AM, ar[b] == xr, a2[b] == zz, w0.R[zz][xr]))
    cs = [nn >= 0,
          # every entry: innermost context, for a reaction of pruned that has been reached, one of the kinds, justified, unique
          FA([j], z3.Implies(in_n, z3.And(cx[j] == top, AR.in_p(E, p, x, 0, hi), kinds)), patterns=[kd[j], ar[j]]),
          # per handled reaction: the model-pointer undo first, the gene update last
          FA([k], z3.Implies(done, z3.And(0 <= sS, sS < sU, sU < nn, kd[sS] == K_SETM, ar[sS] == pk, kd[sU] == K_UG, ar[sU] == pk)),
             patterns=[pk]),
          # ... and one back-reference undo (or the joining call) for every key it has now
          FA([k, y], z3.Implies(z3.And(done, w.Mt[pk][y]), has(pk, y, sS, sU)), patterns=[w.Mt[pk][y]]),
          # order: within a block SETM comes first and UG last; the blocks are contiguous and come in the order of pruned
          FA([j], z3.Implies(in_n, z3.And(whS[x] <= j, z3.Implies(pv(x) < io, j <= whU[x]))), patterns=[ar[j], kd[j]]),
          FA([k], z3.Implies(z3.And(1 <= k, k < hi), whS[pk] == whU[p.e[k - 1]] + 1), patterns=[pk]),
          z3.Implies(hi > 0, whS[p.e[0]] == 0)]
    if cur is None:
        cs.append(nn == z3.If(io > 0, whU[p.e[io - 1]] + 1, 0))
    if cur is not None:
        mm = w.em[w.vm[id0[y]]]
        cs += [z3.And(0 <= whS[r], whS[r] < nn, kd[whS[r]] == K_SETM, ar[whS[r]] == r),
               FA([y], z3.Implies(z3.And(w0.Mt[r][y], pos[y] < jj), has(r, mm, whS[r], nn)), patterns=[pos[y]])]
    if final:
        cs += [n >= 1, kd[n - 1] == K_RISUB, cx[n - 1] == top, ar[n - 1] == NULL, a2[n - 1] == NULL]
    return cs


def _inv_outer(E, Lc):
    p = AR._pruned(Lc)
    return z3.And(AR._inv_outer(E, Lc), _p_own(E, p), *tr_facts(E, Lc.st, p, Lc.i))


def _inv_inner(E, Lc):
    p = AR._pruned(Lc)
    st = Lc.st
    en = st.ghost.get("ar_enum")
    rv = Lc.var("reaction")
    if en is None or not isinstance(rv, VRef):
        return z3.BoolVal(False)
    order, pos, card, dom, r_ = en
    r = rv.t
    w0, w = AR.W(E, E.s0), AR.W(E, st)
    io = p.val[w0.id[r]]
    k, y = qv("nk"), qv("ny", Ref)
    pk = p.e[k]
    K = AR.KEYOF[r][w0.id[y]]
    extra = [
        # a reaction that is still to come is listed by no metabolite that joined during this call (Model.add_metabolites dropped it)
        FA([k, y], z3.Implies(z3.And(io < k, k < p.m, w.newM(y, w0)), z3.Not(w.R[y][pk])), patterns=[w.R[y][pk]]),
        # a metabolite that joined lists the reaction being handled only as one of its handled keys
        FA([y], z3.Implies(z3.And(w.newM(y, w0), w.R[y][r]), z3.And(w.Mt[r][y], pos[K] < Lc.i)), patterns=[w.R[y][r]])]
    return z3.And(AR._inv_inner(E, Lc), _p_own(E, p), *(extra + tr_facts(E, st, p, io, cur=(r, Lc.i, pos))))


def _outer_extra(E, Lc):
    p = AR._pruned(Lc)
    w0, w = AR.W(E, E.s0), AR.W(E, Lc.st)
    k, y = qv("nk"), qv("ny", Ref)
    pk = p.e[k]
    return FA([k, y], z3.Implies(z3.And(Lc.i <= k, k < p.m, w.newM(y, w0)), z3.Not(w.R[y][pk])), patterns=[w.R[y][pk]])


def _inv_outer2(E, Lc):
    return z3.And(_inv_outer(E, Lc), _outer_extra(E, Lc))


def _post(E):
    s1 = E.s1
    pr = s1.ghost.get("ar_pruned")
    if not isinstance(pr, VObj):
        return z3.BoolVal(False)
    p = AR.P(s1, pr)
    # the RISUB registration was made AFTER `self.reactions += pruned` (model.reactions at the registration is the exit list)
    sr = s1.ghost.get("aru_risub_state")
    if sr is None:
        return z3.BoolVal(False)
    rl = AR._dl(E, s1, "reactions")
    after = AR._same_term(L(sr, rl)[0], L(s1, rl)[0]) and AR._same_term(L(sr, rl)[1], L(s1, rl)[1])
    # `pruned` is still the well-formed DictList it was built as; the new tail of model.reactions, indexed from the list's side
    n0 = L(E.s0, rl)[0]
    n1, e1 = L(s1, rl)
    i = qv("zi")
    tail = FA([i], z3.Implies(z3.And(n0 <= i, i < n1), e1[i] == p.e[i - n0]), patterns=[e1[i]])
    return z3.And(AR._post(E), z3.BoolVal(bool(after)), WF(E, s1, pr), tail, *tr_facts(E, s1, p, p.m, final=True))


def _post_raise(E):
    return z3.And(z3.BoolVal(len(E.s1.ghost.get("ar_calls", ())) == 0), gh(E.s1, "aru")["n"] == 0)


def _mod(E):
    return AR._mod(E) + ALL_GHOST + [("ghost", "aru_risub_state", lambda st: None)]


def _outer_mod(E, Lc):
    return AR._loop_locs(E, Lc.st, True) + ALL_GHOST


def _inner_mod(E, Lc):
    return AR._loop_locs(E, Lc.st, False) + [_havoc(k) for k in ("aru", "aru_whX", "aru_whA", "aru_was")]


REG.add(Contract(MM, "Model.add_reactions", "C03", [("self", AR._model_t()), ("reaction_list", TList("ref:Reaction"))],
                 [Case("in_context", requires=AR._new_ids_distinct, ensures=_post),
                  Case("repeated_new_identifier", requires=lambda E: z3.Not(AR._new_ids_distinct(E)), raises="ValueError",
                       ensures=_post_raise)],
                 pre=_pre, modifies=_mod, key=KEY, props=["C03", "C02"],
                 loops={0: LoopSpec(_inv_outer2, _outer_mod), 1: LoopSpec(_inv_inner, _inner_mod)},
                 note="a context is open (any depth; the stack holds managers); otherwise the preconditions of Model.add_reactions "
                      "(no-context contract) plus `own-keys-do-not-list`: a key of a to-be-added reaction that is a member of "
                      "model.metabolites at entry does not list that reaction at entry. ASSUMED at the call site of "
                      "self.add_metabolites(metabolite): with a context open the callee changes the state as its no-context contract "
                      "says (its precondition without `no context open` is obliged) and registers its own undos (recorded call AM); "
                      "Reaction.update_genes_from_gpr by its proved in-context case (recorded call UG); everything else as in the "
                      "no-context contract"))


# ---------------------------------------------------------------- glue lemma: the registered undos reverse the change
def _replayed(E, T, p, views):
    """What replaying the trace T on the exit state does to the three views (closed form): RISUB takes every element of pruned out of
    model.reactions (C15: DictList.__isub__) and nothing else changes that membership; a SETM entry writes `_model[x] := None`, no
    other entry changes the model pointer of a REACTION; an XREM entry writes `x in y._reaction := False`, no other entry changes the
    `_reaction` set of an object that was a member of model.metabolites at entry (ASSUMED about the callees' own undos AM / UG: they
    touch `_model` / `_reaction` of metabolites that joined and of genes only)"""
    n, kd, ar, a2 = (T[f] for f in ("n", "kind", "arg", "arg2"))
    mo1, in1, R1, mo_f, in_f, R_f = views
    w0 = AR.W(E, E.s0)
    j, x, y = qv("rj"), qv("rx", Ref), qv("ry", Ref)
    in_n = z3.And(0 <= j, j < n)
    some = lambda K, *eqs: z3.Exists([j], z3.And(in_n, kd[j] == K, *eqs))  # noqa
    return [
        FA([x], in_f[x] == z3.And(in1(x), z3.Not(AR.in_p(E, p, x, 0, p.m))), patterns=[in_f[x]]),
        FA([j], z3.Implies(z3.And(in_n, kd[j] == K_SETM), mo_f[ar[j]] == NULL), patterns=[kd[j]]),
        FA([x], z3.Implies(z3.And(tag(x) == RXN, mo_f[x] != mo1[x]), some(K_SETM, ar[j] == x)), patterns=[mo_f[x]]),
        FA([j], z3.Implies(z3.And(in_n, kd[j] == K_XREM), z3.Not(R_f[a2[j]][ar[j]])), patterns=[kd[j]]),
        FA([y, x], z3.Implies(z3.And(w0.memM(y), R_f[y][x]), R1[y][x]), patterns=[R_f[y][x]]),
        FA([y, x], z3.Implies(z3.And(w0.memM(y), R1[y][x], z3.Not(R_f[y][x])), some(K_XREM, ar[j] == x, a2[j] == y)),
           patterns=[R_f[y][x]])]


def lemmas():
    """undo-restores: closed formulas over the very pre- and post-condition of the contract, on a synthetic pair of states"""
    from pyvc.engine import Engine, Obl, flatten_and
    from pyvc.state import State
    from pyvc.loops import havoc_locations
    eng = Engine(REG, HOOKS)
    st, a = State(), {}
    for name, t in (("self", AR._model_t()), ("reaction_list", TList("ref:Reaction"))):
        st, a[name] = t.make(st, "lma_" + name)
    st = st.assume(*eng.kind_axioms(st))
    s1 = havoc_locations(eng, st, [loc for loc in _mod(Env(a, st, eng=eng)) if loc[1] != "aru_risub_state"])
    # the ghost objects the post-condition refers to: the local DictList `pruned`, the maps of the filter, the recorded call
    s1, pr = TDictList("Reaction").make(s1, "lma_pruned")
    s1 = s1.setghost(("filter", "lma"), (z3.Const("lma_src", A_(I_, I_)), z3.Const("lma_dst", A_(I_, I_)), None))
    s1 = s1.setghost("ar_pruned", pr)
    s1 = s1.setghost("aru_risub_state", s1)
    rec = s1.objs[pr.oid]
    s1 = s1.setghost("ar_calls", (("_populate_solver", pr, (rec["len"], rec["elem"]), s1),))
    E = Env(a, st, s1, eng=eng)
    p = AR.P(s1, pr)
    ids1 = Hh(E, s1, "_id")

    def member(s, ids):
        rl = AR._dl(E, s, "reactions")
        _, e_ = L(s, rl)
        dom_, val_ = Dv(s, rl)
        return lambda v: z3.And(z3.Select(dom_, ids[v]), z3.Select(e_, z3.Select(val_, ids[v])) == v)
    in0, in1 = member(st, Hh(E, st, "_id")), member(s1, ids1)
    mo0, mo1 = Hh(E, st, "_model"), Hh(E, s1, "_model")
    R0, R1 = Hh(E, st, "_reaction"), Hh(E, s1, "_reaction")
    mo_f, in_f = z3.Const("lma_model_after_undo", mo0.sort()), z3.Const("lma_listed_after_undo", A_(Ref, B_))
    R_f = z3.Const("lma_reaction_after_undo", R0.sort())
    post = _post(E)
    hyps = list(st.pc) + list(s1.pc) + flatten_and(_pre(E)) + flatten_and(AR._new_ids_distinct(E)) + flatten_and(post) \
        + _replayed(E, gh(s1, "aru"), p, (mo1, in1, R1, mo_f, in_f, R_f))
    w0 = AR.W(E, st)
    x, y = qv("lx", Ref), qv("ly", Ref)
    goals = {"reactions-content": FA([x], z3.Implies(tag(x) == RXN, in_f[x] == in0(x)), patterns=[in_f[x]]),
             "model-pointers": FA([x], z3.Implies(tag(x) == RXN, mo_f[x] == mo0[x]), patterns=[mo_f[x]]),
             "back-references": FA([y, x], z3.Implies(w0.memM(y), R_f[y][x] == R0[y][x]), patterns=[R_f[y][x]])}
    out = [Obl(f"C03/lemma/add_reactions/undo-restores:{nm}", hyps, g, "lemma") for nm, g in goals.items()]
    probe = z3.Solver()
    probe.set("timeout", 5000)
    probe.add(*hyps)
    if probe.check() == z3.unsat:
        raise RuntimeError("c02_add_reactions_ctx.lemmas: contradictory hypotheses (vacuous lemma)")
    return out
