"""C02 (kernel) — the primitive cross-reference updates: gene association, group membership, group lookup.

Views: genes(r) = heap field `_genes` (set), reactions(g) = `_reaction` (set), members(grp) = `_members` (set), owner = `_model`.
The pairwise clause of the statement - a reaction lists a gene iff that gene lists the reaction - is proved to be preserved.
"""
import z3
from .common import *  # noqa
from . import c15_dictlist  # noqa

MR = "cobra/core/reaction.py"
MG = "cobra/core/group.py"
MM = "cobra/core/model.py"
REG.fields.update({"_genes": "set:ref:Gene", "_reaction": "set:ref:Reaction", "_model": "ref:Model", "_members": "set:ref:Object"})
REG.inline.update({"Group.members@getter"})
REG.classes.setdefault("Group", ["Object"])


def Hh(E, st, f):
    return E.eng.heap_arr(st, f)


def _only(E, field, ref, newset):
    a0, a1 = Hh(E, E.s0, field), Hh(E, E.s1, field)
    x = qv("ox", Ref)
    return z3.And(a1[ref] == newset, FA([x], z3.Implies(x != ref, a1[x] == a0[x])))


def _assoc_post(E):
    r, g = E["self"].t, E["cobra_gene"].t
    genes0, rx0 = Hh(E, E.s0, "_genes"), Hh(E, E.s0, "_reaction")
    mo0, mo1 = Hh(E, E.s0, "_model"), Hh(E, E.s1, "_model")
    x = qv("mx", Ref)
    return z3.And(_only(E, "_genes", r, z3.Store(genes0[r], g, z3.BoolVal(True))),
                  _only(E, "_reaction", g, z3.Store(rx0[g], r, z3.BoolVal(True))),
                  mo1[g] == mo0[r], FA([x], z3.Implies(x != g, mo1[x] == mo0[x])),
                  # the pair is consistent afterwards
                  Hh(E, E.s1, "_genes")[r][g] == Hh(E, E.s1, "_reaction")[g][r])


def _dissoc_post(E):
    r, g = E["self"].t, E["cobra_gene"].t
    genes0, rx0 = Hh(E, E.s0, "_genes"), Hh(E, E.s0, "_reaction")
    return z3.And(_only(E, "_genes", r, z3.Store(genes0[r], g, z3.BoolVal(False))),
                  _only(E, "_reaction", g, z3.Store(rx0[g], r, z3.BoolVal(False))),
                  Hh(E, E.s1, "_genes")[r][g] == Hh(E, E.s1, "_reaction")[g][r])


RG = [("self", TRef("Reaction")), ("cobra_gene", TRef("Gene"))]
REG.add(Contract(MR, "Reaction._associate_gene", "C02", RG, [Case("any", ensures=_assoc_post)], key="Reaction._associate_gene",
                 modifies=lambda E: [("heap", "_genes"), ("heap", "_reaction"), ("heap", "_model")]))
REG.add(Contract(MR, "Reaction._dissociate_gene", "C02", RG, [Case("any", ensures=_dissoc_post)], key="Reaction._dissociate_gene",
                 modifies=lambda E: [("heap", "_genes"), ("heap", "_reaction")]))


# ---------------------------------------------------------------- Group.add_members / remove_members (list argument)
def _grp_post(adding):
    def post(E):
        g = E["self"].t
        m0, m1 = Hh(E, E.s0, "_members")[g], Hh(E, E.s1, "_members")[g]
        n, e = L(E.s0, E["lst"])
        x, w = qv("gx", Ref), qv("gw")
        inlist = z3.Exists([w], z3.And(0 <= w, w < n, e[w] == x))
        y = qv("gy", Ref)
        return z3.And(FA([x], m1[x] == (z3.Or(m0[x], inlist) if adding else z3.And(m0[x], z3.Not(inlist)))),
                      FA([y], z3.Implies(y != g, Hh(E, E.s1, "_members")[y] == Hh(E, E.s0, "_members")[y])))
    return post


for _nm, _param, _adding in (("add_members", "new_members", True), ("remove_members", "to_remove", False)):
    REG.add(Contract(MG, f"Group.{_nm}", "C02", [("self", TRef("Group")), (_param, TList("ref:Object"))],
                     [Case("list_argument", ensures=(lambda p, a: lambda E: _grp_post(a)(Env(dict(E.a, lst=E.a[p]), E.s0, E.s1, E.res, eng=E.eng)))(_param, _adding))],
                     key=f"Group.{_nm}", modifies=lambda E: [("heap", "_members")]))


# ---------------------------------------------------------------- Model.get_associated_groups
def _gag_post(E):
    """the groups of the model that contain the element, in model order, each exactly once"""
    dl = E.s0.objs[E["self"].oid]["attr:groups"]
    n, e = L(E.s0, dl)
    rn, re_ = L(E.s1, E.res)
    mem = Hh(E, E.s0, "_members")
    x = E["element"].t
    g = E.s1.ghost
    j, i = qv("aj"), qv("ai")
    src = [v for k, v in g.items() if isinstance(k, tuple) and k[0] == "filter"]
    if not src:
        return z3.BoolVal(False)
    s_, d_, _ = src[-1]
    return z3.And(rn >= 0, rn <= n,
                  FA([j], z3.Implies(z3.And(0 <= j, j < rn), z3.And(0 <= s_[j], s_[j] < n, re_[j] == e[s_[j]], mem[e[s_[j]]][x])), patterns=[re_[j]]),
                  FA([j], z3.Implies(z3.And(0 <= j, j + 1 < rn), s_[j] < s_[j + 1])),
                  FA([i], z3.Implies(z3.And(0 <= i, i < n, mem[e[i]][x]), z3.And(0 <= d_[i], d_[i] < rn, s_[d_[i]] == i)), patterns=[e[i]]))


def _new_list(eng, st, E):
    from pyvc.state import alloc_list
    return alloc_list(st, "ref:Group")


REG.add(Contract(MM, "Model.get_associated_groups", "C02", [("self", TObj("Model", {"groups": TDictList("Group")})), ("element", TRef("Object"))],
                 [Case("any", ensures=_gag_post)], key="Model.get_associated_groups", result=_new_list))
