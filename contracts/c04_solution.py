"""C04 (kernel) — core.solution.get_solution: how the Solution is assembled from the solver's values.

Proved for every number of reactions/metabolites: fluxes[i] = primal[r_i.id] - primal[r_i.reverse_id], reduced_costs[i] =
dual[r_i.id] (the forward variable's dual, NaN-filled for integer problems; the original code reported dual[id] - dual[reverse_id],
i.e. twice the statement's c_r - sum_m S_mr pi_m since the reverse dual is always the negative: repaired in /repo), shadow_prices[i] = dual of row m_i.id, all indexed by
the right identifiers in model order; status and objective value are the solver's; the arrays are created by the call (snapshot).
numpy arrays are modelled as lists of reals (np.empty(n): n unspecified reals; .fill(x)), pandas.Series / Solution as plain
records of their keyword arguments (assumed).
"""
import z3
import cobra  # noqa
from .common import *  # noqa
from . import c15_dictlist  # noqa  (DictList contracts used at call sites)
from . import c04_status as C4
from pyvc.values import VReal
from pyvc.state import alloc_list

MSOL = "cobra/core/solution.py"
REG.records = getattr(REG, "records", set()) | {"Series", "Solution"}
from . import c01_lp as C1  # noqa  (Reaction.reverse_id@getter: PROVED there; reverse id = reverse_id_of(current id))
REVID = C1.REVID
REG.classes.setdefault("Metabolite", ["Object"])
REG.classes["Metabolite"] = ["Object"]


def _solver_t():
    return TObj("Solver", {"status": TStr(), "objective": C4.OBJ_T(), "primal_values": TDict("id", "real"),
                           "reduced_costs": TDict("id", "real"), "shadow_prices": TDict("id", "real"), "is_integer": TBool()})


def _model_t():
    return TObj("Model", {"_solver": _solver_t(), "reactions": TDictList("Reaction"), "metabolites": TDictList("Metabolite")})


def S_(E, st=None):
    return (st or E.s0).objs[(st or E.s0).objs[E["model"].oid]["attr:_solver"].oid]


def dct(E, name):
    rec = E.s0.objs[S_(E)["attr:" + name].oid]
    return rec["dom"], rec["val"]


def RX(E):
    return E.s0.objs[E["model"].oid]["attr:reactions"]


def MT(E):
    return E.s0.objs[E["model"].oid]["attr:metabolites"]


NAN = z3.Real("NaN_const")


def np_hook_call_method(eng, st, recv, name, pos, kw):
    if isinstance(recv, VObj) and recv.kind == "list" and name == "fill":
        rec = st.objs[recv.oid]
        return [("ok", st.updobj(recv.oid, elem=z3.K(z3.IntSort(), unwrap(pos[0], rec["ekind"]))), NONE)]
    return None


def np_global(eng, name):
    return None


def np_getattr(eng, st, v, name):
    if isinstance(v, VConc) and isinstance(v.py, tuple) and v.py[0] == "module" and v.py[1] == "numpy" and name == "empty":
        return [("ok", st, VFunc("np_empty"))]
    return None


def call_abstract(eng, st, f, pos, kw):
    return None


HOOKS = {"call_method": np_hook_call_method, "getattr": np_getattr}


def _pre(E):
    n, e = L(E.s0, RX(E))
    m, me = L(E.s0, MT(E))
    idA = idarr(E, E.s0)
    pd_, _ = dct(E, "primal_values")
    rd_, _ = dct(E, "reduced_costs")
    sd_, _ = dct(E, "shadow_prices")
    j = qv("gj")
    return z3.And(n >= 0, m >= 0,
                  FA([j], z3.Implies(z3.And(0 <= j, j < n), z3.And(z3.Select(pd_, idA[e[j]]), z3.Select(pd_, REVID(idA[e[j]])),
                                                                  z3.Select(rd_, idA[e[j]]), z3.Select(rd_, REVID(idA[e[j]])))), patterns=[e[j]]),
                  FA([j], z3.Implies(z3.And(0 <= j, j < m), z3.Select(sd_, idA[me[j]])), patterns=[me[j]]))


def _lst(st, v):
    rec = st.objs[v.oid]
    return rec["len"], rec["elem"]


def _flux_rows(E, st, flux, red, idx, upto, integer):
    n, e = L(E.s0, RX(E))
    idA = idarr(E, E.s0)
    _, P = dct(E, "primal_values")
    _, D = dct(E, "reduced_costs")
    fn, fe = _lst(st, flux)
    rn, re_ = _lst(st, red)
    xn, xe = _lst(st, idx)
    j = qv("fj")
    if st.objs[idx.oid]["ekind"] != "id":     # still the untyped empty list literal
        return z3.And(fn == n, rn == n, xn == upto, upto == 0)
    row = z3.And(fe[j] == P[idA[e[j]]] - P[REVID(idA[e[j]])], xe[j] == idA[e[j]])
    if integer is False:
        row = z3.And(row, re_[j] == D[idA[e[j]]])     # the dual of the forward variable = c_r - sum_m S_mr pi_m (statement)
    return z3.And(fn == n, rn == n, xn == upto, FA([j], z3.Implies(z3.And(0 <= j, j < upto), row), patterns=[fe[j]]))


def _inv_rx(integer):
    def inv(E, Lc):
        base = _flux_rows(E, Lc.st, Lc.var("fluxes"), Lc.var("reduced"), Lc.var("rxn_index"), Lc.i, integer)
        if integer:
            rn, re_ = _lst(Lc.st, Lc.var("reduced"))
            j = qv("nj")
            base = z3.And(base, FA([j], re_[j] == NAN, patterns=[re_[j]]))
        return base
    return inv


def _inv_met(E, Lc):
    m, me = L(E.s0, MT(E))
    idA = idarr(E, E.s0)
    _, SP = dct(E, "shadow_prices")
    sn, se = _lst(Lc.st, Lc.var("shadow"))
    xn, xe = _lst(Lc.st, Lc.var("met_index"))
    j = qv("mj")
    if Lc.st.objs[Lc.var("met_index").oid]["ekind"] != "id":
        return z3.And(sn == m, xn == Lc.i, Lc.i == 0)
    return z3.And(sn == m, xn == Lc.i,
                  FA([j], z3.Implies(z3.And(0 <= j, j < Lc.i), z3.And(se[j] == SP[idA[me[j]]], xe[j] == idA[me[j]])), patterns=[se[j]]))


def _mods(*names):
    def f(E, Lc):
        out = []
        for nm in names:
            v = Lc.var(nm)
            out.append(("list", v) if nm not in ("rxn_index", "met_index") else ("list", v, "id"))
        return out
    return f


def _series(E, name):
    sol = E.res
    s = E.s1.objs[sol.oid]["attr:" + name]
    rec = E.s1.objs[s.oid]
    return rec["attr:data"], rec["attr:index"]


def _post(integer):
    def post(E):
        if not (isinstance(E.res, VObj) and E.res.cls == "Solution"):
            return z3.BoolVal(False)
        n, e = L(E.s0, RX(E))
        m, me = L(E.s0, MT(E))
        idA = idarr(E, E.s0)
        fdata, fidx = _series(E, "fluxes")
        rdata, ridx = _series(E, "reduced_costs")
        sdata, sidx = _series(E, "shadow_prices")
        _, SP = dct(E, "shadow_prices")
        sn, se = _lst(E.s1, sdata)
        xn, xe = _lst(E.s1, sidx)
        j = qv("sj")
        rec = E.s1.objs[E.res.oid]
        fresh_objs = all(o.oid not in E.s0.objs for o in (fdata, rdata, sdata, fidx, sidx))
        out = [z3.BoolVal(fresh_objs), z3.BoolVal(ridx.oid == fidx.oid),
               _flux_rows(E, E.s1, fdata, rdata, fidx, n, integer),
               sn == m, xn == m, FA([j], z3.Implies(z3.And(0 <= j, j < m), xe[j] == idA[me[j]]), patterns=[xe[j]]),
               unwrap(rec["attr:status"], "id") == S_(E)["attr:status"].t,
               rec["attr:objective_value"].v == C4.value_of(E.s0, E["model"]).v]
        if integer:
            rn, re_ = _lst(E.s1, rdata)
            out += [FA([j], z3.Implies(z3.And(0 <= j, j < n), re_[j] == NAN)), FA([j], z3.Implies(z3.And(0 <= j, j < m), se[j] == NAN))]
        else:
            out += [FA([j], z3.Implies(z3.And(0 <= j, j < m), se[j] == SP[idA[me[j]]]), patterns=[se[j]])]
        return z3.And(*out)
    return post


def _status_ok(E):
    st = S_(E)["attr:status"]
    return z3.Or(C4._is_status(st, "optimal"), z3.And(C4._in_has_primals(st), z3.Not(E["raise_error"].t)))


def _cases():
    out = []
    for tag, integer in (("continuous_problem", False), ("integer_problem", True)):
        c = Case(tag, requires=(lambda integer: lambda E: z3.And(_status_ok(E), S_(E)["attr:is_integer"].t == integer))(integer),
                 ensures=_post(integer))
        out.append(c)
    out.append(Case("status_without_primals", requires=lambda E: z3.Not(_status_ok(E)), raises="OptimizationError"))
    return out


_n1, _n2 = TNone(), TNone()
_n1.default = NONE
_n2.default = NONE
_rb = TBool()
_rb.default = VBool(False)
REG.add(Contract(MSOL, "get_solution", "C04", [("model", _model_t()), ("reactions", _n1), ("metabolites", _n2), ("raise_error", _rb)],
                 _cases(), pre=_pre, key="get_solution:body",
                 loops={0: LoopSpec(_inv_rx(True), _mods("fluxes", "rxn_index")),
                        1: LoopSpec(_inv_rx(False), _mods("fluxes", "reduced", "rxn_index")),
                        2: LoopSpec(_inv_met, _mods("shadow", "met_index"))}))
