"""C09 (kernel) — room.add_room: the documented secondary problem of ROOM, through the opaque expression algebra.

Proved for models with any number of reactions (post-condition taken from the docstring's formulation, not from the code).
With S the reference solution (the one given, else the result of the single call pfba(model), made BEFORE the objective is
touched), and for EVERY reaction r of the model, w = S.fluxes[r.id] (looked up by the reaction's id),
    d, eps = (delta, epsilon)   or (0.0, 0.0) when linear,
    w_u = w + d*|w| + eps,  w_l = w - d*|w| - eps,
    y_r      = Variable("y_" + r.id, type="binary")            (Variable("y_" + r.id, lb=0, ub=1) when linear),
    upper_r  = Constraint(flux_expression(r) - y_r*(ub(r) - w_u), ub=w_u, name="room_constraint_upper_" + r.id),
    lower_r  = Constraint(flux_expression(r) - y_r*(lb(r) - w_l), lb=w_l, name="room_constraint_lower_" + r.id),
flux_expression(r) = 1.0*forward_variable(r) - 1.0*reverse_variable(r) (the getter is executed, not assumed), the function
makes exactly ONE call model.add_cons_vars(L) with
    L = [Variable("room_old_objective"), Constraint(<old objective expression> - that variable, lb=0.0, ub=0.0,
         name="room_old_objective_constraint"), y_r1, upper_r1, lower_r1, y_r2, upper_r2, lower_r2, ...]   (len 2 + 3n),
replaces the objective by Objective(Zero, direction="min", sloppy=True) and then sets coefficient 1 on every y_r and on
nothing else (every other coefficient, of opaque and of reaction variables alike, is the 0 of the fresh objective);
a model whose solver already has a variable "room_old_objective" raises ValueError before anything is done (no pfba call).
Lemmas (LRA) over the formulation: with y = 0 the two rows confine the flux to [w_l, w_u]; with y = 1 they are the reaction's
own bounds; for 0 <= y <= 1 (the linear relaxation) they are the interpolation; w_l <= w <= w_u when delta, eps >= 0.
"""
import z3
import cobra  # noqa
from .common import *  # noqa
from . import c15_dictlist  # noqa
from . import c01_lp as C1
from . import c05_fva as C5
from pyvc import npalg as N
from pyvc import builtins as B
from pyvc.engine import STR_CONCAT
from pyvc.values import id_lit, VReal

MR = "cobra/flux_analysis/room.py"
REG.inline.add("Reaction.flux_expression@getter")
NpCoef = z3.ArraySort(N.NP, z3.RealSort())
of_var = z3.Function("np:of_var", Ref, N.NP)      # an optlang Variable object seen as an operand of expression arithmetic
ZERO = z3.Const("np:Zero", N.NP)


def objc_np(st):
    """ghost: linear objective coefficients of opaque (freshly constructed) optlang variables"""
    return st.ghost.get("objc_np", z3.Const("objc_np0", NpCoef))


def _model_t():
    obj = TObj("Objective", {"name": TStr(), "direction": TStr(), "expression": N.TNp()})
    sol = TObj("Solver", {"objective": obj, "variables": N.TNp()})
    return TObj("Model", {"_solver": sol, "reactions": TDictList("Reaction"), "problem": N.TNp()})


# ---------------------------------------------------------------- hooks: what the external objects mean
def global_hook(eng, name):
    if name == "Zero":
        return N.VNp(ZERO)
    if name == "pfba":
        return VFunc("abstract", "pfba")
    if name == "sutil":
        return VConc(("module", "cobra.util.solver"))
    if name == "abs":
        return VFunc("abstract", "abs")
    return None


def _objective_of(st, model):
    return st.objs[st.objs[model.oid]["attr:_solver"].oid]["attr:objective"]


def getattr_hook(eng, st, v, name):
    if isinstance(v, VObj) and v.cls == "Model" and name == "objective":
        return [("ok", st, _objective_of(st, v))]
    return None


def call_abstract(eng, st, f, pos, kw):
    if f.a == "pfba":
        # pfba(model): the reference solution when none is given (its own contract is the C09 pFBA part); result opaque
        res = N.VNp(fresh("np:pfba_solution", N.NP))
        tr = st.ghost.get("trace", ())
        untouched = st.ghost.get("objective_installed") is None
        return [("ok", st.setghost("trace", tr + (("pfba", tuple(pos), tuple(sorted(kw)), res, untouched),)), res)]
    if f.a == "abs":
        if len(pos) == 1 and isinstance(pos[0], N.VNp):
            return [("ok", st, N.app("abs", pos[0]))]
        return B.bi_abs(eng, st, pos, kw)
    return None


def want_objective(prob):
    return N.term("call(direction,sloppy)", N.term("attr.Objective", prob), ZERO, N.lift(VConc("min")), N.lift(VBool(True)))


def setattr_hook(eng, st, v, name, val):
    """model.objective = problem.Objective(Zero, direction=..., sloppy=True): a fresh zero objective (ghost: all coefficients 0)"""
    if isinstance(v, VObj) and v.cls == "Model" and name == "objective" and isinstance(val, N.VNp):
        obj = _objective_of(st, v)
        is_room = val.t == want_objective(st.objs[v.oid]["attr:problem"].t)
        st2 = st.updobj(obj.oid, **{"attr:name": VStr(fresh("objname", Id)), "attr:expression": N.VNp(fresh("np:objexpr", N.NP)),
                                    "attr:direction": VStr(z3.If(is_room, id_lit("min"), fresh("objdir", Id)))})
        st2 = st2.setghost("objc", z3.K(Ref, z3.RealVal(0))).setghost("objc_np", z3.K(N.NP, z3.RealVal(0)))
        return [("ok", st2.setghost("objective_installed", is_room), NONE)]
    return None


def list_display(eng, st, vs):
    """[variable, constraint] / [y, upper, lower]: a real python list of opaque objects (the structure is what is proved)"""
    if vs and all(isinstance(x, N.VNp) for x in vs):
        return [B.list_from_values(eng, st, vs, ekind="np")]
    return None


def binop_hook(eng, st, op, a, b):
    """1.0 * forward_variable: expression arithmetic on the optlang variables of a reaction (Ref) is opaque as well"""
    def is_var(x):
        return isinstance(x, VRef) and x.cls == "Variable"
    if (is_var(a) or is_var(b)) and type(op) in N.OPS:
        a2 = N.VNp(of_var(a.t)) if is_var(a) else a
        b2 = N.VNp(of_var(b.t)) if is_var(b) else b
        return [("ok", st, N.app(N.OPS[type(op)], a2, b2))]
    return None


def contains_hook(eng, st, cont, item):
    if isinstance(cont, N.VNp):
        return [("ok", st, VBool(N.truthy(N.app("contains", cont, item).t)))]
    return None


def call_method_hook(eng, st, recv, name, pos, kw):
    if isinstance(recv, VObj) and recv.cls == "Model" and name == "add_cons_vars":
        # Model.add_cons_vars(what) hands `what` to add_cons_vars_to_problem (proved under C03 / C09): the list as it is NOW
        what = pos[0] if pos else None
        snap = None
        if isinstance(what, VObj) and what.kind == "list":
            rec = st.objs[what.oid]
            snap = (rec["len"], rec["elem"], rec["ekind"])
        tr = st.ghost.get("trace", ())
        return [("ok", st.setghost("trace", tr + (("add_cons_vars", recv, snap, tuple(sorted(kw)), len(pos)),)), NONE)]
    if isinstance(recv, VObj) and recv.cls == "Objective" and name == "set_linear_coefficients" and len(pos) == 1 \
            and isinstance(pos[0], VObj) and pos[0].kind == "dict" and st.objs[pos[0].oid].get("kkind") == "np":
        return eng.apply_contract(st, REG.get("Objective.set_linear_coefficients[opaque]"), [recv] + list(pos), kw)
    return None


MINE = {"add_room", "add_moma"}


def _only_mine(f):
    """these hooks give meaning to external objects only while add_room / add_moma are executed (other C09 contracts chained into
    the same property keep their own reading of `model.objective = ...`, list displays, ...)"""
    def h(eng, *a, **kw):
        c = getattr(eng, "cur_contract", None)
        if c is None or c.key not in MINE:
            return None
        return f(eng, *a, **kw)
    return h


OWN_HOOKS = {k: _only_mine(f) for k, f in {
    "global": global_hook, "getattr": getattr_hook, "call_abstract": call_abstract, "setattr": setattr_hook, "list_display": list_display,
    "binop": binop_hook, "contains": contains_hook, "call_method": call_method_hook}.items()}
HOOKS = chain_hooks(OWN_HOOKS, N.HOOKS)


# objective.set_linear_coefficients({opaque variable: coef, ...})  (assumed, optlang) - same statement as the Ref-keyed one of C05
def _slc_np_post(E):
    d = E.s0.objs[E["coefficients"].oid]
    o0, o1 = objc_np(E.s0), objc_np(E.s1)
    x = qv("cx", N.NP)
    val = z3.Select(d["val"], x)
    val = z3.ToReal(val) if d["vkind"] == "int" else val
    return FA([x], o1[x] == z3.If(z3.Select(d["dom"], x), val, o0[x]), patterns=[o1[x]])


REG.add(Contract("optlang/interface.py", "Objective.set_linear_coefficients", "C09",
                 [("self", TObj("Objective", {})), ("coefficients", TDict("np", "real"))], [Case("any", ensures=_slc_np_post)],
                 assumed=True, key="Objective.set_linear_coefficients[opaque]",
                 modifies=lambda E: [("ghost", "objc_np", lambda st: fresh("objc_np", NpCoef))],
                 note="optlang Objective.set_linear_coefficients on freshly constructed (opaque) variables: sets exactly the given "
                      "coefficients and no other"))
REG.external_classes = getattr(REG, "external_classes", set()) | {"Objective"}


# ---------------------------------------------------------------- the documented formulation, as terms
OLD_VAR, OLD_CONS = "room_old_objective", "room_old_objective_constraint"


def _m(E, st=None):
    return (st or E.s0).objs[E["model"].oid]


def _prob(E):
    return _m(E)["attr:problem"].t


def _lit(s):
    return N.lift(VConc(s))


def _real(x):
    return N.lift(VReal(0, z3.RealVal(x)))


def old_variable(E, name=OLD_VAR):
    return N.term("call", N.term("attr.Variable", _prob(E)), _lit(name))


def old_constraint(E, vname=OLD_VAR, cname=OLD_CONS):
    expr0 = E.s0.objs[_objective_of(E.s0, E["model"]).oid]["attr:expression"].t      # the objective expression AT ENTRY
    return N.term("call(lb,name,ub)", N.term("attr.Constraint", _prob(E)), N.term("sub", expr0, old_variable(E, vname)),
                  _real(0), _lit(cname), _real(0))


def _tolerances(E):
    lin = E["linear"].t
    return z3.If(lin, _real(0), N.lift(E["delta"])), z3.If(lin, _real(0), N.lift(E["epsilon"]))


def reference(E, S, r):
    """w = S.fluxes[r.id]: BY REACTION ID"""
    return N.term("getitem", N.term("attr.fluxes", S), N.of_id(idarr(E, E.s0)[r]))


def w_upper(E, S, r):
    d, eps = _tolerances(E)
    w = reference(E, S, r)
    return N.term("add", N.term("add", w, N.term("mul", d, N.term("abs", w))), eps)


def w_lower(E, S, r):
    d, eps = _tolerances(E)
    w = reference(E, S, r)
    return N.term("sub", N.term("sub", w, N.term("mul", d, N.term("abs", w))), eps)


def _name(E, prefix, r):
    return N.of_id(STR_CONCAT(id_lit(prefix), idarr(E, E.s0)[r]))


def y_var(E, r):
    ctor = N.term("attr.Variable", _prob(E))
    nm = _name(E, "y_", r)
    return z3.If(E["linear"].t, N.term("call(lb,ub)", ctor, nm, N.lift(VInt(0)), N.lift(VInt(1))),
                 N.term("call(type)", ctor, nm, _lit("binary")))


def flux_expression(r):
    """1.0 * forward - 1.0 * reverse: the net flux of the reaction (C01: ranges over exactly [lb, ub])"""
    return N.term("sub", N.term("mul", _real(1), of_var(C1.fwd(r))), N.term("mul", _real(1), of_var(C1.rev(r))))


def upper_row(E, S, r):
    _, ub = C1.lbub(E, E.s0, r)
    wu = w_upper(E, S, r)
    body = N.term("sub", flux_expression(r), N.term("mul", y_var(E, r), N.term("sub", N.lift(ub), wu)))
    return N.term("call(name,ub)", N.term("attr.Constraint", _prob(E)), body, _name(E, "room_constraint_upper_", r), wu)


def lower_row(E, S, r):
    lb, _ = C1.lbub(E, E.s0, r)
    wl = w_lower(E, S, r)
    body = N.term("sub", flux_expression(r), N.term("mul", y_var(E, r), N.term("sub", N.lift(lb), wl)))
    return N.term("call(lb,name)", N.term("attr.Constraint", _prob(E)), body, wl, _name(E, "room_constraint_lower_", r))


def _rxns(E):
    return L(E.s0, _m(E)["attr:reactions"])


def _blocks(E, S, elem, upto, rx):
    """elem[2 + 3j .. 2 + 3j + 2] = (y, upper row, lower row) of the j-th reaction, for every j < upto"""
    j = qv("bj")
    return FA([j], z3.Implies(z3.And(0 <= j, j < upto),
                              z3.And(elem[2 + 3 * j] == y_var(E, rx[j]), elem[3 + 3 * j] == upper_row(E, S, rx[j]),
                                     elem[4 + 3 * j] == lower_row(E, S, rx[j]))), patterns=[rx[j]])


# ---------------------------------------------------------------- contract
def _already(E, name=OLD_VAR):
    variables = E.s0.objs[_m(E)["attr:_solver"].oid]["attr:variables"].t
    return N.truthy(N.term("contains", variables, _lit(name)))


def _trace_ref(E, tr):
    """(reference solution term, is the trace shaped as documented) for the trace of calls made by the function"""
    given = E["solution"]
    if isinstance(given, VNone):
        # pfba(model) exactly once, first, on the untouched model
        ok = (len(tr) == 2 and tr[0][0] == "pfba" and len(tr[0][1]) == 1 and isinstance(tr[0][1][0], VObj)
              and tr[0][1][0].oid == E["model"].oid and not tr[0][2] and tr[0][4] is True)
        return (tr[0][3].t if ok else None), ok
    ok = len(tr) == 1
    return (given.t if isinstance(given, N.VNp) else None), ok


def _post(E):
    tr = E.s1.ghost.get("trace", ())
    S, ok = _trace_ref(E, tr)
    if not ok or S is None or tr[-1][0] != "add_cons_vars":
        return z3.BoolVal(False)
    _, recv, snap, kws, npos = tr[-1]
    if not (isinstance(recv, VObj) and recv.oid == E["model"].oid and snap is not None and snap[2] == "np" and not kws and npos == 1):
        return z3.BoolVal(False)
    ln, elem, _ = snap
    n, rx = _rxns(E)
    inst = E.s1.ghost.get("objective_installed")
    obj1 = E.s1.objs[_objective_of(E.s1, E["model"]).oid]
    x, xr, w = qv("px", N.NP), qv("pr", Ref), qv("pw")
    is_y = z3.Exists([w], z3.And(0 <= w, w < n, x == y_var(E, rx[w])))
    o1 = objc_np(E.s1)
    return z3.And(ln == 2 + 3 * n, elem[0] == old_variable(E), elem[1] == old_constraint(E),          # one add_cons_vars call with ...
                  _blocks(E, S, elem, n, rx),
                  inst if inst is not None else z3.BoolVal(False),                                    # Objective(Zero, "min", sloppy)
                  obj1["attr:direction"].t == id_lit("min"),
                  FA([x], o1[x] == z3.If(is_y, z3.RealVal(1), z3.RealVal(0)), patterns=[o1[x]]),      # 1 on every y, 0 elsewhere
                  FA([xr], C5.objc(E.s1)[xr] == 0, patterns=[C5.objc(E.s1)[xr]]))


def _pre(E):
    dl = _m(E)["attr:reactions"]
    n, e = L(E.s0, dl)
    j = qv("pj")
    return z3.And(WF(E, E.s0, dl), FA([j], z3.Implies(z3.And(0 <= j, j < n), C1.model_of(E, E.s0, e[j]) != NULL), patterns=[e[j]]))


def _mod(E):
    o = _objective_of(E.s0, E["model"])
    return [("ghost", "trace", lambda st: ()), ("ghost", "objc", lambda st: fresh("objc", C5.CoefMap)),
            ("ghost", "objc_np", lambda st: fresh("objc_np", NpCoef)), ("ghost", "objective_installed", lambda st: None),
            ("attr", o, "name", lambda st: (st, VStr(fresh("nm", Id)))), ("attr", o, "direction", lambda st: (st, VStr(fresh("dr", Id)))),
            ("attr", o, "expression", lambda st: (st, N.VNp(fresh("np:expr", N.NP))))]


def _ref_in_loop(E, Lc):
    """the reference solution as the loop sees it: the local `solution`"""
    s = Lc.var("solution")
    return s.t if isinstance(s, N.VNp) else None


def _loop_inv(E, Lc):
    S = _ref_in_loop(E, Lc)
    vc, ov = Lc.var("vars_and_cons"), Lc.var("obj_vars")
    if S is None or not (isinstance(vc, VObj) and isinstance(ov, VObj)):
        return z3.BoolVal(False)
    rvc, rov = Lc.st.objs[vc.oid], Lc.st.objs[ov.oid]
    if rvc["ekind"] != "np" or (rov["ekind"] != "np" and not z3.is_int_value(z3.simplify(rov["len"]))):
        return z3.BoolVal(False)
    n, rx = _rxns(E)
    i = Lc.i
    j = qv("ij")
    d, eps = Lc.var("delta"), Lc.var("epsilon")
    keep = z3.Implies(z3.Not(E["linear"].t), z3.And(N.lift(d) == N.lift(E["delta"]), N.lift(eps) == N.lift(E["epsilon"])))
    out = [rvc["len"] == 2 + 3 * i, rvc["elem"][0] == old_variable(E), rvc["elem"][1] == old_constraint(E),
           _blocks(E, S, rvc["elem"], i, rx), rov["len"] == i, keep]
    if rov["ekind"] == "np":
        out.append(FA([j], z3.Implies(z3.And(0 <= j, j < i), rov["elem"][j] == y_var(E, rx[j])), patterns=[rx[j], rov["elem"][j]]))
    return z3.And(*out)


def _loop_mod(E, Lc):
    return [("list", Lc.var("vars_and_cons")), ("list", Lc.var("obj_vars"), "np")]


def _cases():
    out = []
    nothing_done = lambda E: z3.BoolVal(len(E.s1.ghost.get("trace", ())) == 0 and E.s1.ghost.get("objective_installed") is None)  # noqa
    for tag, t in (("reference_given", N.TNp()), ("reference_from_pfba", TNone())):
        c = Case(tag, requires=lambda E: z3.Not(_already(E)), ensures=_post)
        bad = Case("already_room/" + tag, requires=_already, raises="ValueError", ensures=nothing_done)
        c.params_override = bad.params_override = {"solution": t}
        out += [c, bad]
    return out


REG.add(Contract(MR, "add_room", "C09",
                 [("model", _model_t()), ("solution", N.TNp()), ("linear", TBool()), ("delta", TReal()), ("epsilon", TReal())],
                 _cases(), pre=_pre, modifies=_mod, loops={0: LoopSpec(_loop_inv, _loop_mod)}, key="add_room"))


def lemmas():
    from pyvc.engine import Obl
    v, y, ub, lb, w, d, e = z3.Reals("r_v r_y r_ub r_lb r_w r_d r_e")
    absw = z3.If(w >= 0, w, -w)
    wu, wl = w + d * absw + e, w - d * absw - e
    rows = [v - y * (ub - wu) <= wu, v - y * (lb - wl) >= wl]
    return [Obl("C09/lemma/room/y-zero-confines-flux-to-tolerance-band", rows + [y == 0], z3.And(wl <= v, v <= wu), "lemma"),
            Obl("C09/lemma/room/y-one-leaves-the-reaction-bounds", [y == 1], z3.And(*rows) == z3.And(lb <= v, v <= ub), "lemma"),
            Obl("C09/lemma/room/flux-outside-band-forces-y-positive", rows + [0 <= y, z3.Or(v > wu, v < wl)], y > 0, "lemma"),
            Obl("C09/lemma/room/reference-lies-in-its-band", [d >= 0, e >= 0], z3.And(wl <= w, w <= wu), "lemma"),
            Obl("C09/lemma/room/relaxed-rows-interpolate-band-and-bounds", rows + [0 <= y, y <= 1, lb <= wl, wu <= ub],
                z3.And(lb <= v, v <= ub), "lemma")]
