"""C01 - the `Model.solver` SETTER (cobra/core/model.py): switching the solver interface.

STATEMENT (C01 names "switching the solver interface" among the operations after which the solver still holds the model's problem).
The body: `interface = check_solver(value)`; `if self.problem == interface: return`; in a context register
`partial(setattr, self, "_solver", self._solver)`; `self._solver = interface.Model.clone(self._solver)`.

PROVED (materialised model with `_solver`, `_contexts`, `_tolerance`; 4 cases, every path):
  unknown            check_solver raises SolverNotFound (ghost predicate not chk_ok(value): a name that is not a key of `solvers`, or an
                     object that is neither an interface module nor an optlang Model): the exception propagates and NOTHING has
                     changed - `_solver` is the very object it was, no call, nothing registered;
  same_interface     the resolved interface IS the interface of the current solver (`self.problem == interface`): nothing happens -
                     `_solver` is the same OBJECT (no clone: the solver's state, incl. a warm start, is kept), no call, nothing
                     registered, also inside a context;
  switch:no_context  exactly one call interface.Model.clone(<the old solver object>), `_solver` is the object it returned: a NEW
                     object (not the old one), of the requested interface, whose problem is the old one's (lp_of(new) == lp_of(old):
                     ASSUMED clone contract - same variables / constraints / objective by name, bounds, coefficients, direction);
                     the old solver object is not modified; nothing registered;
  switch:in_context  as above, and BEFORE the clone exactly ONE entry is registered, in the INNERMOST context:
                     partial(setattr, self, "_solver", <the previous solver OBJECT>) - the object itself, not a copy and not the
                     interface (repair 10ce3f2: undo functions registered before the switch refer to that object, so leaving the
                     context puts it back); ghost trace == [push(innermost, entry), clone(interface, old)].
  TOLERANCES (every case): the setter makes NO tolerance call and `_tolerance` keeps its value (frame); whether the NEW solver
  object's configuration carries the model's tolerance is NOT established by this function - it is whatever the assumed
  `clone` does (optlang clones through to_json / from_json, which do carry the configuration's tolerances for interfaces that
  have them; a tolerance the new interface does not support cannot be carried).  Not claimed here.
ASSUMED: check_solver as a look-up (chk_ok / chk_iface of the argument; its interface_to_str / `solvers` table / warning for osqp and
cbc are not modelled); Model.problem == the interface of the current solver object (iface_of; the getter is `self.solver.interface`);
`interface.Model.clone(s)` returns a new object of that interface with lp_of equal, modifies nothing (may raise inside optlang: not
modelled); get_context by its PROVED C03 contract; HistoryManager.__call__ as the ghost push event of contracts/c03_context.py.

MUTATION TRIALS (tools/mutate_and_run.sh cobra/core/model.py ... contracts.c01_solver_setter --hooks HOOKS Model.solver@setter; all fail):
  `if self.problem != interface:`                                          -> same_interface post sat (both exits)
  undo restores the interface: `partial(setattr, self, "_solver", interface)` -> switch:in_context post sat (shape: not the old object)
  clone (and assignment) moved BEFORE get_context / the registration        -> switch:in_context post sat, switch:no_context post sat
                                                                               (the entry captures the NEW object; two clones)
  `self._solver = self._solver` (no clone)                                  -> switch:in_context post sat, switch:no_context post sat
  early `return` replaced by `pass`                                         -> same_interface post sat (the solver is cloned)
  `self._tolerance = 1e-07` inserted                                        -> switch:in_context post.2 sat, switch:no_context post.1 sat
  registration dropped (`pass`)                                             -> switch:in_context post sat
"""
import z3
from .common import *  # noqa
from . import c03_context as C3

MM = "cobra/core/model.py"
KEY = "Model.solver@setter"
KEYS = [KEY]
chk_ok = z3.Function("ss_check_solver_ok", Ref, z3.BoolSort())        # check_solver(value) returns (does not raise SolverNotFound)
chk_iface = z3.Function("ss_check_solver_iface", Ref, Ref)            # ... and the interface it returns
iface_of = z3.Function("ss_interface_of", Ref, Ref)                   # solver object -> its optlang interface module
LP = z3.DeclareSort("ss_LP")
lp_of = z3.Function("ss_lp_of", Ref, LP)                               # solver object -> its problem (variables, constraints, objective)


def _cur(eng):
    return getattr(getattr(eng, "cur_contract", None), "key", None)


def global_hook(eng, name):
    if _cur(eng) == KEY and name == "check_solver":
        return VFunc("abstract", "ss:check_solver")
    return None


def getattr_hook(eng, st, v, name):
    if _cur(eng) != KEY:
        return None
    if isinstance(v, VObj) and v.cls == "Model" and name == "problem":
        s = st.objs[v.oid]["attr:_solver"]
        return [("ok", st, VRef(iface_of(s.t), "Interface"))]
    if isinstance(v, VRef) and v.cls == "Interface" and name == "Model":
        return [("ok", st.setghost("ss_iface", v), VFunc("abstract", "ss:ModelClass"))]
    if isinstance(v, VFunc) and v.kind == "abstract" and v.a == "ss:ModelClass" and name == "clone":
        return [("ok", st, VFunc("abstract", "ss:clone"))]
    return None


def call_abstract_hook(eng, st, f, pos, kw):
    if f.a == "ss:check_solver":
        if kw or len(pos) != 1 or not isinstance(pos[0], VRef):
            raise Unsupported("check_solver with something else than one opaque argument")
        v = pos[0].t
        res = []
        for ok, s in eng.branch(st, chk_ok(v)):
            if ok:
                res.append(("ok", s.assume(chk_iface(v) != NULL), VRef(chk_iface(v), "Interface")))
            else:
                res.append(eng.raise_(s, "SolverNotFound"))
        return res
    if f.a == "ss:clone":
        if kw or len(pos) != 1 or not isinstance(pos[0], VRef):
            raise Unsupported("clone with something else than one solver object")
        itf = st.ghost["ss_iface"]
        new = fresh("cloned_solver", Ref)
        st = st.assume(new != NULL, new != pos[0].t, iface_of(new) == itf.t, lp_of(new) == lp_of(pos[0].t))
        tr = st.ghost.get("trace", ())
        return [("ok", st.setghost("trace", tr + (("clone", itf, pos[0], new),)), VRef(new, "Solver"))]
    return None


HOOKS = chain_hooks({"global": global_hook, "getattr": getattr_hook, "call_abstract": call_abstract_hook}, C3.HOOKS)


def _model_t():
    return TObj("Model", {"_solver": TRef("Solver"), "_contexts": TList("ref:HistoryManager"), "_tolerance": TReal()})


def _old(E):
    return E.s0.objs[E["self"].oid]["attr:_solver"]


def _now(E):
    return E.s1.objs[E["self"].oid]["attr:_solver"]


def _trace(E):
    return E.s1.ghost.get("trace", ())


def _has_ctx(E):
    return C3._gc_has(Env({"obj": E["self"]}, E.s0, eng=E.eng))


def _untouched(E):
    """`_solver` is the very object it was, the tolerance too, no call, nothing registered"""
    r0, r1 = E.s0.objs[E["self"].oid], E.s1.objs[E["self"].oid]
    return z3.BoolVal(_now(E) is _old(E) and r1["attr:_tolerance"] is r0["attr:_tolerance"] and _trace(E) == ())


def _same_iface(E):
    return iface_of(_old(E).t) == chk_iface(E["value"].t)


def _switched(E, ev):
    if not (ev[0] == "clone" and isinstance(_now(E), VRef)):
        return z3.BoolVal(False)
    _, itf, arg, new = ev
    r0, r1 = E.s0.objs[E["self"].oid], E.s1.objs[E["self"].oid]
    return z3.And(z3.BoolVal(arg is _old(E) and r1["attr:_tolerance"] is r0["attr:_tolerance"]),
                  itf.t == chk_iface(E["value"].t), _now(E).t == new, new != _old(E).t, new != NULL,
                  iface_of(new) == chk_iface(E["value"].t), lp_of(new) == lp_of(_old(E).t))


def _post_switch(E):
    tr = _trace(E)
    if len(tr) != 1:
        return z3.BoolVal(False)
    return _switched(E, tr[0])


def _post_switch_ctx(E):
    tr = _trace(E)
    if not (len(tr) == 2 and tr[0][0] == "push"):
        return z3.BoolVal(False)
    _, ctx, entry = tr[0]
    n, e = C3._ctxs(E.s0, E["self"])
    shape = (isinstance(entry, VFunc) and entry.kind == "partial" and isinstance(entry.a, VFunc) and entry.a.kind == "builtin"
             and entry.a.a == "setattr" and len(entry.b) == 3 and isinstance(entry.b[0], VObj) and entry.b[0].oid == E["self"].oid
             and isinstance(entry.b[1], VConc) and entry.b[1].py == "_solver" and isinstance(entry.b[2], VRef)
             and entry.b[2].t.eq(_old(E).t))          # the very term that denotes the previous solver object
    if not shape:
        return z3.BoolVal(False)
    return z3.And(ctx.t == e[n - 1], _switched(E, tr[1]))          # one entry, innermost context, the OLD object, before the clone


_cases = [
    Case("unknown", requires=lambda E: z3.Not(chk_ok(E["value"].t)), raises="SolverNotFound", ensures=_untouched),
    Case("same_interface", requires=lambda E: z3.And(chk_ok(E["value"].t), _same_iface(E)), ensures=_untouched),
    Case("switch:no_context", requires=lambda E: z3.And(chk_ok(E["value"].t), z3.Not(_same_iface(E)), z3.Not(_has_ctx(E))),
         ensures=_post_switch),
    Case("switch:in_context", requires=lambda E: z3.And(chk_ok(E["value"].t), z3.Not(_same_iface(E)), _has_ctx(E)),
         ensures=_post_switch_ctx),
]
REG.add(Contract(MM, "Model.solver@setter", "C01", [("self", _model_t()), ("value", TRef("Any"))], _cases, key=KEY,
                 pre=lambda E: C3._ctx_nonnull(E, "self"), modifies=lambda E: [("obj", E["self"])],
                 note="check_solver, Model.problem, interface.Model.clone: assumed look-ups / allocation (see the module docstring)"))
