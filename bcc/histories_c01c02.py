"""Histories of public model-editing operations for the bounded drivers C01 (Inv_LP) and C02 (Inv_XRef + reference).

A *history* is a JSON-able list of steps ``[opname, arg, ...]`` applied to a small base model (JSON-able spec, see
``hand_bases`` / ``gen_bases``) under one solver interface.  ``run_history`` executes it on the real cobra objects and,
after EVERY step (also after steps that raise), evaluates

* mode "C01": ``bcc.views.check_lp_reported(model, user_vars, user_cons)`` (GLPK problem read back through swiglpk),
* mode "C02": ``bcc.views.check_xref(model)`` and the comparison of the model's content with ``Ref`` - an executable
  reference description of the *documented* semantics of every operation on plain dict/set data (written from the
  docstrings of core/model.py, core/reaction.py, core/group.py, manipulation/delete.py, manipulation/modify.py).

Handles: steps name objects by identifier.  A successful rename records ``alias[old] = new`` so that later steps written
with the old name follow the object; a reaction removed by ``rm_rxn`` is kept (detached) so that ``readd`` can put the
very same object back.

Numbers: +-inf are written "inf" / "-inf" in specs and histories (decoded with ``float``).
"""
import copy as _copy
import hashlib
import itertools
import json
import logging
import pickle
import random
import re
import time
import warnings

INF = float("inf")
CFG_LB, CFG_UB = -1000.0, 1000.0          # documented defaults of cobra.Configuration().lower_bound / upper_bound
COMP = {"a_e": "e", "b_c": "c", "c_c": "c", "d_c": "c", "bx_c": "c", "a2_e": "e"}   # compartments of the universe
TYPENAME = {"reaction": "Reaction", "metabolite": "Metabolite", "gene": "Gene", "group": "Group"}


class Skip(Exception):
    """the step is not applicable in the current state (harness precondition, not an operation outcome)"""


def num(x):
    return None if x is None else float(x)


def enc(x):
    """JSON-safe number"""
    if isinstance(x, float) and x in (INF, -INF):
        return "inf" if x > 0 else "-inf"
    return x


def quiet():
    warnings.simplefilter("ignore")
    logging.disable(logging.CRITICAL)


# =====================================================================================================================
# base models
# =====================================================================================================================

def hand_bases():
    b0 = {"id": "B0", "metabolites": [["a_e", "e"], ["b_c", "c"], ["c_c", "c"]],
          "reactions": [["EX_a_e", -10, 1000, {"a_e": -1}, ""],
                        ["R0", 0, 1000, {"a_e": -1, "b_c": 1}, "g1 and g2"],
                        ["R1", -1000, 1000, {"b_c": -1, "c_c": 2}, "g1 or g3"],
                        ["R2", 0, 10, {"c_c": -1}, ""]],
          "objective": {"R2": 1}, "direction": "max",
          "groups": [["grp1", "partonomy", [["reaction", "R0"], ["metabolite", "b_c"]]]]}
    b1 = {"id": "B1", "metabolites": [["a_e", "e"], ["b_c", "c"], ["c_c", "c"]],
          "reactions": [["EX_a_e", "-inf", "inf", {"a_e": 1}, ""],
                        ["R0", 1, 10, {"a_e": -1, "b_c": 1}, "g1"],
                        ["R1", -10, -1, {"c_c": -1, "b_c": 1}, "g2 and (g1 or g3)"],
                        ["R2", 0, "inf", {"c_c": -1}, "g3"]],
          "objective": {"R0": 1, "R1": -2}, "direction": "min", "groups": []}
    b2 = {"id": "B2", "metabolites": [["a_e", "e"], ["b_c", "c"], ["c_c", "c"]],
          "reactions": [["EX_a_e", -1000, 0, {"a_e": -1}, ""],
                        ["R0", 2, 2, {"a_e": -1, "b_c": -2}, "(g1 and g2) or g1"],
                        ["R1", "-inf", 0, {}, "g4"]],
          "objective": {"EX_a_e": 1}, "direction": "max", "extra_genes": ["g3"],
          "groups": [["grp1", "collection", [["reaction", "R1"], ["metabolite", "c_c"], ["gene", "g4"]]]]}
    return [b0, b1, b2]


def gen_bases(seed, n):
    """n random small models from bcc.gen on the same universe of identifiers"""
    from bcc import gen
    quiet()
    rng = random.Random(1000003 * seed + 17)
    out = []
    for k in range(n):
        nm = rng.randint(2, 3)
        m = gen.random_model(rng, n_mets=nm, n_rxns=rng.randint(1, 2), ids={"mets": ["a_e", "b_c", "c_c"], "rxns": ["R0", "R1"]},
                             name=f"G{seed}_{k}")
        d = gen.describe(m)
        d["reactions"] = [[rid, enc(float(lb)), enc(float(ub)), st, rule] for rid, lb, ub, st, rule in d["reactions"]]
        d["groups"] = []
        out.append(d)
    return out


RIGHT_SPECS = {
    # no reaction identifier in common with the bases
    "ra": {"id": "ra", "metabolites": [["c_c", "c"], ["d_c", "c"]],
           "reactions": [["RR", -5, 5, {"c_c": -1, "d_c": 1}, "g3 and g9"], ["RS", 0, 7, {"d_c": -1}, ""]],
           "objective": {"RR": 1}, "direction": "min", "groups": [], "user_cons": {"uc_right": {"RR": 1}}},
    # shares the reaction identifier R1 with the bases and carries a metabolite (a_e) that no reaction of it uses
    "rb": {"id": "rb", "metabolites": [["a_e", "e"], ["b_c", "c"], ["c_c", "c"], ["d_c", "c"]],
           "reactions": [["RR", -5, 5, {"c_c": -1, "d_c": 1}, "g3 and g9"], ["R1", 0, 5, {"b_c": -1, "d_c": 1}, "g2"]],
           "objective": {"RR": 1}, "direction": "min", "groups": [], "user_cons": {"uc_right": {"RR": 1}}},
}


def build(spec):
    """real cobra model from a spec"""
    import cobra
    from cobra.core import Group
    from cobra.util.solver import set_objective
    m = cobra.Model(spec["id"])
    mets = {mid: cobra.Metabolite(mid, compartment=c) for mid, c in spec["metabolites"]}
    m.add_metabolites(list(mets.values()))
    rxns = []
    for rid, lb, ub, st, rule in spec["reactions"]:
        r = cobra.Reaction(rid)
        r.bounds = (num(lb), num(ub))
        r.add_metabolites({mets[k]: float(v) for k, v in st.items()})
        if rule:
            r.gene_reaction_rule = rule
        rxns.append(r)
    m.add_reactions(rxns)
    for gid in spec.get("extra_genes", []):          # a gene of the model that no rule mentions any more
        r = m.reactions[0]
        old = r.gene_reaction_rule
        r.gene_reaction_rule = gid
        r.gene_reaction_rule = old
    if spec["objective"]:
        set_objective(m, {m.reactions.get_by_id(k): float(v) for k, v in spec["objective"].items()})
    m.objective_direction = spec["direction"]
    for gid, kind, members in spec.get("groups", []):
        objs = [getattr(m, t + "s").get_by_id(i) for t, i in members]
        m.add_groups([Group(gid, name="group " + gid, members=objs, kind=kind)])
    for name, coefs in spec.get("user_cons", {}).items():
        e = sum(float(c) * m.reactions.get_by_id(rid).flux_expression for rid, c in coefs.items())
        m.add_cons_vars([m.problem.Constraint(e, lb=-1, ub=4, name=name)])
    return m


# =====================================================================================================================
# gene rules of the reference: tiny parser / evaluator (independent of cobra.core.gene.GPR)
# =====================================================================================================================
_TOK = re.compile(r"\s*(\(|\)|[A-Za-z_][A-Za-z0-9_]*)")


def parse_rule(text):
    """'' -> None; otherwise nested tuples ('g', id) | ('and', [..]) | ('or', [..])"""
    text = (text or "").strip()
    if not text:
        return None
    toks, pos = [], 0
    while pos < len(text):
        mo = _TOK.match(text, pos)
        if not mo:
            raise ValueError("reference rule parser: cannot read %r" % text)
        toks.append(mo.group(1))
        pos = mo.end()
    toks.append(None)
    idx = [0]

    def atom():
        t = toks[idx[0]]
        idx[0] += 1
        if t == "(":
            e = or_()
            assert toks[idx[0]] == ")"
            idx[0] += 1
            return e
        assert t not in (None, ")", "and", "or"), text
        return ("g", t)

    def and_():
        vals = [atom()]
        while toks[idx[0]] == "and":
            idx[0] += 1
            vals.append(atom())
        return vals[0] if len(vals) == 1 else ("and", vals)

    def or_():
        vals = [and_()]
        while toks[idx[0]] == "or":
            idx[0] += 1
            vals.append(and_())
        return vals[0] if len(vals) == 1 else ("or", vals)
    e = or_()
    assert toks[idx[0]] is None, text
    return e


def rule_genes(ast):
    if ast is None:
        return set()
    if ast[0] == "g":
        return {ast[1]}
    out = set()
    for v in ast[1]:
        out |= rule_genes(v)
    return out


def rule_eval(ast, absent):
    """True when the rule is satisfied with the genes in `absent` missing (empty rule: True)"""
    if ast is None:
        return True
    if ast[0] == "g":
        return ast[1] not in absent
    if ast[0] == "and":
        return all(rule_eval(v, absent) for v in ast[1])
    return any(rule_eval(v, absent) for v in ast[1])


def rule_table(ast):
    gs = sorted(rule_genes(ast))
    vals = []
    for mask in itertools.product([False, True], repeat=len(gs)):
        vals.append(bool(rule_eval(ast, {g for g, m in zip(gs, mask) if m})))
    return (tuple(gs), tuple(vals))


def rule_without(ast, gone):
    """the rule with the genes `gone` inactivated and simplified; 'FALSE' when nothing can satisfy it any more"""
    if ast is None:
        return None
    if ast[0] == "g":
        return "FALSE" if ast[1] in gone else ast
    vals = [rule_without(v, gone) for v in ast[1]]
    if ast[0] == "and":
        if any(v == "FALSE" for v in vals):
            return "FALSE"
        return ("and", vals)
    kept = [v for v in vals if v != "FALSE"]
    if not kept:
        return "FALSE"
    return kept[0] if len(kept) == 1 else ("or", kept)


def rule_rename(ast, d):
    if ast is None:
        return None
    if ast[0] == "g":
        return ("g", d.get(ast[1], ast[1]))
    return (ast[0], [rule_rename(v, d) for v in ast[1]])


# =====================================================================================================================
# the reference model: documented semantics on plain data
# =====================================================================================================================
class RefRaise(Exception):
    def __init__(self, *types):
        Exception.__init__(self, "/".join(types))
        self.types = types


class Ref:
    def __init__(self, spec=None):
        self.mets = {}        # id -> compartment
        self.rxns = {}        # id -> {"st": {met id: coef}, "lb":, "ub":, "rule": ast|None}
        self.genes = {}       # id -> functional
        self.groups = {}      # id -> {"name":, "kind":, "members": set((TypeName, id))}
        self.obj = {}         # reaction id -> coefficient
        self.direction = "max"
        self.detached = {}    # handle -> (id, reaction dict) of reactions removed by rm_rxn
        if spec:
            for mid, c in spec["metabolites"]:
                self.mets[mid] = c
            for rid, lb, ub, st, rule in spec["reactions"]:
                self._add_rxn(rid, {"st": {k: float(v) for k, v in st.items()}, "lb": num(lb), "ub": num(ub),
                                    "rule": parse_rule(rule)}, {})
            for g in spec.get("extra_genes", []):
                self.genes.setdefault(g, True)
            self.obj = {k: float(v) for k, v in spec["objective"].items() if v != 0}
            self.direction = spec["direction"]
            for gid, kind, members in spec.get("groups", []):
                self.groups[gid] = {"name": "group " + gid, "kind": kind, "members": {(TYPENAME[t], i) for t, i in members}}

    def clone(self):
        return _copy.deepcopy(self)

    # ---- content in the format of bcc.views.snapshot(model, with_lp=False, with_meta=False) + objective
    def content(self):
        s = {}
        s["reactions"] = {rid: (float(r["lb"]), float(r["ub"]), tuple(sorted((m, float(c)) for m, c in r["st"].items())),
                                rule_table(r["rule"]), tuple(sorted(rule_genes(r["rule"]))), None, True)
                          for rid, r in self.rxns.items()}
        s["metabolites"] = {mid: (tuple(sorted(rid for rid, r in self.rxns.items() if mid in r["st"])), None, True)
                            for mid in self.mets}
        s["genes"] = {g: (bool(f), tuple(sorted(rid for rid, r in self.rxns.items() if g in rule_genes(r["rule"]))), None, True)
                      for g, f in self.genes.items()}
        s["groups"] = {g: (d["name"], d["kind"], tuple(sorted(d["members"]))) for g, d in self.groups.items()}
        s["compartments"] = tuple(sorted((c, "") for c in {c for c in self.mets.values() if c is not None}))
        s["objective"] = {k: float(v) for k, v in self.obj.items() if v != 0}
        s["direction"] = self.direction
        return s

    # ---- primitive documented effects
    def _add_rxn(self, rid, rx, comps):
        """Model.add_reactions for one reaction: ignored when the id exists; its metabolites and the genes of its
        rule join the model when they are not there yet"""
        if rid in self.rxns:
            return False
        for mid in rx["st"]:
            if mid not in self.mets:
                self.mets[mid] = comps.get(mid, COMP.get(mid))
        for g in rule_genes(rx["rule"]):
            self.genes.setdefault(g, True)
        self.rxns[rid] = rx
        return True

    def _rm_rxn(self, rid, orphans):
        rx = self.rxns.pop(rid)
        self.obj.pop(rid, None)
        for d in self.groups.values():
            d["members"].discard(("Reaction", rid))
        if orphans:
            for mid in list(rx["st"]):
                if mid in self.mets and not any(mid in r["st"] for r in self.rxns.values()):
                    self._rm_met(mid, False)
            for g in rule_genes(rx["rule"]):
                if g in self.genes and not any(g in rule_genes(r["rule"]) for r in self.rxns.values()):
                    self._rm_gene(g)
        return rx

    def _rm_met(self, mid, destructive):
        for d in self.groups.values():
            d["members"].discard(("Metabolite", mid))
        for rid in [rid for rid, r in self.rxns.items() if mid in r["st"]]:
            if destructive:
                self._rm_rxn(rid, False)
            else:
                del self.rxns[rid]["st"][mid]
        del self.mets[mid]

    def _rm_gene(self, g):
        del self.genes[g]
        for d in self.groups.values():
            d["members"].discard(("Gene", g))

    def _set_rule(self, rid, ast):
        self.rxns[rid]["rule"] = ast
        for g in rule_genes(ast):
            self.genes.setdefault(g, True)     # new genes are created; old ones stay in the model

    def _check_bounds(self, lb, ub):
        if lb > ub:
            raise RefRaise("ValueError")


# ---------------------------------------------------------------------------------------------------------------------
# reference semantics per operation:  ref_<op>(R, A, *args) mutates R (a private clone) or raises RefRaise
# A = alias table (handle -> current id)
# ---------------------------------------------------------------------------------------------------------------------
def _rid(A, h):
    return A.get(h, h)


def ref_add_rxns(R, A, specs):
    ids = [s[0] for s in specs if s[0] not in R.rxns]
    if len(set(ids)) != len(ids):
        raise RefRaise("ValueError")            # two new reactions with one identifier
    for rid, st, lb, ub, rule, metmode in specs:
        R._add_rxn(rid, {"st": {k: float(v) for k, v in st.items()}, "lb": num(lb), "ub": num(ub), "rule": parse_rule(rule)}, {})


def ref_rm_rxn(R, A, handles, orphans, how):
    for h in handles:
        rid = _rid(A, h)
        if rid in R.rxns:
            rx = R._rm_rxn(rid, orphans)
            R.detached[h] = (rid, rx)
        # unknown: warning only


def ref_readd(R, A, h):
    rid, rx = R.detached[h]
    R._add_rxn(rid, _copy.deepcopy(rx), {})


def ref_add_met(R, A, specs, single):
    if single:
        specs = specs[:1]
    new = [(mid, c) for mid, c in specs if mid not in R.mets]
    if any((not isinstance(mid, str)) or len(mid) < 1 for mid, c in new):
        raise RefRaise("ValueError")
    for mid, c in new:
        R.mets[mid] = c


def ref_rm_met(R, A, handles, destructive):
    for h in handles:
        mid = _rid(A, h)
        if mid in R.mets:
            R._rm_met(mid, destructive)


def ref_add_boundary(R, A, h, typ, rid, lb, ub):
    mid = _rid(A, h)
    ub = CFG_UB if ub is None else num(ub)
    lb = CFG_LB if lb is None else num(lb)
    comp = R.mets.get(mid, COMP.get(mid))
    if typ == "exchange" and comp != "e":
        raise RefRaise("ValueError")
    table = {"exchange": ("EX", lb, ub), "demand": ("DM", 0.0, ub), "sink": ("SK", lb, ub)}
    if typ in table:
        prefix, lb, ub = table[typ]
        if rid is None:
            rid = prefix + "_" + mid
    if rid is None:
        raise RefRaise("ValueError")
    if rid in R.rxns:
        raise RefRaise("ValueError")
    R._add_rxn(rid, {"st": {mid: -1.0}, "lb": lb, "ub": ub, "rule": None}, {})


def _ref_addmets(R, rid, items, combine, keytype, sign=1.0):
    st = R.rxns[rid]["st"]
    for mid, c in items:
        c = sign * float(c)
        if mid in st:
            st[mid] = st[mid] + c if combine else c
        else:
            if mid not in R.mets:
                if keytype == "id":
                    raise RefRaise("KeyError")
                R.mets[mid] = COMP.get(mid)
            st[mid] = c
    for mid in [k for k, v in st.items() if v == 0]:
        del st[mid]


def _as_dict(A, items):
    d = {}
    for m, c in items:          # the argument is a dict: a repeated key keeps its first position and the last value
        d[_rid(A, m)] = c
    return list(d.items())


def ref_r_addmets(R, A, h, items, combine, keytype):
    _ref_addmets(R, _rid(A, h), _as_dict(A, items), combine, keytype)


def ref_r_submets(R, A, h, items, combine, keytype):
    _ref_addmets(R, _rid(A, h), _as_dict(A, items), combine, keytype, sign=-1.0)


def ref_imul(R, A, h, k):
    r = R.rxns[_rid(A, h)]
    r["st"] = {m: c * float(k) for m, c in r["st"].items()}
    if k < 0:
        r["lb"], r["ub"] = -r["ub"], -r["lb"]


def _other(R, A, other):
    if isinstance(other, str):
        o = R.rxns[_rid(A, other)]
        return dict(o["st"]), o["rule"]
    rid, st, lb, ub, rule, metmode = other
    return {k: float(v) for k, v in st.items()}, parse_rule(rule)


def ref_iadd(R, A, h, other):
    rid = _rid(A, h)
    st, rule2 = _other(R, A, other)
    rule1 = R.rxns[rid]["rule"]
    _ref_addmets(R, rid, list(st.items()), True, "obj")
    if rule1 is not None and rule2 is not None:
        R._set_rule(rid, ("and", [rule1, rule2]))
    elif rule1 is None and rule2 is not None:
        R._set_rule(rid, rule2)


def ref_isub(R, A, h, other):
    rid = _rid(A, h)
    st, _ = _other(R, A, other)
    _ref_addmets(R, rid, list(st.items()), True, "obj", sign=-1.0)


def ref_bounds(R, A, h, lb, ub):
    R._check_bounds(num(lb), num(ub))
    r = R.rxns[_rid(A, h)]
    r["lb"], r["ub"] = num(lb), num(ub)


def ref_lb(R, A, h, v):
    r = R.rxns[_rid(A, h)]
    R._check_bounds(num(v), r["ub"])
    r["lb"] = num(v)


def ref_ub(R, A, h, v):
    r = R.rxns[_rid(A, h)]
    R._check_bounds(r["lb"], num(v))
    r["ub"] = num(v)


def ref_r_ko(R, A, h):
    r = R.rxns[_rid(A, h)]
    r["lb"], r["ub"] = 0.0, 0.0


def ref_g_ko(R, A, g):
    R.genes[g] = False
    for r in R.rxns.values():
        gs = rule_genes(r["rule"])
        if g in gs and not rule_eval(r["rule"], {x for x in gs if not R.genes[x]}):
            r["lb"], r["ub"] = 0.0, 0.0


def ref_rule(R, A, h, text):
    R._set_rule(_rid(A, h), parse_rule(text))


def ref_obj_rxn(R, A, h):
    R.obj = {_rid(A, h): 1.0}


def ref_obj_str(R, A, h):
    rid = _rid(A, h)
    if rid not in R.rxns:
        raise RefRaise("ValueError")
    R.obj = {rid: 1.0}


def ref_obj_dict(R, A, d):
    R.obj = {_rid(A, k): float(v) for k, v in d.items() if v != 0}


def _sum_terms(A, d):
    out = {}
    for k, v in d.items():                      # two handles may name one reaction after a rename: the terms add up
        out[_rid(A, k)] = out.get(_rid(A, k), 0.0) + float(v)
    return {k: v for k, v in out.items() if v != 0}


def ref_obj_expr(R, A, d):
    R.obj = _sum_terms(A, d)                    # the direction is not mentioned: unchanged


def ref_obj_object(R, A, d, direction):
    R.obj = _sum_terms(A, d)
    R.direction = direction


def ref_obj_coef(R, A, h, c):
    rid = _rid(A, h)
    R.obj.pop(rid, None)
    if c != 0:
        R.obj[rid] = float(c)


def ref_obj_dir(R, A, value):
    v = value.lower()
    if v.startswith("max"):
        R.direction = "max"
    elif v.startswith("min"):
        R.direction = "min"
    else:
        raise RefRaise("ValueError")


def ref_rename_rxn(R, A, h, new):
    old = _rid(A, h)
    if new == old:
        return
    if new in R.rxns:
        raise RefRaise("ValueError")
    R.rxns = {(new if k == old else k): v for k, v in R.rxns.items()}
    if old in R.obj:
        R.obj[new] = R.obj.pop(old)
    for d in R.groups.values():
        if ("Reaction", old) in d["members"]:
            d["members"].discard(("Reaction", old))
            d["members"].add(("Reaction", new))


def ref_rename_met(R, A, h, new):
    old = _rid(A, h)
    if new == old:
        return
    if new in R.mets:
        raise RefRaise("ValueError")
    R.mets = {(new if k == old else k): v for k, v in R.mets.items()}
    for r in list(R.rxns.values()) + [rx for _, rx in R.detached.values()]:   # a removed reaction still holds the same object
        if old in r["st"]:
            r["st"][new] = r["st"].pop(old)
    for d in R.groups.values():
        if ("Metabolite", old) in d["members"]:
            d["members"].discard(("Metabolite", old))
            d["members"].add(("Metabolite", new))


def ref_nochange(R, A, *args):
    pass


def ref_merge(R, A, rname, prefix, inplace, objective):
    spec = RIGHT_SPECS[rname]
    left_ids = set(R.rxns)
    comps = dict((mid, c) for mid, c in spec["metabolites"])
    left_obj = dict(R.obj)
    for rid, lb, ub, st, rule in spec["reactions"]:
        new_id = prefix + rid if (prefix is not None and rid in left_ids) else rid
        R._add_rxn(new_id, {"st": {k: float(v) for k, v in st.items()}, "lb": num(lb), "ub": num(ub), "rule": parse_rule(rule)},
                   comps)
    robj = {k: float(v) for k, v in spec["objective"].items()}
    if objective == "right":
        R.obj = robj
        R.direction = spec["direction"]
    elif objective == "sum":
        out = dict(left_obj)
        for k, v in robj.items():
            out[k] = out.get(k, 0.0) + v
        R.obj = {k: v for k, v in out.items() if v != 0}


def ref_remove_genes(R, A, gids, remove_reactions, how):
    if any(g not in R.genes for g in gids):
        raise RefRaise("KeyError")
    gone = set(gids)
    targets = []
    for rid, r in R.rxns.items():
        if r["rule"] is None:
            continue
        new = rule_without(r["rule"], gone)
        if new == "FALSE":
            if remove_reactions:
                targets.append(rid)
            else:
                r["rule"] = None
        else:
            r["rule"] = new
    for g in gone:
        R._rm_gene(g)
    for rid in targets:
        R._rm_rxn(rid, False)


def ref_rename_genes(R, A, d):
    drop = set()
    eff = {}
    for old, new in d.items():
        if old not in R.genes:
            continue
        eff[old] = new
        if new in R.genes:
            if new != old:
                drop.add(old)
        else:
            R.genes = {(new if k == old else k): v for k, v in R.genes.items()}
            for gd in R.groups.values():
                if ("Gene", old) in gd["members"]:
                    gd["members"].discard(("Gene", old))
                    gd["members"].add(("Gene", new))
    for r in R.rxns.values():
        if rule_genes(r["rule"]) & set(eff):
            r["rule"] = rule_rename(r["rule"], eff)
    for g in drop:
        # a gene renamed onto an existing one is merged with it: the target takes its place in the groups (as a plain rename keeps
        # the membership under the new name; the documentation is silent, /repo 7173bc7 does this)
        for gd in R.groups.values():
            if ("Gene", g) in gd["members"]:
                gd["members"].discard(("Gene", g))
                gd["members"].add(("Gene", eff[g]))
        R._rm_gene(g)


def ref_add_groups(R, A, specs):
    ids = [s[0] for s in specs if s[0] not in R.groups]
    if len(set(ids)) != len(ids):
        raise RefRaise("ValueError")
    for gid, kind, members in specs:
        if gid in R.groups:
            continue
        mem = set()
        for t, i in members:
            i = _rid(A, i)
            if t == "metabolite" and i not in R.mets:
                R.mets[i] = COMP.get(i)
            mem.add((TYPENAME[t], i))
        R.groups[gid] = {"name": "group " + gid, "kind": kind, "members": mem}


def ref_remove_groups(R, A, gids, how):
    for g in gids:
        R.groups.pop(g, None)


def ref_grp_members(R, A, gid, members, add):
    mem = {(TYPENAME[t], _rid(A, i)) for t, i in members}
    if add:
        R.groups[gid]["members"] |= mem
    else:
        R.groups[gid]["members"] -= mem


_ARROWS = [("<=>", (CFG_LB, CFG_UB)), ("<--", (CFG_LB, 0.0)), ("-->", (0.0, CFG_UB))]


def ref_from_string(R, A, h, text):
    rid = _rid(A, h)
    for arrow, bounds in _ARROWS:
        if arrow in text:
            left, right = text.split(arrow)
            break
    else:
        raise RefRaise("ValueError")
    st = {}
    for side, factor in ((left, -1.0), (right, 1.0)):
        for term in side.split("+"):
            term = term.strip()
            if not term or term.lower() == "nothing":
                continue
            if " " in term:
                n, mid = term.split()
                c = float(n) * factor
            else:
                mid, c = term, factor
            st[mid] = st.get(mid, 0.0) + c
    r = R.rxns[rid]
    r["lb"], r["ub"] = bounds
    for mid in st:
        if mid not in R.mets:
            R.mets[mid] = None                      # "unknown metabolite created" - without a compartment
    r["st"] = {m: c for m, c in st.items() if c != 0}


REF_OPS = {
    "add_rxns": ref_add_rxns, "rm_rxn": ref_rm_rxn, "readd": ref_readd, "add_met": ref_add_met, "rm_met": ref_rm_met,
    "add_boundary": ref_add_boundary, "r_addmets": ref_r_addmets, "r_submets": ref_r_submets, "imul": ref_imul,
    "iadd": ref_iadd, "isub": ref_isub, "bounds": ref_bounds, "lb": ref_lb, "ub": ref_ub, "r_ko": ref_r_ko, "g_ko": ref_g_ko,
    "rule": ref_rule, "obj_rxn": ref_obj_rxn, "obj_str": ref_obj_str, "obj_dict": ref_obj_dict, "obj_expr": ref_obj_expr,
    "obj_object": ref_obj_object, "obj_coef": ref_obj_coef, "obj_dir": ref_obj_dir, "rename_rxn": ref_rename_rxn,
    "rename_met": ref_rename_met, "copy": ref_nochange, "pickle": ref_nochange, "deepcopy": ref_nochange,
    "merge": ref_merge, "solver": ref_nochange, "enter": ref_nochange, "add_cons": ref_nochange, "rm_cons": ref_nochange,
    "remove_genes": ref_remove_genes, "rename_genes": ref_rename_genes, "add_groups": ref_add_groups,
    "remove_groups": ref_remove_groups, "grp_members": ref_grp_members, "from_string": ref_from_string,
    "repair": ref_nochange,
}


# =====================================================================================================================
# the real side
# =====================================================================================================================
class Real:
    def __init__(self, spec, solver):
        import cobra
        self.spec = spec
        cfg = cobra.Configuration()
        keep = cfg.solver
        try:
            cfg.solver = solver                   # the model is *born* under this interface
            self.model = build(spec)
        finally:
            cfg.solver = keep
        self.uv, self.uc = set(), set()           # ghost "User" sets: variables / constraints added explicitly
        self.ctx = []                             # per open context: (uv, uc) at entry
        self.alias = {}
        self.detached = {}
        self.others = []                          # further models to be checked after this step (copy / merge operand)
        self._right = {}

    # -- lookups
    def rid(self, h):
        return self.alias.get(h, h)

    def rxn(self, h):
        i = self.rid(h)
        if i not in self.model.reactions:
            raise Skip(f"no reaction {i}")
        return self.model.reactions.get_by_id(i)

    def met(self, h):
        i = self.rid(h)
        if i not in self.model.metabolites:
            raise Skip(f"no metabolite {i}")
        return self.model.metabolites.get_by_id(i)

    def gene(self, g):
        if g not in self.model.genes:
            raise Skip(f"no gene {g}")
        return self.model.genes.get_by_id(g)

    def right(self, name):
        if name not in self._right:
            self._right[name] = build(RIGHT_SPECS[name])
        return self._right[name]

    def switch(self, new):
        self.model = new
        self.ctx = []
        self.detached = {}

    def make_rxn(self, spec):
        """a model-less reaction; metmode 'model': the model's own metabolite objects where they exist,
        'copy': fresh Metabolite objects carrying the same identifiers"""
        import cobra
        rid, st, lb, ub, rule, metmode = spec
        r = cobra.Reaction(rid, lower_bound=num(lb), upper_bound=num(ub))
        d = {}
        for mid, c in st.items():
            if metmode == "model" and mid in self.model.metabolites:
                d[self.model.metabolites.get_by_id(mid)] = float(c)
            else:
                d[cobra.Metabolite(mid, compartment=COMP.get(mid))] = float(c)
        r.add_metabolites(d)
        if rule:
            r.gene_reaction_rule = rule
        return r


def real_add_rxns(S, specs):
    S.model.add_reactions([S.make_rxn(s) for s in specs])


def real_rm_rxn(S, handles, orphans, how):
    objs = []
    for h in handles:
        i = S.rid(h)
        if i in S.model.reactions and not any(S.model.reactions.get_by_id(i) is o for _, o in objs):
            objs.append((h, S.model.reactions.get_by_id(i)))
    if how == "single":
        if len(handles) != 1 or not objs:
            raise Skip("single form needs one present reaction")
        arg = objs[0][1]
    elif how == "id":
        arg = list(dict.fromkeys(S.rid(h) for h in handles))
    else:
        if len(objs) != len(handles):
            raise Skip("object form needs present reactions")
        arg = [o for _, o in objs]
    try:
        S.model.remove_reactions(arg, remove_orphans=orphans)
    finally:
        for h, o in objs:
            if o.id not in S.model.reactions or S.model.reactions.get_by_id(o.id) is not o:
                S.detached[h] = o


def real_readd(S, h):
    if h not in S.detached:
        raise Skip("nothing detached under this handle")
    S.model.add_reactions([S.detached[h]])


def real_add_met(S, specs, single):
    import cobra
    objs = [cobra.Metabolite(mid, compartment=c) for mid, c in specs]
    S.model.add_metabolites(objs[0] if single else objs)


def real_rm_met(S, handles, destructive):
    objs = []
    for h in handles:
        m = S.met(h)
        if not any(m is o for o in objs):
            objs.append(m)
    S.model.remove_metabolites(objs if len(objs) > 1 else objs[0], destructive=destructive)


def real_add_boundary(S, h, typ, rid, lb, ub):
    import cobra
    i = S.rid(h)
    if i in S.model.metabolites:
        met = S.model.metabolites.get_by_id(i)
    elif i in COMP:
        met = cobra.Metabolite(i, compartment=COMP[i])
    else:
        raise Skip("unknown metabolite")
    if typ == "exchange" and (set(S.model.compartments) - {"c"} != {"e"} or any(not r.compartments for r in S.model.boundary)):
        # (find_external_compartment raises IndexError when a boundary reaction's only metabolite has no compartment)
        raise Skip("external compartment not determined by its name")
    kw = {}
    if rid is not None:
        kw["reaction_id"] = rid
    if lb is not None:
        kw["lb"] = num(lb)
    if ub is not None:
        kw["ub"] = num(ub)
    S.model.add_boundary(met, type=typ, **kw)


def _met_keys(S, items, keytype):
    import cobra
    d = {}
    resolved = {}
    for h, c in items:                  # two handles may name one metabolite after a rename: one key, the last value
        resolved[S.rid(h)] = c
    for i, c in resolved.items():
        if keytype == "id":
            d[i] = float(c)
        elif keytype == "obj":
            if i in S.model.metabolites:
                d[S.model.metabolites.get_by_id(i)] = float(c)
            else:
                d[cobra.Metabolite(i, compartment=COMP.get(i))] = float(c)
        elif keytype == "copy":
            d[cobra.Metabolite(i, compartment=COMP.get(i))] = float(c)
        elif keytype == "foreign":
            rt = S.right("ra")
            if i not in rt.metabolites:
                raise Skip("not a metabolite of the other model")
            d[rt.metabolites.get_by_id(i)] = float(c)
        else:
            raise ValueError(keytype)
    return d


def real_r_addmets(S, h, items, combine, keytype):
    r = S.rxn(h)
    r.add_metabolites(_met_keys(S, items, keytype), combine=combine)


def real_r_submets(S, h, items, combine, keytype):
    r = S.rxn(h)
    r.subtract_metabolites(_met_keys(S, items, keytype), combine=combine)


def real_imul(S, h, k):
    r = S.rxn(h)
    r *= k


def _other_real(S, other):
    if isinstance(other, str):
        return S.rxn(other)
    return S.make_rxn(other)


def real_iadd(S, h, other):
    r = S.rxn(h)
    o = _other_real(S, other)
    r += o


def real_isub(S, h, other):
    r = S.rxn(h)
    o = _other_real(S, other)
    r -= o


def real_bounds(S, h, lb, ub):
    S.rxn(h).bounds = (num(lb), num(ub))


def real_lb(S, h, v):
    S.rxn(h).lower_bound = num(v)


def real_ub(S, h, v):
    S.rxn(h).upper_bound = num(v)


def real_r_ko(S, h):
    S.rxn(h).knock_out()


def real_g_ko(S, g):
    S.gene(g).knock_out()


def real_rule(S, h, text):
    S.rxn(h).gene_reaction_rule = text


def real_obj_rxn(S, h):
    S.model.objective = S.rxn(h)


def real_obj_str(S, h):
    S.model.objective = S.rid(h)


def real_obj_dict(S, d):
    S.model.objective = {S.rxn(k): float(v) for k, v in d.items()}


def _expr(S, d):
    e = 0
    for k, v in d.items():
        e = e + float(v) * S.rxn(k).flux_expression
    return e


def real_obj_expr(S, d):
    if not d:
        raise Skip("empty expression")
    S.model.objective = _expr(S, d)


def real_obj_object(S, d, direction):
    if not d:
        raise Skip("empty expression")
    S.model.objective = S.model.problem.Objective(_expr(S, d), direction=direction)


def real_obj_coef(S, h, c):
    S.rxn(h).objective_coefficient = float(c)


def real_obj_dir(S, value):
    S.model.objective_direction = value


def real_rename_rxn(S, h, new):
    r = S.rxn(h)
    old = r.id
    r.id = new
    if r.id == new and old != new:
        for k in [k for k, v in S.alias.items() if v == old]:
            S.alias[k] = new
        S.alias[old] = new
        S.alias.pop(new, None)


def real_rename_met(S, h, new):
    m = S.met(h)
    old = m.id
    m.id = new
    if m.id == new and old != new:
        for k in [k for k, v in S.alias.items() if v == old]:
            S.alias[k] = new
        S.alias[old] = new
        S.alias.pop(new, None)


def real_copy(S, how):
    new = S.model.copy()
    if how == "switch":
        S.others.append(S.model)
        S.switch(new)
    else:
        S.others.append(new)


def real_pickle(S):
    new = pickle.loads(pickle.dumps(S.model))
    S.others.append(S.model)
    S.switch(new)


def real_deepcopy(S):
    new = _copy.deepcopy(S.model)
    S.others.append(S.model)
    S.switch(new)


def real_merge(S, rname, prefix, inplace, objective):
    rt = S.right(rname)
    spec = RIGHT_SPECS[rname]
    if prefix is not None and objective != "left" and any(k in S.model.reactions for k in spec["objective"]):
        raise Skip("objective of the right model is ambiguous under prefixing")
    for name in spec.get("user_cons", {}):
        if name in S.uc and name not in S.model.constraints:
            raise Skip("user constraint name was used and removed")
    try:
        new = S.model.merge(rt, prefix_existing=prefix, inplace=inplace, objective=objective)
    finally:
        S.uc |= set(spec.get("user_cons", {}))
        S.others.append(rt)
    if not inplace:
        S.others.append(S.model)
        S.switch(new)


def real_solver(S, name):
    S.model.solver = name


def real_enter(S):
    if len(S.ctx) >= 3:
        raise Skip("nesting bound")
    S.model.__enter__()
    S.ctx.append((set(S.uv), set(S.uc)))


def real_exit(S):
    if not S.ctx:
        raise Skip("no open context")
    uv, uc = S.ctx.pop()
    # documented: additions / removals are reversed on exit; the statement of C01 only forbids entries the user did
    # not add, so both the entry set and what was added inside stay admissible
    S.uv |= uv
    S.uc |= uc
    S.model.__exit__(None, None, None)


def real_add_cons(S, name, kind, coefs):
    m = S.model
    if name in m.constraints or name in m.variables or name + "_v" in m.variables:
        raise Skip("name in use")
    if kind == "var":
        v = m.problem.Variable(name, lb=0, ub=1)
        S.uv.add(name)
        m.add_cons_vars([v])
    elif kind == "con":
        c = m.problem.Constraint(_expr(S, coefs), lb=0, ub=5, name=name)
        S.uc.add(name)
        m.add_cons_vars([c])
    else:                                           # a variable and a constraint that ties it to reactions
        v = m.problem.Variable(name + "_v", lb=-1, ub=1)
        c = m.problem.Constraint(_expr(S, coefs) + v, lb=0, ub=5, name=name)
        S.uv.add(name + "_v")
        S.uc.add(name)
        m.add_cons_vars([v, c])


def real_rm_cons(S, name):
    m = S.model
    what = []
    if name in S.uc and name in m.constraints:
        what.append(m.constraints[name])
    if name in S.uv and name in m.variables:
        what.append(m.variables[name])
    if not what:
        raise Skip("not present")
    m.remove_cons_vars(what)


def real_remove_genes(S, gids, remove_reactions, how):
    from cobra.manipulation import remove_genes
    if how == "obj":
        arg = [S.gene(g) for g in gids]
    else:
        arg = list(gids)
    remove_genes(S.model, arg, remove_reactions=remove_reactions)


def real_rename_genes(S, d):
    from cobra.manipulation import rename_genes
    rename_genes(S.model, dict(d))


def _members(S, members):
    import cobra
    objs = []
    for t, i in members:
        i = S.rid(i)
        dl = getattr(S.model, t + "s")
        if i in dl:
            objs.append(dl.get_by_id(i))
        elif t == "metabolite" and i in COMP:
            objs.append(cobra.Metabolite(i, compartment=COMP[i]))
        else:
            raise Skip("member not available")
    return objs


def real_add_groups(S, specs):
    from cobra.core import Group
    S.model.add_groups([Group(gid, name="group " + gid, members=_members(S, members), kind=kind) for gid, kind, members in specs])


def real_remove_groups(S, gids, how):
    from cobra.core import Group
    if how == "str":
        if len(gids) != 1:
            raise Skip("one id")
        S.model.remove_groups(gids[0])
    elif how == "ids":
        S.model.remove_groups(list(gids))
    else:
        S.model.remove_groups([S.model.groups.get_by_id(g) if g in S.model.groups else Group(g) for g in gids])


def real_grp_members(S, gid, members, add):
    if gid not in S.model.groups:
        raise Skip("no group")
    g = S.model.groups.get_by_id(gid)
    objs = []
    for t, i in members:
        i = S.rid(i)
        dl = getattr(S.model, t + "s")
        if i not in dl:
            raise Skip("member not in the model")
        objs.append(dl.get_by_id(i))
    (g.add_members if add else g.remove_members)(objs)


def real_from_string(S, h, text):
    S.rxn(h).build_reaction_from_string(text, verbose=False)


def real_repair(S):
    S.model.repair()


REAL_OPS = {
    "add_rxns": real_add_rxns, "rm_rxn": real_rm_rxn, "readd": real_readd, "add_met": real_add_met, "rm_met": real_rm_met,
    "add_boundary": real_add_boundary, "r_addmets": real_r_addmets, "r_submets": real_r_submets, "imul": real_imul,
    "iadd": real_iadd, "isub": real_isub, "bounds": real_bounds, "lb": real_lb, "ub": real_ub, "r_ko": real_r_ko,
    "g_ko": real_g_ko, "rule": real_rule, "obj_rxn": real_obj_rxn, "obj_str": real_obj_str, "obj_dict": real_obj_dict,
    "obj_expr": real_obj_expr, "obj_object": real_obj_object, "obj_coef": real_obj_coef, "obj_dir": real_obj_dir,
    "rename_rxn": real_rename_rxn, "rename_met": real_rename_met, "copy": real_copy, "pickle": real_pickle,
    "deepcopy": real_deepcopy, "merge": real_merge, "solver": real_solver, "enter": real_enter, "exit": real_exit,
    "add_cons": real_add_cons, "rm_cons": real_rm_cons, "remove_genes": real_remove_genes, "rename_genes": real_rename_genes,
    "add_groups": real_add_groups, "remove_groups": real_remove_groups, "grp_members": real_grp_members,
    "from_string": real_from_string, "repair": real_repair,
}

# the cobra entry point behind each step name (used in failure keys)
API = {
    "add_rxns": "Model.add_reactions", "rm_rxn": "Model.remove_reactions", "readd": "Model.add_reactions",
    "add_met": "Model.add_metabolites", "rm_met": "Model.remove_metabolites", "add_boundary": "Model.add_boundary",
    "r_addmets": "Reaction.add_metabolites", "r_submets": "Reaction.subtract_metabolites", "imul": "Reaction.__imul__",
    "iadd": "Reaction.__iadd__", "isub": "Reaction.__isub__", "bounds": "Reaction.bounds", "lb": "Reaction.lower_bound",
    "ub": "Reaction.upper_bound", "r_ko": "Reaction.knock_out", "g_ko": "Gene.knock_out", "rule": "Reaction.gene_reaction_rule",
    "obj_rxn": "Model.objective", "obj_str": "Model.objective", "obj_dict": "Model.objective", "obj_expr": "Model.objective=expr",
    "obj_object": "Model.objective=Objective", "obj_coef": "Reaction.objective_coefficient", "obj_dir": "Model.objective_direction",
    "rename_rxn": "Reaction.id", "rename_met": "Metabolite.id", "copy": "Model.copy", "pickle": "pickle", "deepcopy": "deepcopy",
    "merge": "Model.merge", "solver": "Model.solver", "enter": "Model.__enter__", "exit": "Model.__exit__",
    "add_cons": "Model.add_cons_vars", "rm_cons": "Model.remove_cons_vars", "remove_genes": "remove_genes",
    "rename_genes": "rename_genes", "add_groups": "Model.add_groups", "remove_groups": "Model.remove_groups",
    "grp_members": "Group.add/remove_members", "from_string": "Reaction.build_reaction_from_string", "repair": "Model.repair",
}


# =====================================================================================================================
# classification of oracle messages into stable categories
# =====================================================================================================================
_CATS = [
    (r"^cannot read", "unreadable"),
    (r"^variable .* missing", "lp-variable-missing"),
    (r"^variable .*: solver bounds", "lp-variable-bounds"),
    (r"^variable .*: kind", "lp-variable-kind"),
    (r"^stray variable", "lp-stray-variable"),
    (r"^constraint .* missing", "lp-row-missing"),
    (r"^constraint .*: solver bounds", "lp-row-bounds"),
    (r"^constraint .*: coefficient", "lp-coefficient"),
    (r"^stray constraint", "lp-stray-row"),
    (r"^objective coefficient", "lp-objective"),
    (r"^objective direction", "lp-direction"),
    (r"duplicate identifiers", "xref-duplicate-ids"),
    (r"index has", "xref-index-size"),
    (r"not found by id", "xref-index-position"),
    (r"does not point at the model", "xref-model-pointer"),
    (r"zero coefficient", "xref-zero-coefficient"),
    (r"^reaction .*: metabolite .* is not the model's object", "xref-foreign-metabolite"),
    (r"^reaction .* lists gene .* but not vice versa", "xref-gene-backref-missing"),
    (r"^reaction .* lists .* but not vice versa", "xref-metabolite-backref-missing"),
    (r"^reaction .*: gene .* is not the model's object", "xref-foreign-gene"),
    (r"!= genes of rule", "xref-genes-vs-rule"),
    (r"^metabolite .*: dangling reaction", "xref-metabolite-dangling-reaction"),
    (r"^metabolite .* lists .* but not vice versa", "xref-metabolite-stale-reaction"),
    (r"^gene .*: dangling reaction", "xref-gene-dangling-reaction"),
    (r"^gene .* lists .* but not vice versa", "xref-gene-stale-reaction"),
    (r"^group .*: member", "xref-group-dangling-member"),
]


_DBL_MAX = 1.7976931348623157e308
_BOUNDS_MSG = re.compile(r"^(?:variable|constraint) \S+: solver bounds \((\S+),(\S+)\) expected \((\S+),(\S+)\)$")


def check_lp(model, uv, uc):
    """bcc.views.check_lp_reported, reading +-DBL_MAX as +-infinity.

    GLPK has no separate representation of an infinite bound: glp_get_col_lb/ub *return* -+DBL_MAX for a missing
    bound, optlang's GLPK-text round trip (Model.copy, pickle, deepcopy) therefore hands out variables with
    ub=1.797e308, and a later `model.solver = ...` writes them back as a double-bounded column [lb, DBL_MAX].  GLPK treats
    that column as unbounded above (an unbounded LP is still reported `unbounded`), so it is the same problem."""
    from bcc import views
    out = []
    for msg in views.check_lp_reported(model, uv, uc):
        mo = _BOUNDS_MSG.match(msg)
        if mo:
            vals = []
            for x in mo.groups():
                x = float(x)
                vals.append(INF if x >= _DBL_MAX else -INF if x <= -_DBL_MAX else x)
            if views._close(vals[0], vals[2]) and views._close(vals[1], vals[3]):
                continue
        out.append(msg)
    return out


def _clean(text):
    """exception texts without run-dependent parts (addresses, temporary file names)"""
    text = re.sub(r"0x[0-9a-fA-F]+", "0x..", text)
    text = re.sub(r"/tmp/tmp\w+", "/tmp/tmp..", text)
    return " ".join(text.split())


def categorize(msg):
    for pat, cat in _CATS:
        if re.search(pat, msg):
            return cat
    return "other"


# =====================================================================================================================
# running one history
# =====================================================================================================================
def extract(model):
    from bcc import views
    s = views.snapshot(model, with_lp=False, with_meta=False)
    try:
        s["objective"] = views.reported_objective(model)
        s["direction"] = model.objective_direction
    except Exception as e:  # noqa  (a solver left with a pending duplicate cannot even be queried)
        s["objective"] = f"unreadable: {type(e).__name__}"
        s["direction"] = "unreadable"
    return s


def ref_from_model(model, old=None):
    """re-synchronise the reference from the real objects (only used when a context is left: whether leaving restores
    the entry state is property C03, not C02)"""
    R = Ref()
    R.mets = {m.id: m.compartment for m in model.metabolites}
    for r in model.reactions:
        R.rxns[r.id] = {"st": {m.id: float(c) for m, c in r._metabolites.items()}, "lb": float(r._lower_bound),
                        "ub": float(r._upper_bound), "rule": parse_rule(r.gene_reaction_rule)}
    R.genes = {g.id: bool(g.functional) for g in model.genes}
    R.groups = {g.id: {"name": g.name, "kind": g.kind, "members": {(type(x).__name__, x.id) for x in g.members}}
                for g in model.groups}
    e = extract(model)
    if isinstance(e["objective"], dict):
        R.obj, R.direction = dict(e["objective"]), e["direction"]
    elif old is not None:
        R.obj, R.direction = dict(old.obj), old.direction
    if old is not None:
        R.detached = old.detached
    return R


def diff_content(exp, got, limit=4):
    out = []
    for k in exp:
        if exp[k] == got.get(k):
            continue
        if isinstance(exp[k], dict) and isinstance(got.get(k), dict):
            for key in sorted(set(exp[k]) | set(got[k]), key=str):
                if exp[k].get(key) != got[k].get(key):
                    out.append((k, f"{k}[{key}]: documented {exp[k].get(key)!r} observed {got[k].get(key)!r}"[:420]))
        else:
            out.append((k, f"{k}: documented {exp[k]!r} observed {got[k]!r}"[:420]))
    return out[:limit]


def run_history(spec, solver, history, mode, stop_on_failure=True):
    """-> dict(failures=[(key, text, step index)], executed=int, skipped=int, raised=int)
    mode: 'C01' | 'C02'"""
    from bcc import views
    quiet()
    out = {"failures": [], "executed": 0, "skipped": 0, "raised": 0, "checks": 0}
    S = Real(spec, solver)
    R = Ref(spec) if mode == "C02" else None

    def fail(step_i, op, outcome, cat, text):
        name = op[0] if op else "build"
        key = f"{mode}:{API.get(name, name)}:{outcome}:{cat}"
        out["failures"].append((key, f"step {step_i} {json.dumps(op)} ({outcome}): {_clean(text)}", step_i))

    def check(step_i, op, outcome):
        out["checks"] += 1
        n0 = len(out["failures"])
        if mode == "C01":
            msgs = check_lp(S.model, S.uv, S.uc)
            if msgs:
                fail(step_i, op, outcome, categorize(msgs[0]), "; ".join(msgs[:4]))
            for o in S.others:
                msgs = check_lp(o, S.uv, S.uc)
                if msgs:
                    fail(step_i, op, outcome, "other-model-" + categorize(msgs[0]), "other model involved: " + "; ".join(msgs[:4]))
        else:
            d = diff_content(R.content(), extract(S.model))
            if d and outcome == "raise":
                fail(step_i, op, outcome, "changed-state", "the call raised and yet changed the model: " + "; ".join(t for _, t in d))
            msgs = views.check_xref(S.model)
            if msgs:
                fail(step_i, op, outcome, categorize(msgs[0]), "; ".join(msgs[:4]))
            for o in S.others:
                msgs = views.check_xref(o)
                if msgs:
                    fail(step_i, op, outcome, "other-model-" + categorize(msgs[0]), "other model involved: " + "; ".join(msgs[:4]))
            if d and outcome != "raise":
                fail(step_i, op, outcome, "content-" + d[0][0], "; ".join(t for _, t in d))
        S.others = []
        return len(out["failures"]) == n0

    if not check(-1, None, "ok") and stop_on_failure:
        return out
    for i, op in enumerate(history):
        name, args = op[0], op[1:]
        alias_before = dict(S.alias)
        before_obj = None
        if mode == "C01" and name in ("copy", "pickle", "deepcopy", "solver"):
            try:                                   # pure changes of representation: the objective must come through
                before_obj = (views.reported_objective(S.model), S.model.objective_direction)
            except Exception:  # noqa
                before_obj = None
        try:
            REAL_OPS[name](S, *args)
            outcome, exc = "ok", None
        except Skip:
            out["skipped"] += 1
            continue
        except Exception as e:  # noqa
            outcome, exc = "raise", e
            out["raised"] += 1
        out["executed"] += 1
        if mode == "C02":
            if name == "exit":
                R = ref_from_model(S.model, R)
                documented = outcome
            else:
                R2 = R.clone()
                try:
                    REF_OPS[name](R2, alias_before, *args)
                    documented = "ok"
                    R = R2
                except RefRaise as rr:
                    documented = "raise"
                    if outcome == "raise" and type(exc).__name__ not in rr.types:
                        fail(i, op, outcome, "exception-type", f"raised {type(exc).__name__} where {rr} is documented")
            if documented != outcome:
                if outcome == "raise":
                    fail(i, op, outcome, "unexpected-" + type(exc).__name__,
                         f"raised {type(exc).__name__}: {_clean(str(exc))[:160]} where the documentation lets the call succeed")
                else:
                    fail(i, op, outcome, "missing-exception", "did not raise although the documented precondition is violated")
                if stop_on_failure:
                    # still report what the state looks like against the documented one
                    check(i, op, outcome)
                    return out
        if before_obj is not None and outcome == "ok":
            for mdl in [S.model] + [o for o in S.others]:
                try:
                    after_obj = (views.reported_objective(mdl), mdl.objective_direction)
                except Exception as e:  # noqa
                    after_obj = ("unreadable", repr(e))
                if after_obj != before_obj:
                    fail(i, op, outcome, "objective-not-carried-over",
                         f"reported objective/direction {before_obj} before, {after_obj} after a pure change of representation")
                    break
        ok = check(i, op, outcome) and not out["failures"]
        if not ok and stop_on_failure:
            return out
    return out


def safe_run(spec, solver, history, mode):
    try:
        return run_history(spec, solver, history, mode)
    except Exception as e:  # noqa
        import traceback
        tb = traceback.format_exc().strip().splitlines()
        return {"failures": [(f"{mode}:harness:{type(e).__name__}", "the harness itself failed: " + " | ".join(tb[-3:]), len(history) - 1)],
                "executed": 0, "skipped": 0, "raised": 0, "checks": 0}


_FF_CACHE = {}


def first_failure(spec, solver, history, mode):
    """first failure of a history (memoised per process: shrinking asks for the same short histories again and again)"""
    k = (spec["id"], solver, mode, json.dumps(history, sort_keys=True))
    if k not in _FF_CACHE:
        if len(_FF_CACHE) > 20000:
            _FF_CACHE.clear()
        r = safe_run(spec, solver, history, mode)
        _FF_CACHE[k] = r["failures"][0] if r["failures"] else None
    return _FF_CACHE[k]


# =====================================================================================================================
# operation alphabets
# =====================================================================================================================
N1A = ["N1", {"b_c": -1, "d_c": 1}, 0, 1000, "g1 and g9", "model"]          # new metabolite, new gene
N1B = ["N1", {"a_e": -1, "b_c": 2}, -1000, 1000, "", "copy"]                # metabolites are copies of existing ones
N1C = ["N1", {"c_c": -1}, 1, 10, "g2", "copy"]                              # lb > 0
N2A = ["N2", {"b_c": 1}, -10, -1, "", "model"]                              # ub < 0
N2B = ["N2", {}, "-inf", "inf", "g3 or g1", "model"]                        # empty reaction, free
R0D = ["R0", {"c_c": 1}, 0, 5, "", "model"]                                 # identifier already in the model
N1D = ["N1", {"d_c": 1}, 0, "inf", "", "copy"]
N2D = ["N2", {"d_c": -1}, "-inf", 0, "", "copy"]
XR0 = ["X", {"a_e": -1, "b_c": 1}, 0, 1000, "", "copy"]                     # model-less twin of B0's R0
XG = ["X", {"b_c": -1, "d_c": 2}, 0, 1000, "g9 or g2", "copy"]              # model-less, new metabolite and gene

# (step, tags)  tags: q = quick depth-2 alphabet, t = depth-3 core alphabet
_ALPHA = [
    (["add_rxns", [N1A]], "qt"), (["add_rxns", [N1B]], "q"), (["add_rxns", [N1C]], "qt"), (["add_rxns", [N2A]], "q"),
    (["add_rxns", [N2B]], "q"), (["add_rxns", [R0D]], "q"), (["add_rxns", [N1A, N2A]], ""), (["add_rxns", [N1A, N1C]], "q"),
    (["add_rxns", [N1D, N2D]], "q"),
    (["rm_rxn", ["R0"], False, "obj"], "qt"), (["rm_rxn", ["R0"], True, "obj"], "qt"), (["rm_rxn", ["R1"], True, "id"], "q"),
    (["rm_rxn", ["R1"], False, "single"], ""), (["rm_rxn", ["EX_a_e", "R0"], True, "obj"], "q"), (["rm_rxn", ["ZZ"], False, "id"], "q"),
    (["rm_rxn", ["R2"], True, "id"], ""), (["rm_rxn", ["N1"], True, "obj"], ""),
    (["readd", "R0"], "qt"), (["readd", "R1"], ""),
    (["add_met", [["d_c", "c"]], False], "q"), (["add_met", [["b_c", "c"]], False], ""), (["add_met", [["d_c", "c"], ["", "c"]], False], "q"),
    (["add_met", [["d_c", "c"]], True], ""),
    (["rm_met", ["b_c"], False], "qt"), (["rm_met", ["b_c"], True], "qt"), (["rm_met", ["c_c"], False], ""), (["rm_met", ["a_e"], True], "q"),
    (["rm_met", ["a_e", "b_c"], False], ""), (["rm_met", ["d_c"], False], ""),
    (["add_boundary", "a_e", "exchange", None, None, None], "q"), (["add_boundary", "b_c", "exchange", None, None, None], "q"),
    (["add_boundary", "b_c", "demand", None, None, None], "qt"), (["add_boundary", "c_c", "sink", None, -5, 20], "q"),
    (["add_boundary", "b_c", "custom", "CB_b", -1, 1], "q"), (["add_boundary", "b_c", "custom", None, None, None], "q"),
    (["add_boundary", "a_e", "exchange", "EX2", 0, "inf"], "q"), (["add_boundary", "d_c", "demand", None, None, None], "q"),
    (["add_boundary", "c_c", "sink", None, None, None], ""), (["add_boundary", "b_c", "demand", "R0", None, None], "q"),
    (["r_addmets", "R0", [["c_c", 1]], True, "obj"], "qt"), (["r_addmets", "R0", [["b_c", -1]], True, "obj"], "qt"),
    (["r_addmets", "R0", [["b_c", 3]], False, "obj"], "qt"), (["r_addmets", "R0", [["c_c", 2]], False, "obj"], "qt"),
    (["r_addmets", "R1", [["a_e", 1], ["b_c", 1]], True, "id"], "q"), (["r_addmets", "R0", [["d_c", 1]], True, "obj"], "q"),
    (["r_addmets", "R0", [["zz", 1]], True, "id"], "q"), (["r_addmets", "R0", [["b_c", 1], ["zz", 1]], True, "id"], "q"),
    (["r_addmets", "R0", [["b_c", 1]], True, "copy"], "q"), (["r_addmets", "R0", [["d_c", 2]], True, "foreign"], "q"),
    (["r_addmets", "R0", [["b_c", 0]], False, "obj"], "q"), (["r_addmets", "R1", [["c_c", -2]], True, "id"], ""),
    (["r_addmets", "EX_a_e", [["b_c", 1]], True, "id"], ""),
    (["r_submets", "R1", [["c_c", 2]], True, "obj"], "q"), (["r_submets", "R1", [["b_c", 1]], False, "obj"], "q"),
    (["r_submets", "R0", [["a_e", 1]], True, "id"], ""), (["r_submets", "R0", [["c_c", 1]], True, "obj"], ""),
    (["imul", "R0", 2], "qt"), (["imul", "R1", -1], "qt"), (["imul", "R0", -2], "q"), (["imul", "EX_a_e", 0.5], ""), (["imul", "R2", -1], ""),
    (["iadd", "R0", "R1"], "qt"), (["iadd", "R1", "R0"], ""), (["iadd", "R0", "R2"], "q"), (["iadd", "R0", XG], "q"), (["iadd", "R2", "R0"], ""),
    (["isub", "R1", "R0"], "q"), (["isub", "R0", XR0], "qt"), (["isub", "R0", "R0"], ""),
    (["bounds", "R0", 1, 10], "qt"), (["bounds", "R0", -10, -1], "qt"), (["bounds", "R0", 0, 0], ""), (["bounds", "R0", "-inf", "inf"], "qt"),
    (["bounds", "R0", 0, "inf"], ""), (["bounds", "R0", "-inf", 0], ""), (["bounds", "R0", 5, "inf"], "q"), (["bounds", "R0", "-inf", -5], "q"),
    (["bounds", "R0", 2, 2], "q"), (["bounds", "R1", -1000, 1000], ""), (["bounds", "R0", 10, 1], "qt"), (["bounds", "R1", 1, 10], "q"),
    (["bounds", "R1", -10, -1], ""), (["bounds", "EX_a_e", 0, 0], ""),
    (["lb", "R0", 5], "qt"), (["lb", "R0", 2000], "q"), (["lb", "R0", "-inf"], "q"), (["lb", "R0", -5], "q"), (["lb", "R1", 5], ""),
    (["ub", "R0", -5], "q"), (["ub", "R1", -5], "qt"), (["ub", "R1", "inf"], "q"), (["ub", "R0", 0], ""), (["ub", "R0", 5], ""),
    (["r_ko", "R0"], "q"), (["r_ko", "R1"], ""),
    (["g_ko", "g1"], "qt"), (["g_ko", "g2"], "q"), (["g_ko", "g3"], "q"),
    (["rule", "R0", "g3"], "qt"), (["rule", "R0", ""], "q"), (["rule", "R2", "g1 and g9"], "q"), (["rule", "R1", "(g1 and g2) or g3"], ""),
    (["rule", "R0", "g2 or g2"], ""),
    (["obj_rxn", "R0"], "qt"), (["obj_str", "R1"], "q"), (["obj_str", "ZZ"], "q"), (["obj_dict", {"R0": 2, "R1": -1}], "qt"),
    (["obj_dict", {}], "q"), (["obj_expr", {"R0": 1, "R1": 3}], "q"), (["obj_object", {"R1": 1}, "min"], "q"),
    (["obj_coef", "R0", 2], "qt"), (["obj_coef", "R2", 0], ""), (["obj_coef", "R1", -1], ""),
    (["obj_dir", "min"], "qt"), (["obj_dir", "maximize"], "q"), (["obj_dir", "bogus"], "q"),
    (["rename_rxn", "R0", "RX"], "qt"), (["rename_rxn", "R0", "R1"], "q"), (["rename_rxn", "EX_a_e", "EX_a_e"], ""), (["rename_rxn", "R1", "R0"], ""),
    (["rename_met", "b_c", "bx_c"], "qt"), (["rename_met", "b_c", "c_c"], "q"), (["rename_met", "a_e", "a2_e"], ""),
    (["copy", "switch"], "qt"), (["copy", "stay"], "q"), (["pickle"], "qt"), (["deepcopy"], "q"),
    (["merge", "ra", None, True, "left"], "qt"), (["merge", "ra", None, True, "right"], "q"), (["merge", "ra", None, True, "sum"], "q"),
    (["merge", "rb", "p_", True, "left"], "q"), (["merge", "rb", None, True, "left"], "q"), (["merge", "ra", None, False, "sum"], "q"),
    (["merge", "rb", "p_", False, "right"], ""),
    (["solver", "glpk"], "qt"), (["solver", "glpk_exact"], "qt"),
    (["enter"], "qt"), (["exit"], "qt"),
    (["add_cons", "uc1", "con", {"R0": 1, "R1": 1}], "qt"), (["add_cons", "uv1", "var", {}], "q"), (["add_cons", "uc2", "convar", {"R0": 1}], "q"),
    (["rm_cons", "uc1"], "q"), (["rm_cons", "uv1"], ""), (["rm_cons", "uc2"], ""), (["rm_cons", "uc2_v"], ""),
    (["remove_genes", ["g1"], True, "id"], "qt"), (["remove_genes", ["g1"], False, "id"], "q"), (["remove_genes", ["g3"], True, "obj"], "q"),
    (["remove_genes", ["g2", "g3"], False, "id"], ""), (["remove_genes", ["zz"], True, "id"], "q"),
    (["rename_genes", {"g1": "g9"}], "qt"), (["rename_genes", {"g1": "g2"}], "q"), (["rename_genes", {"g3": "g1", "zz": "g5"}], ""),
    # two genes renamed onto the same NEW identifier in one call: the second entry depends on the first (added after a seeded change
    # that rebuilt the index of model.genes only once per call was missed)
    (["rename_genes", {"g1": "g9", "g2": "g9"}], "q"),
    (["add_groups", [["grp2", "classification", [["reaction", "R1"], ["metabolite", "d_c"], ["gene", "g1"]]]]], "q"),
    (["add_groups", [["grp1", "collection", [["reaction", "R1"]]]]], "q"),
    (["remove_groups", ["grp1"], "obj"], "q"), (["remove_groups", ["grp1"], "str"], "q"), (["remove_groups", ["zz"], "obj"], ""),
    (["grp_members", "grp1", [["reaction", "R1"], ["gene", "g1"]], True], "q"), (["grp_members", "grp1", [["reaction", "R0"]], False], ""),
    (["from_string", "R0", "a_e + 2 b_c --> c_c"], "qt"), (["from_string", "R0", "b_c <=> "], "q"), (["from_string", "R1", "c_c <-- d_c"], "q"),
    (["from_string", "R0", "a_e b_c"], "q"),
    (["repair"], "q"),
]


def alphabet_at(which, pos):
    names = which.split(">")
    return alphabet(names[min(pos, len(names) - 1)])


def alphabet(which):
    """'full' | 'quick' | 'core'"""
    if which == "full":
        return [op for op, tags in _ALPHA]
    tag = {"quick": "q", "core": "t"}[which]
    return [op for op, tags in _ALPHA if tag in tags]


# =====================================================================================================================
# directed histories: run in every tier and for every seed (minimal witnesses of the defects known when the drivers were
# written - so that the reported key set does not depend on the seed - and a few scenarios worth pinning)
# =====================================================================================================================
_GRP2 = [["grp2", "classification", [["reaction", "R1"], ["metabolite", "d_c"], ["gene", "g1"]]]]
_XG = ["X", {"b_c": -1, "d_c": 2}, 0, 1000, "g9 or g2", "copy"]
DIRECTED = [
    # a raising Reaction.add_metabolites / subtract_metabolites has already changed the reaction
    ("B0", "glpk", [["r_addmets", "R0", [["b_c", 1], ["zz", 1]], True, "id"]]),
    ("B0", "glpk", [["r_submets", "R0", [["b_c", 1], ["zz", 1]], True, "id"]]),
    ("B0", "glpk", [["r_addmets", "R0", [["b_c", -1], ["zz", 1]], True, "id"]]),
    ("B0", "glpk", [["r_submets", "R0", [["b_c", 1], ["zz", 1]], True, "id"]]),
    # combine=False inside a context for a metabolite the reaction does not have yet
    ("B0", "glpk", [["enter"], ["r_addmets", "R0", [["c_c", 2]], False, "obj"]]),
    ("B0", "glpk", [["enter"], ["r_submets", "R0", [["c_c", 2]], False, "obj"]]),
    ("B0", "glpk", [["enter"], ["r_addmets", "R0", [["c_c", 2]], False, "obj"], ["exit"]]),
    ("B0", "glpk", [["enter"], ["r_submets", "R0", [["c_c", 2]], False, "obj"], ["exit"]]),
    ("B0", "glpk", [["enter"], ["r_addmets", "R0", [["d_c", 2]], False, "obj"], ["exit"]]),
    ("B0", "glpk", [["enter"], ["r_submets", "R0", [["d_c", 2]], False, "obj"], ["exit"]]),
    ("B0", "glpk", [["enter"], ["r_addmets", "R0", [["d_c", 0.5]], False, "copy"], ["enter"], ["exit"], ["exit"]]),
    ("B0", "glpk", [["enter"], ["iadd", "R0", "R0"], ["r_submets", "R0", [["d_c", -2]], False, "obj"], ["exit"]]),
    # the objective expression keeps the variables of a removed reaction
    ("B1", "glpk", [["rm_rxn", ["R0"], False, "obj"], ["merge", "ra", None, True, "sum"]]),
    ("B1", "glpk", [["rm_rxn", ["R0"], False, "obj"], ["merge", "ra", None, False, "sum"]]),
    ("B1", "glpk_exact", [["rm_rxn", ["R0"], False, "obj"], ["solver", "glpk"]]),
    ("B1", "glpk", [["rm_rxn", ["R0"], False, "obj"], ["solver", "glpk_exact"]]),
    ("B1", "glpk", [["rm_rxn", ["R1"], True, "id"], ["enter"], ["obj_coef", "R2", 2], ["exit"]]),
    ("B1", "glpk_exact", [["rm_rxn", ["R0"], False, "obj"], ["readd", "R0"], ["solver", "glpk"]]),
    ("B1", "glpk_exact", [["rm_rxn", ["R0"], False, "obj"], ["merge", "ra", None, True, "left"], ["readd", "R0"]]),
    ("B0", "glpk", [["rm_rxn", ["R0"], False, "obj"], ["rename_met", "b_c", "bx_c"], ["readd", "R0"]]),
    ("B1", "glpk", [["rm_met", ["b_c"], True], ["merge", "rb", "p_", True, "left"]]),
    # merge: rows of the right model copied as if they were custom constraints; discarded reaction copies stay referenced
    ("B0", "glpk", [["rename_met", "b_c", "bx_c"], ["merge", "rb", None, True, "left"]]),
    ("B0", "glpk", [["rename_met", "a_e", "a2_e"], ["merge", "rb", "p_", True, "left"]]),
    ("B0", "glpk", [["merge", "rb", None, True, "left"]]),
    ("B0", "glpk", [["merge", "rb", None, False, "left"]]),
    # objective given as an expression: direction reset
    ("B1", "glpk", [["obj_expr", {"R0": 1, "R1": 3}]]),
    ("B1", "glpk", [["merge", "ra", None, True, "sum"]]),
    # genes and groups
    ("B0", "glpk", [["remove_genes", ["g1"], False, "id"]]),
    ("B0", "glpk", [["remove_groups", ["grp1"], "str"]]),
    ("B2", "glpk", [["rm_rxn", ["R1"], True, "obj"]]),
    ("B0", "glpk", [["add_groups", _GRP2], ["rename_genes", {"g1": "g2"}]]),
    # model-less operand of += / -= with a metabolite that is new to the model; re-adding after orphan removal
    ("B0", "glpk", [["iadd", "R0", _XG]]),
    ("B0", "glpk", [["isub", "R0", _XG]]),
    ("B0", "glpk", [["rm_rxn", ["EX_a_e", "R0"], True, "obj"], ["readd", "R0"]]),
    # leaving contexts
    ("B0", "glpk", [["enter"], ["repair"], ["exit"]]),
    ("B0", "glpk", [["enter"], ["add_groups", _GRP2], ["exit"]]),
    ("B0", "glpk", [["enter"], ["iadd", "R0", _XG], ["rm_met", ["d_c"], False], ["exit"]]),
    ("B0", "glpk", [["enter"], ["rm_rxn", ["R0"], False, "obj"], ["readd", "R0"], ["exit"]]),
    ("B0", "glpk", [["enter"], ["isub", "R0", XR0], ["rename_met", "b_c", "bx_c"], ["exit"]]),
    ("B2", "glpk", [["enter"], ["rm_rxn", ["R1"], True, "id"], ["rename_rxn", "R0", "R1"], ["exit"]]),
    ("B1", "glpk_exact", [["enter"], ["add_boundary", "b_c", "demand", None, None, None], ["solver", "glpk"], ["exit"]]),
    ("B1", "glpk_exact", [["enter"], ["rm_met", ["b_c"], False], ["solver", "glpk"], ["exit"]]),
    ("B1", "glpk_exact", [["enter"], ["merge", "ra", None, True, "left"], ["solver", "glpk"], ["exit"]]),
    ("B0", "glpk", [["enter"], ["bounds", "R0", 1, 10], ["solver", "glpk_exact"], ["exit"]]),
    ("B0", "glpk", [["enter"], ["enter"], ["imul", "R0", 2], ["exit"], ["exit"]]),
    ("B0", "glpk", [["enter"], ["enter"], ["iadd", "R0", "R0"], ["exit"], ["exit"]]),
    ("B0", "glpk", [["enter"], ["enter"], ["iadd", "R0", "R1"], ["exit"], ["exit"]]),
    ("B0", "glpk", [["enter"], ["enter"], ["rule", "R0", "g3 and g1"], ["exit"], ["exit"]]),
    ("B0", "glpk", [["enter"], ["enter"], ["remove_genes", ["g1"], True, "id"], ["exit"], ["exit"]]),
    ("B0", "glpk", [["enter"], ["enter"], ["rename_genes", {"g1": "g2"}], ["exit"], ["exit"]]),
    ("B0", "glpk", [["enter"], ["enter"], ["merge", "rb", "p_", True, "left"], ["imul", "RR", 3], ["exit"], ["exit"]]),
    # Model.copy / pickle hand out 1.797e308 for infinite bounds; after a solver switch the model cannot be copied any more
    ("B1", "glpk", [["copy", "switch"], ["solver", "glpk_exact"], ["copy", "switch"]]),
    ("B1", "glpk", [["copy", "switch"], ["solver", "glpk_exact"], ["pickle"]]),
    ("B1", "glpk", [["copy", "switch"], ["solver", "glpk_exact"], ["deepcopy"]]),
    ("B1", "glpk_exact", [["pickle"], ["solver", "glpk"], ["copy", "stay"]]),
    ("B1", "glpk", [["copy", "switch"], ["solver", "glpk_exact"], ["merge", "ra", None, False, "left"]]),
    # scenarios worth pinning (all branches of update_variable_bounds through every route that reaches it)
    ("B0", "glpk", [["rename_rxn", "R0", "RX"], ["bounds", "R0", 1, 10], ["bounds", "R0", -10, -1], ["bounds", "R0", "-inf", "inf"]]),
    ("B1", "glpk_exact", [["imul", "R0", -1], ["imul", "R1", -2], ["pickle"], ["lb", "R0", "-inf"], ["ub", "R1", "inf"]]),
    ("B1", "glpk", [["copy", "switch"], ["solver", "glpk_exact"], ["bounds", "R2", 5, "inf"], ["deepcopy"], ["bounds", "R2", "-inf", -5]]),
    ("B0", "glpk", [["enter"], ["g_ko", "g1"], ["g_ko", "g3"], ["r_ko", "R2"], ["exit"]]),
    ("B0", "glpk_exact", [["rm_rxn", ["R0"], True, "obj"], ["readd", "R0"], ["bounds", "R0", 2, 2], ["rename_rxn", "R0", "RX"], ["imul", "R0", -1]]),
]


# =====================================================================================================================
# seeded random histories (state aware: handles are drawn from what the model currently contains)
# =====================================================================================================================
_U_R = ["EX_a_e", "R0", "R1", "R2"]
_U_M = ["a_e", "b_c", "c_c"]
_U_G = ["g1", "g2", "g3"]
_BOUNDS = [(1, 10), (-10, -1), (0, 0), ("-inf", "inf"), (0, "inf"), ("-inf", 0), (5, "inf"), ("-inf", -5), (2, 2), (-1000, 1000),
           (-5, 7), (10, 1), (0, 1000), (-1000, 0), (-2, -2)]
_COEFS = [-2, -1, 1, 2, 3, 0.5]


def _remap(x, table):
    if isinstance(x, str):
        return table.get(x, x)
    if isinstance(x, list):
        return [_remap(v, table) for v in x]
    if isinstance(x, dict):
        return {table.get(k, k): v for k, v in x.items()}
    return x


def random_op(rng, S, templates):
    m = S.model
    roll = rng.random()
    rids = [r.id for r in m.reactions]
    mids = [x.id for x in m.metabolites]
    gids = [g.id for g in m.genes]
    if roll < 0.06:
        return ["enter"]
    if roll < 0.12 and S.ctx:
        return ["exit"]
    if roll < 0.22 and rids:
        lb, ub = rng.choice(_BOUNDS)
        return ["bounds", rng.choice(rids), lb, ub]
    if roll < 0.27 and rids:
        which = rng.choice(["lb", "ub"])       # validity precondition of the model: never lb = +inf, never ub = -inf
        return [which, rng.choice(rids), rng.choice([-1000, -10, -1, 0, 1, 10, 1000, "-inf" if which == "lb" else "inf"])]
    if roll < 0.37 and rids:
        k = rng.randint(1, 2)
        pool = list(dict.fromkeys(mids + (["d_c"] if rng.random() < 0.8 else ["zz"])))
        items = [[x, rng.choice(_COEFS)] for x in rng.sample(pool, min(k, len(pool)))]
        keytype = rng.choice(["obj", "obj", "id", "copy"])
        if rng.random() < 0.25 and items:                      # cancel an existing coefficient exactly
            r = m.reactions.get_by_id(rng.choice(rids))
            if r._metabolites:
                met = rng.choice(sorted(r._metabolites, key=lambda x: x.id))
                c = r._metabolites[met]
                if rng.random() < 0.5:
                    return ["r_addmets", r.id, [[met.id, -c]], True, keytype]
                return ["r_submets", r.id, [[met.id, c]], True, keytype]
        return [rng.choice(["r_addmets", "r_addmets", "r_submets"]), rng.choice(rids), items, rng.random() < 0.6, keytype]
    if roll < 0.41 and rids:
        return ["imul", rng.choice(rids), rng.choice([2, -1, -2, 0.5, 3])]
    if roll < 0.46 and len(rids) >= 1:
        return [rng.choice(["iadd", "isub"]), rng.choice(rids), rng.choice(rids + [XG, XR0])]
    # otherwise: a template of the full alphabet with the universe handles mapped injectively onto present objects
    op = rng.choice(templates)
    if rng.random() < 0.7:
        table = {}
        for uni, cur in ((_U_R, rids), (_U_M, mids), (_U_G, gids)):
            cur = list(cur)
            rng.shuffle(cur)
            cur = cur + [u for u in uni if u not in cur]
            tgt = cur[:len(uni)]
            src = list(uni)
            rng.shuffle(src)
            table.update(dict(zip(src, tgt)))
        name = op[0]
        if name in ("add_rxns", "rule", "from_string", "rename_rxn", "rename_met", "rename_genes", "remove_genes", "merge", "add_groups",
                    "add_cons", "rm_cons", "solver", "copy", "obj_dir", "g_ko"):
            return op          # specs with embedded identifiers stay as they are
        return [name] + _remap(op[1:], table)
    return op


def random_history(rng, spec, solver, mode, max_depth, templates):
    """generate and execute step by step (so that the generator sees the current model); -> (history, result)"""
    quiet()
    depth = rng.randint(2, max_depth)
    S = Real(spec, solver)
    hist = []
    for _ in range(depth):
        op = random_op(rng, S, templates)
        hist.append(op)
        try:
            REAL_OPS[op[0]](S, *op[1:])
        except Skip:
            hist.pop()
        except Exception:  # noqa
            pass
        S.others = []
    if S.ctx and rng.random() < 0.7:
        hist.extend([["exit"]] * len(S.ctx))
    return hist


# =====================================================================================================================
# exploration (parallel)
# =====================================================================================================================
def _hkey(spec_id, solver, hist):
    return hashlib.md5(json.dumps([spec_id, solver, hist], sort_keys=True).encode()).hexdigest()[:16]


def _rank(spec, solver, wit):
    """preference among witnesses: shortest, then a directed one, then on a hand-built base, then a fixed order"""
    global _DIRECTED_SET
    if _DIRECTED_SET is None:
        _DIRECTED_SET = {json.dumps([b, sv, h]) for b, sv, h in DIRECTED}
    pinned = json.dumps([spec["id"], solver, wit]) in _DIRECTED_SET
    return (len(wit), 0 if pinned else 1, 0 if spec["id"] in ("B0", "B1", "B2") else 1, spec["id"], solver, json.dumps(wit))


_DIRECTED_SET = None


def witness_id(spec, solver, wit):
    """exact, seed-independent identity of a minimal failing history (base, solver interface, canonical JSON of the steps)"""
    return f"{spec['id']}|{solver}|{json.dumps(wit, separators=(',', ':'), sort_keys=True)}"


def _record(agg, spec, solver, hist, res, source):
    """every failing history is shrunk to a minimal one; failures are kept per class key and per exact minimal witness"""
    agg["evaluations"] += 1
    agg["steps"] += res["executed"]
    agg["raised"] += res["raised"]
    agg["checks"] += res["checks"]
    if res["skipped"] == 0:
        agg["nontrivial"] += 1
    for key, text, step in res["failures"][:1]:
        mode = key.split(":", 1)[0]
        wit = shrink(spec, solver, hist[:step + 1], mode, key)
        if len(wit) != step + 1:
            f = first_failure(spec, solver, wit, mode)
            text = f[1] if f else text
        key = refine(key, wit)
        wid = witness_id(spec, solver, wit)
        cur = agg["failures"].setdefault(source, {}).setdefault(key, {}).get(wid)
        if cur is None:
            agg["failures"][source][key][wid] = [1, spec, solver, wit, text]
        else:
            cur[0] += 1


def context_tag(wit):
    """what a (shrunk) witness does before it leaves its context(s): the stable part of an exit failure's key.
    More than one level still open in the shrunk witness -> 'nested' (undo actions that register again in the outer context);
    one kind of operation -> its name; a solver switch together with anything else -> one bucket (undo closures bound to the
    replaced solver object); every other mixture -> 'combination'."""
    if sum(1 for st in wit if st[0] == "enter") > 1:
        return "nested"
    inner = sorted({API[st[0]] for st in wit if st[0] not in ("enter", "exit")})
    if "Model.solver" in inner and len(inner) > 1:
        return "Model.solver+edit"
    if len(inner) <= 1:
        return "+".join(inner)
    return "combination"


def refine(key, wit):
    """failures observed on leaving a context are keyed by what the (shrunk) witness did inside, not by the symptom"""
    if wit and wit[-1][0] == "exit":
        return key.split(":", 1)[0] + ":Model.__exit__[" + context_tag(wit) + "]"
    return key


def _new_agg():
    return {"evaluations": 0, "steps": 0, "raised": 0, "checks": 0, "nontrivial": 0, "failures": {}, "hashes": set(), "pruned": 0,
            "cpu": 0.0}


def _wrap(hist, wrap):
    return [["enter"]] * wrap + hist + [["exit"]] * wrap


def _worker(task):
    quiet()
    kind = task[0]
    agg = _new_agg()
    if kind == "ex":
        _, mode, spec, solver, which, depth, wrap, first = task
        a = alphabet_at(which, 0)[first]

        def rec(prefix):
            hist = _wrap(prefix, wrap)
            res = safe_run(spec, solver, hist, mode)
            _record(agg, spec, solver, hist, res, "det")
            if len(prefix) >= depth:
                return
            if res["failures"] or res["skipped"] > 0:
                # every extension repeats this failure / equals a shorter history: not executed, not counted
                n = 1
                for pos in range(len(prefix), depth):
                    n *= len(alphabet_at(which, pos))
                agg["pruned"] += n
                return
            for b in alphabet_at(which, len(prefix)):
                rec(prefix + [b])
        rec([a])
    elif kind == "dir":
        _, mode, items = task
        bases = {b["id"]: b for b in hand_bases()}
        for base, solver, hist in items:
            spec = bases[base] if isinstance(base, str) else base
            res = safe_run(spec, solver, hist, mode)
            _record(agg, spec, solver, hist, res, "det")
    else:
        _, mode, specs, seed, chunk, n, max_depth = task
        rng = random.Random((seed * 7919 + chunk) * 104729 + 11)
        templates = alphabet("full")
        for _ in range(n):
            spec = rng.choice(specs)
            solver = rng.choice(["glpk", "glpk_exact"])
            hist = random_history(rng, spec, solver, mode, max_depth, templates)
            h = _hkey(spec["id"], solver, hist)
            if h in agg["hashes"]:
                continue
            agg["hashes"].add(h)
            res = safe_run(spec, solver, hist, mode)
            _record(agg, spec, solver, hist, res, "rnd")
    return agg


def plan(tier, seed):
    """-> (exhaustive blocks [(spec, solver, alphabet name, depth, wrap)], random (specs, chunks, n per chunk, max depth))"""
    b0, b1, b2 = hand_bases()
    if tier == "quick":
        ex = [(b0, "glpk", "quick>core", 2, 0), (b1, "glpk_exact", "core>quick", 2, 0), (b2, "glpk", "core", 2, 0),
              (b0, "glpk_exact", "core", 2, 1), (b1, "glpk", "core", 2, 1)]
        rnd = ([b0, b1, b2] + gen_bases(seed, 5), 64, 48, 6)
    else:
        ex = [(b0, "glpk", "core", 3, 0), (b0, "glpk_exact", "core", 3, 1)]
        for b, sv in ((b0, "glpk"), (b0, "glpk_exact"), (b1, "glpk"), (b1, "glpk_exact"), (b2, "glpk")):
            ex.append((b, sv, "full", 2, 0))
        ex += [(b0, "glpk", "full", 2, 1), (b1, "glpk_exact", "quick", 2, 2), (b1, "glpk", "core", 2, 1)]   # contains the quick plan
        rnd = ([b0, b1, b2] + gen_bases(seed, 24), 128, 250, 8)
    return ex, rnd


def shrink(spec, solver, hist, mode, key):
    """greedy removal of steps (and of matching enter/exit pairs) that are not needed for the same failure at the last step"""
    def same(cand):
        f = first_failure(spec, solver, cand, mode)
        return f is not None and f[0] == key and f[2] == len(cand) - 1
    changed = True
    while changed:
        changed = False
        pairs, stack = [], []
        for i, st in enumerate(hist):
            if st[0] == "enter":
                stack.append(i)
            elif st[0] == "exit" and stack:
                pairs.append((stack.pop(), i))
        cands = [hist[:i] + hist[i + 1:j] + hist[j + 1:] for i, j in pairs if j < len(hist) - 1]
        cands += [hist[:i] + hist[i + 1:] for i in range(len(hist) - 1)]
        for cand in cands:
            if same(cand):
                hist = cand
                changed = True
                break
    return hist


def explore(mode, tier, seed, processes=16):
    import multiprocessing
    quiet()
    t0 = time.time()
    ex, (rspecs, chunks, nper, maxd) = plan(tier, seed)
    tasks = []
    for spec, solver, which, depth, wrap in ex:
        for first in range(len(alphabet_at(which, 0))):
            tasks.append(("ex", mode, spec, solver, which, depth, wrap, first))
    n_ex_tasks = len(tasks)
    for c in range(0, len(DIRECTED), 8):
        tasks.append(("dir", mode, DIRECTED[c:c + 8]))
    n_dir_tasks = len(tasks) - n_ex_tasks
    for c in range(chunks):
        tasks.append(("rnd", mode, rspecs, seed, c, nper, maxd))
    # long tasks first
    total = _new_agg()
    ex_eval = rnd_eval = dir_eval = 0
    with multiprocessing.get_context("fork").Pool(processes) as pool:
        for idx_agg in pool.imap_unordered(_worker_idx, list(enumerate(tasks)), chunksize=1):
            idx, agg = idx_agg
            if idx < n_ex_tasks:
                ex_eval += agg["evaluations"]
            elif idx < n_ex_tasks + n_dir_tasks:
                dir_eval += agg["evaluations"]
            else:
                rnd_eval += agg["evaluations"]
            for k in ("evaluations", "steps", "raised", "checks", "nontrivial", "pruned", "cpu"):
                total[k] += agg[k]
            total["hashes"] |= agg["hashes"]
            for source, per_key in agg["failures"].items():
                for key, per_wit in per_key.items():
                    for wid, (n, spec, solver, wit, text) in per_wit.items():
                        cur = total["failures"].setdefault(source, {}).setdefault(key, {}).get(wid)
                        if cur is None:
                            total["failures"][source][key][wid] = [n, spec, solver, wit, text]
                        else:
                            cur[0] += n
    det = total["failures"].get("det", {})
    rnd = total["failures"].get("rnd", {})
    failures = []
    loose = {}                                     # class key -> [n, best representative] of random witnesses in an open class
    for key, per_wit in rnd.items():
        for wid, rec in per_wit.items():
            if wid in det.get(key, {}):
                det[key][wid][0] += rec[0]        # the random part re-found a witness of the deterministic part
            elif key in det:
                cur = loose.get(key)
                if cur is None:
                    loose[key] = [rec[0], rec]
                else:
                    cur[0] += rec[0]
                    if _rank(rec[1], rec[2], rec[3]) < _rank(cur[1][1], cur[1][2], cur[1][3]):
                        cur[1] = rec
            else:                                  # a class the deterministic part does not know: reported in full
                failures.append({"key": key, "witness": wid, "source": "random",
                                 "failure": f"{rec[4]}  [base {rec[1]['id']}, {rec[2]}; hit by {rec[0]} random histories]",
                                 "replay": {"mode": mode, "base": rec[1], "solver": rec[2], "history": rec[3]}})
    for key, per_wit in det.items():
        for wid, (n, spec, solver, wit, text) in per_wit.items():
            failures.append({"key": key, "witness": wid, "source": "deterministic",
                             "failure": f"{text}  [base {spec['id']}, {solver}; minimal form of {n} failing histories of this run]",
                             "replay": {"mode": mode, "base": spec, "solver": solver, "history": wit}})
    for key, (n, rec) in loose.items():
        failures.append({"key": key, "witness": "random:" + key, "source": "random",
                         "failure": f"{rec[4]}  [base {rec[1]['id']}, {rec[2]}; {n} random histories shrink to minimal histories of this "
                                    f"class that the deterministic part does not contain; this is the smallest]",
                         "replay": {"mode": mode, "base": rec[1], "solver": rec[2], "history": rec[3]}})
    failures.sort(key=lambda f: (f["key"], f["witness"]))
    b0 = hand_bases()[0]
    samples = [{"base": "B0", "solver": "glpk", "history": [alphabet("quick")[9], alphabet("quick")[16]]},
               {"base": "B1", "solver": "glpk_exact", "history": _wrap([alphabet("core")[3], alphabet("core")[20]], 1)}]
    return {
        "evaluations": total["evaluations"],
        "distinct_nontrivial": total["nontrivial"],
        "rule": ("a case is one history (base model, solver interface, list of steps) executed on the real objects with the oracle "
                 "evaluated after every step, also after raising steps. Exhaustive part: every sequence of the stated depth over the "
                 "stated alphabet (optionally wrapped in `with model:` levels); a sequence whose prefix already fails or contains an "
                 "inapplicable step is not extended (its extensions are not counted). Random part: seeded state-aware histories, "
                 "duplicates dropped by hash. distinct_nontrivial counts the executed histories in which every step was applicable "
                 "(exhaustive sequences are distinct by construction, random ones by hash)."),
        "bounds": {"tier": tier, "seed": seed, "universe": {"reactions": "<=4 base + N1,N2,boundary/merge products", "metabolites": "3 + d_c",
                                                          "genes": "g1..g4 + g9", "groups": "<=2", "contexts": "<=3 nested"},
                   "exhaustive_blocks": [{"base": s["id"], "solver": sv, "alphabet": w,
                                          "alphabet_sizes": [len(alphabet_at(w, i)) for i in range(d)], "depth": d,
                                          "context_levels": wr} for s, sv, w, d, wr in ex],
                   "exhaustive_histories_executed": ex_eval, "directed_histories_executed": dir_eval, "extensions_not_executed_after_failure_or_inapplicable_prefix": total["pruned"],
                   "random_histories_executed": rnd_eval, "random_max_depth": maxd, "random_bases": len(rspecs),
                   "steps_executed": total["steps"], "steps_that_raised": total["raised"], "oracle_evaluations": total["checks"],
                   "wall_seconds": round(time.time() - t0, 1), "worker_cpu_seconds": round(total["cpu"], 1)},
        "exhaustive": False,
        "samples": samples,
        "failures": failures,
    }


def _worker_idx(it):
    idx, task = it
    c0 = time.process_time()
    agg = _worker(task)
    agg["cpu"] = time.process_time() - c0
    return idx, agg


def known_lists(result):
    """{class key: [witness ids of the deterministic part ..., "random:<class key>"]} of one run"""
    out = {}
    for f in result["failures"]:
        if f["source"] == "deterministic":
            out.setdefault(f["key"], []).append(f["witness"])
    return {k: sorted(v) + ["random:" + k] for k, v in sorted(out.items())}


def replay(payload):
    quiet()
    _FF_CACHE.clear()
    f = first_failure(payload["base"], payload["solver"], payload["history"], payload["mode"])
    return None if f is None else f"{refine(f[0], payload['history'][:f[2] + 1])}: {f[1]}"


def write_known(modes=("C01", "C02"), tiers=("quick", "thorough"), seed=0, out_dir=None):
    """(re)generate bcc/drivers/KNOWN_<mode>.json = {class key: [deterministic witnesses of the given tiers ..., "random:<class>"]}
    for the tree that is currently imported as `cobra`"""
    import os
    out_dir = out_dir or os.path.join(os.path.dirname(os.path.abspath(__file__)), "drivers")
    for mode in modes:
        merged = {}
        for tier in tiers:
            res = explore(mode, tier, seed)
            for key, wits in known_lists(res).items():
                merged.setdefault(key, set()).update(w for w in wits if not w.startswith("random:"))
            print(f"{mode} {tier}: {res['evaluations']} histories, {res['bounds']['wall_seconds']} s wall, "
                  f"{res['bounds']['worker_cpu_seconds']} s cpu, {sum(len(v) for v in merged.values())} witnesses so far", flush=True)
        final = {k: sorted(v) + ["random:" + k] for k, v in sorted(merged.items())}
        with open(os.path.join(out_dir, f"KNOWN_{mode}.json"), "w") as fh:
            json.dump(final, fh, indent=1, sort_keys=True)
            fh.write("\n")


if __name__ == "__main__":
    import sys
    if len(sys.argv) >= 2 and sys.argv[1] == "known":
        # python -m bcc.histories_c01c02 known [C01,C02] [quick,thorough]
        write_known(tuple(sys.argv[2].split(",")) if len(sys.argv) > 2 else ("C01", "C02"),
                    tuple(sys.argv[3].split(",")) if len(sys.argv) > 3 else ("quick", "thorough"))
    else:
        print("usage: python -m bcc.histories_c01c02 known [C01,C02] [quick,thorough]")
