"""Sensitivity experiments for the C12 / C13 / C16 / C20 drivers: realistic defects are monkeypatched into cobra IN THIS PROCESS
ONLY (source of one function rewritten and re-executed in its module; /repo is never touched), then the driver's quick tier is run.

    cd /verif && .venv/bin/python -m bcc.c12_mutants <driver> none [seed]            # record the baseline keys (in /var/tmp)
    cd /verif && .venv/bin/python -m bcc.c12_mutants <driver> <mutant> [seed] [filter]  # DETECTED = a key not in the baseline
    cd /verif && .venv/bin/python -m bcc.c12_mutants list

filter: '|'-separated substrings of the task description (only those tasks are run; needs the driver's execute()).
Results of the experiments: bcc/drivers/NOTES_C12.md, NOTES_C13.md, NOTES_C16.md, NOTES_C20.md.
"""
import sys, inspect, textwrap, importlib, json, time
import os
sys.path.insert(0, os.path.dirname(os.path.dirname(os.path.abspath(__file__))))
from bcc.c12_common import quiet
quiet()
import cobra

def patch(owner, name, old, new, count=1):
    f = getattr(owner, name)
    f = getattr(f, "__func__", f)
    if isinstance(f, property):
        raise NotImplementedError
    src = getattr(f, "__mutant_src__", None) or textwrap.dedent(inspect.getsource(f))   # a function may be patched twice
    orig_name = getattr(f, "__mutant_name__", f.__name__)
    assert src.count(old) >= 1, (name, old)
    src = src.replace(old, new) if count is None else src.replace(old, new, count)
    if inspect.isclass(owner):
        src = src.replace("super()", f"super({owner.__name__}, self)")
        import re as _re
        src = _re.sub(r"self\.__([A-Za-z]\w*?[A-Za-z0-9])\b(?!_)", lambda mo: f"self._{owner.__name__}__{mo.group(1)}", src)
    mod = sys.modules[f.__module__]
    ns = mod.__dict__   # the real module namespace: later monkeypatches of module names stay visible
    import re
    src = re.sub(r"def %s\(" % re.escape("_mutant_fn" if hasattr(f, "__mutant_src__") else f.__name__), "def _mutant_fn(", src, count=1)
    exec(compile(src, f"<mutant {name}>", "exec"), ns)
    g = ns["_mutant_fn"]
    g.__mutant_src__ = src
    g.__mutant_name__ = orig_name
    g.__name__ = orig_name
    g.__qualname__ = f.__qualname__
    raw = inspect.getattr_static(owner, name) if inspect.isclass(owner) else None
    if isinstance(raw, staticmethod):
        g = staticmethod(g)
    elif isinstance(raw, classmethod):
        g = classmethod(g)
    setattr(owner, name, g)

MUTANTS = {}
def mutant(f):
    MUTANTS[f.__name__] = f
    return f


# ====================================================================== mutants
from cobra.core import Model, Reaction, Metabolite, Gene
from cobra.core.species import Species
from cobra.core.gene import GPR

# ---------------- C12
@mutant
def c12_gpr_shallow():
    GPR.__copy__ = lambda self: self
@mutant
def c12_shared_solver():
    patch(Model, "copy", "new._solver = deepcopy(self.solver)", "new._solver = self.solver")
@mutant
def c12_contexts_kept():
    patch(Model, "copy", "new._contexts = []", "new._contexts = self._contexts", count=None)   # the copy keeps the original's stack
@mutant
def c12_model_notes_shared():
    patch(Model, "copy", "new.notes = deepcopy(self.notes)", "new.notes = self.notes")
@mutant
def c12_group_members_original():
    patch(Model, "copy", "new_group.add_members(new_objects)", "new_group.add_members(list(group.members))")
@mutant
def c12_reaction_copy_no_gene_restore():
    patch(Reaction, "copy", "    for i in self._genes:\n        i._model = model\n", "")
@mutant
def c12_add_inplace():
    patch(Reaction, "__add__", "new_reaction = self.copy()", "new_reaction = self")
@mutant
def c12_mul_inplace():
    patch(Reaction, "__mul__", "new = self.copy()", "new = self")
@mutant
def c12_species_keeps_reactions():
    patch(Species, "__getstate__", 'state["_reaction"] = set()', 'pass')
@mutant
def c12_copy_bounds_by_solver_only():
    # copy forgets a reaction attribute: subsystem
    patch(Model, "copy", 'do_not_copy_by_ref = {"_model", "_metabolites", "_genes"}', 'do_not_copy_by_ref = {"_model", "_metabolites", "_genes", "subsystem"}')
@mutant
def c12_getstate_keeps_contexts():
    patch(Model, "__getstate__", 'odict["_contexts"] = []', 'pass')
@mutant
def c12_gene_functional_lost():
    patch(Model, "copy", "new_gene = gene.__class__(None)\n        for attr, value in gene.__dict__.items():\n            if attr not in do_not_copy_by_ref:",
          "new_gene = gene.__class__(None)\n        for attr, value in gene.__dict__.items():\n            if attr not in do_not_copy_by_ref and attr != '_functional':")
@mutant
def c12_metabolite_reaction_set_shared():
    patch(Model, "copy", 'do_not_copy_by_ref = {"_reaction", "_model"}', 'do_not_copy_by_ref = {"_model"}')

# ---------------- C13
import cobra.flux_analysis as _fa
import importlib as _il
_var, _pars, _del, _ppp, _far, _room, _moma, _ll, _geo, _fcc, _gap = [_il.import_module("cobra.flux_analysis." + n) for n in
    ("variability", "parsimonious", "deletion", "phenotype_phase_plane", "reaction", "room", "moma", "loopless", "geometric", "fastcc", "gapfilling")]
_mm = _il.import_module("cobra.medium.minimal_medium")
_hr = _il.import_module("cobra.sampling.hr_sampler")

def _repoint(mod, name):
    """re-export a patched function everywhere cobra re-imported it"""
    import sys
    new = getattr(mod, name)
    for m in list(sys.modules.values()):
        if m is not None and getattr(m, "__name__", "").startswith("cobra") and hasattr(m, name) and m is not mod:
            try:
                if getattr(getattr(m, name), "__module__", None) == mod.__name__:
                    setattr(m, name, new)
            except Exception:
                pass

@mutant
def c13_optimize_restore_on_success_only():
    def optimize(self, objective_sense=None, raise_error=False):
        from cobra.core.solution import get_solution
        original_direction = self.objective.direction
        self.objective.direction = {"maximize": "max", "minimize": "min"}.get(objective_sense, original_direction)
        self.slim_optimize()
        solution = get_solution(self, raise_error=raise_error)
        self.objective.direction = original_direction
        return solution
    Model.optimize = optimize
@mutant
def c13_fva_objective_behind_context():
    patch(_var, "flux_variability_analysis", "model.objective = Zero  # This will trigger the reset as well",
          "model.solver.objective = prob.Objective(Zero, direction=model.solver.objective.direction)")
    _repoint(_var, "flux_variability_analysis")
@mutant
def c13_blocked_no_context():
    patch(_var, "find_blocked_reactions", "with model:", "if True:")
    _repoint(_var, "find_blocked_reactions")
@mutant
def c13_pfba_no_context():
    patch(_pars, "pfba", "with model as m:", "m = model\n    if True:")
    _repoint(_pars, "pfba")
@mutant
def c13_reaction_deletion_no_context():
    patch(_del, "_reaction_deletion", "with model:", "if True:")
@mutant
def c13_envelope_direction_leak():
    patch(_ppp, "_add_envelope", "        with model:\n            model.objective_direction = direction", "        if True:\n            model.objective_direction = direction")
@mutant
def c13_assess_component_no_context():
    patch(_far, "assess_component", "with model as m:", "m = model\n    if True:")
@mutant
def c13_room_no_context():
    patch(_room, "room", "with model:", "if True:")
    _repoint(_room, "room")
@mutant
def c13_loopless_solution_no_context():
    patch(_ll, "loopless_solution", "with model:", "if True:")
    _repoint(_ll, "loopless_solution")
@mutant
def c13_geometric_no_context():
    patch(_geo, "geometric_fba", "with model:", "if True:")
    _repoint(_geo, "geometric_fba")
@mutant
def c13_minimal_medium_no_context():
    patch(_mm, "minimal_medium", "with model as mod:", "mod = model\n    if True:")
    _repoint(_mm, "minimal_medium")
@mutant
def c13_sampler_no_copy():
    import cobra.sampling.hr_sampler as h
    f = h.HRSampler.__init__
    def init(self, model, *a, **k):
        model.__dict__["copy"] = lambda: model      # HRSampler works on the model itself
        try:
            f(self, model, *a, **k)
        finally:
            del model.__dict__["copy"]
    h.HRSampler.__init__ = init
@mutant
def c13_gapfill_no_copy():
    patch(_gap.GapFiller, "__init__", "self.model = model.copy()", "self.model = model")
@mutant
def c13_fastcc_inner_no_context():
    patch(_fcc, "fastcc", "        with model:", "        if True:")
    _repoint(_fcc, "fastcc")
@mutant
def c13_fva_worker_direction_only_multiproc():
    # the pfba_factor branch forgets its inner context
    patch(_var, "flux_variability_analysis", "            with model:\n                add_pfba(model, fraction_of_optimum=0)", "            if True:\n                add_pfba(model, fraction_of_optimum=0)")
    _repoint(_var, "flux_variability_analysis")
@mutant
def c13_knock_out_gene_state_leak():
    # gene deletion restores bounds but not the functional flag: knock-outs done outside the context manager
    patch(_del, "_gene_deletion", "with model:", "if True:")
@mutant
def c13_envelope_outer_no_context():
    patch(_ppp, "production_envelope", "    with model:\n        model.objective = objective", "    if True:\n        model.objective = objective")
    _repoint(_ppp, "production_envelope")

@mutant
def c13_moma_no_context():
    patch(_moma, "moma", "with model:", "if True:")
    _repoint(_moma, "moma")

# ---------------- C16
_score = _il.import_module("cobra.sampling.core")
_achr = _il.import_module("cobra.sampling.achr")
_optgp = _il.import_module("cobra.sampling.optgp")
_sampling = _il.import_module("cobra.sampling.sampling")

def _wrap_init(post):
    f = _hr.HRSampler.__init__
    def init(self, *a, **k):
        f(self, *a, **k)
        post(self)
    _hr.HRSampler.__init__ = init
@mutant
def c16_fwd_rev_swapped():
    def post(self):
        self.fwd_idx, self.rev_idx = self.rev_idx, self.fwd_idx
    _wrap_init(post)
@mutant
def c16_rev_idx_by_sorted_name():
    import numpy as np
    def post(self):
        # reverse variables looked up in alphabetical reaction order instead of model order
        var_idx = {v: idx for idx, v in enumerate(self.model.variables)}
        self.rev_idx = np.array([var_idx[r.reverse_variable] for r in sorted(self.model.reactions, key=lambda r: r.id)])
    _wrap_init(post)
@mutant
def c16_ignore_inequalities():
    patch(_score, "step", "if prob.bounds.shape[0] > 0:", "if False:")
    patch(_hr.HRSampler, "_bounds_dist", "if prob.bounds.shape[0] > 0:", "if False:")
    _achr.step = _score.step; _optgp.step = _score.step
@mutant
def c16_no_bounds_guard():
    patch(_score, "step", "valphas = ((1.0 - sampler.bounds_tol) * prob.variable_bounds - x)[:, valid]", "valphas = ((1.0 + 1e-3) * prob.variable_bounds - x)[:, valid]")
    patch(_hr.HRSampler, "_bounds_dist", "return np.array([lb_dist, ub_dist])", "return np.array([1.0, 1.0])")
    _achr.step = _score.step; _optgp.step = _score.step
@mutant
def c16_optgp_floor():
    patch(_optgp.OptGPSampler, "sample", "n_process = np.ceil(n / self.processes).astype(int)", "n_process = max(1, np.floor(n / self.processes).astype(int))")
@mutant
def c16_achr_no_seed():
    patch(_achr.ACHRSampler, "__init__", "np.random.seed(self._seed)", "pass")
    # super().__init__ without arguments cannot be re-compiled outside the class: see fallback below
@mutant
def c16_warmup_order():
    patch(_hr.HRSampler, "generate_fva_warmup", "sol = [primals[v.name] for v in self.model.variables]", "sol = [primals[k] for k in sorted(primals)]")
@mutant
def c16_validate_letters_swapped():
    patch(_hr.HRSampler, "validate", 'codes[lb_error <= -self.bounds_tol], "l"', 'codes[lb_error <= -self.bounds_tol], "u"')
@mutant
def c16_thinning_off():
    patch(_achr.ACHRSampler, "sample", "samples = np.zeros((n, self.warmup.shape[1]))", "samples = np.zeros((n + 1, self.warmup.shape[1]))")
@mutant
def c16_columns_sorted():
    patch(_achr.ACHRSampler, "sample", "names = [r.id for r in self.model.reactions]", "names = sorted(r.id for r in self.model.reactions)")
    patch(_optgp.OptGPSampler, "sample", "names = [r.id for r in self.model.reactions]", "names = sorted(r.id for r in self.model.reactions)")
@mutant
def c16_fixed_nonzero_dropped():
    # non-zero fixed variables are not added to the equalities: steps may move them
    patch(_hr.HRSampler, "_HRSampler__build_problem", "if any(fixed_non_zero):", "if False:")
    patch(_score, "step", "& np.logical_not(\n        prob.variable_fixed\n    )", "")
    _achr.step = _score.step; _optgp.step = _score.step
@mutant
def c16_optgp_seed_time():
    patch(_optgp, "_sample_chain", "np.random.seed((sampler._seed + idx) % np.iinfo(np.int32).max)", "np.random.seed(None)")

# ---------------- C20
_ms = _il.import_module("cobra.summary.model_summary")
_mets = _il.import_module("cobra.summary.metabolite_summary")
_rs = _il.import_module("cobra.summary.reaction_summary")
_SWAP = '''tmp = flux.loc[negative, "maximum"]
        flux.loc[negative, "maximum"] = flux.loc[negative, "minimum"]
        flux.loc[negative, "minimum"] = tmp'''
@mutant
def c20_model_no_swap():
    patch(_ms.ModelSummary, "_generate", _SWAP, "pass")
@mutant
def c20_metabolite_no_swap():
    patch(_mets.MetaboliteSummary, "_generate", _SWAP, "pass")
@mutant
def c20_model_flux_unscaled():
    patch(_ms.ModelSummary, "_generate", 'flux["flux"] *= flux["factor"]', 'flux["flux"] *= flux["factor"].abs() / flux["factor"].abs() * (flux["factor"] / flux["factor"].abs())')
@mutant
def c20_metabolite_flux_sign_only():
    patch(_mets.MetaboliteSummary, "_generate", 'flux["flux"] *= flux["factor"]', 'flux["flux"] *= (flux["factor"] / flux["factor"].abs())')
@mutant
def c20_model_zero_both_sides():
    patch(_ms.ModelSummary, "_generate", 'is_produced = (flux["flux"] > 0) | ((flux["flux"] == 0) & (flux["factor"] > 0))', 'is_produced = (flux["flux"] >= 0)')
@mutant
def c20_metabolite_zero_dropped():
    patch(_mets.MetaboliteSummary, "_generate", 'is_consumed = (flux["flux"] < 0) | ((flux["flux"] == 0) & (flux["factor"] < 0))', 'is_consumed = (flux["flux"] < 0)')
@mutant
def c20_percent_both_sides():
    patch(_mets.MetaboliteSummary, "_generate", 'self.producing_flux["percent"] = production / production.sum()', 'self.producing_flux["percent"] = production / (2 * production.sum())')
@mutant
def c20_objective_from_solution_attribute():
    patch(_ms.ModelSummary, "_generate", "solution[rxn.id] * coef for rxn, coef in self._objective.items()", "[solution.objective_value]")
@mutant
def c20_fva_fraction_ignored():
    patch(_mets.MetaboliteSummary, "_generate", "fraction_of_optimum=fva,", "fraction_of_optimum=1.0,")
@mutant
def c20_reaction_render_small_flux():
    # the state before the repair of DESIGN section 9 #19
    patch(_rs.ReactionSummary, "_string_flux", "if frame.empty:", "if False:", count=None)
@mutant
def c20_boundary_exchanges_only():
    patch(_ms.ModelSummary, "_generate", "for rxn in sorted(model.boundary, key=attrgetter(\"id\"))", "for rxn in sorted(model.exchanges, key=attrgetter(\"id\"))")
@mutant
def c20_given_solution_ignored():
    patch(_rs.ReactionSummary, "_generate", "if solution is None:", "if True:")
@mutant
def c20_model_side_by_raw_flux():
    # side decided before scaling by the coefficient (wrong for exchanges written the other way round)
    patch(_ms.ModelSummary, "_generate", 'is_produced = (flux["flux"] > 0) | ((flux["flux"] == 0) & (flux["factor"] > 0))',
          'is_produced = (flux["flux"] / flux["factor"] < 0) | ((flux["flux"] == 0) & (flux["factor"] > 0))')
    # and the complement so that each row still appears exactly once
@mutant
def c20_range_zeroing_after_scaling_wrong_column():
    patch(_ms.ModelSummary, "_generate", 'flux[["minimum", "maximum"]] = flux[["minimum", "maximum"]].mul(\n            flux["factor"], axis=0\n        )', 'flux[["minimum", "maximum"]] = flux[["minimum", "maximum"]].mul(\n            flux["factor"].abs(), axis=0\n        )')

# ---------------- reverts of the repairs made in /repo for the defects these drivers found (regression keys must fire again)
@mutant
def revert_copy_in_context():          # e389e4c
    patch(Model, "copy", "new._contexts = []", "new._contexts = self._contexts")
@mutant
def revert_copy_compartments():        # 10d7d3e
    patch(Model, "copy", "new._compartments = dict(self._compartments)", "new._compartments = self._compartments")
@mutant
def revert_copy_notes():               # e3e549c (DESIGN section 9 #15)
    patch(Model, "copy", "if attr in do_not_share:", "if False:", count=None)
@mutant
def revert_add_sub_operands():         # d8e66c0 (DESIGN section 9 #16)
    patch(Reaction, "__add__", "new_reaction += other.copy()", "new_reaction += other")
    patch(Reaction, "__sub__", "new -= other.copy()", "new -= other")
@mutant
def revert_group_pointer():            # d50da1c
    patch(Model, "__setstate__", '"metabolites", "groups"]', '"metabolites"]')
@mutant
def revert_copy_tolerances():          # e3eb7c0
    patch(Model, "copy", "new.tolerance = self._tolerance", "pass")
    patch(Model, "__setstate__", "self.tolerance = self._tolerance", "pass")
@mutant
def revert_validate_per_sample():      # d679fe2
    patch(_hr.HRSampler, "validate", "consts = prob.inequalities.dot(samples.T).T", "consts = prob.inequalities.dot(samples.T)")
@mutant
def revert_cyclefree_clip():           # 558db95 (visible in the thorough tier of C13 only: shipped textbook, loopless FVA twice)
    patch(_ll, "_add_cycle_free", "flux = min(max(flux, rxn.lower_bound), rxn.upper_bound)", "pass")


if __name__ == "__main__":
    if sys.argv[1:2] == ["list"]:
        print("\n".join(sorted(MUTANTS)))
        sys.exit(0)
    drv, mut = sys.argv[1], sys.argv[2]
    seed = int(sys.argv[3]) if len(sys.argv) > 3 else 0
    base = set(json.load(open(f"/var/tmp/bcc_mutants_base_{drv}.json"))) if mut != "none" else set()
    if mut != "none":
        MUTANTS[mut]()
    D = importlib.import_module(f"bcc.drivers.{drv}")
    t0 = time.time()
    filt = sys.argv[4] if len(sys.argv) > 4 else None
    if filt and hasattr(D, "execute"):
        tasks = D.tasks_for("quick", seed)
        tasks = tasks[0] if isinstance(tasks, tuple) else tasks
        tasks = [t for t in tasks if any(x in repr(t) for x in filt.split("|"))]
        print("filtered tasks:", len(tasks))
        r = {"failures": D.execute(tasks, "quick", seed)[0]}
    else:
        r = D.run("quick", seed)
    keys = sorted({f["key"] for f in r["failures"]})
    if mut == "none":
        json.dump(keys, open(f"/var/tmp/bcc_mutants_base_{drv}.json", "w"))
        print("baseline keys:", keys)
    else:
        new = [k for k in keys if k not in base]
        print(f"{drv} {mut}: {'DETECTED' if new else 'MISSED'} in {time.time()-t0:.0f}s new keys: {new[:8]}")
        for f in r["failures"]:
            if f["key"] in new[:2]:
                print("   ", f["key"], "|", " ".join(f["failure"].split())[:230])
