"""Small helpers shared by the drivers C04, C05 and C19 (bounded tier; nothing here touches /repo).

* describe/rebuild with infinite bounds spelled as strings (strict-JSON-able replay payloads),
* a structural signature of a model (what makes two generated cases "the same"),
* a fork pool whose workers may themselves start processes (cobra's FVA with processes=2 does),
* failure bookkeeping (few, smallest witnesses per stable key).
"""
import contextlib
import logging
import math
import multiprocessing
import os
import warnings

INF = float("inf")


def quiet():
    warnings.filterwarnings("ignore")
    logging.disable(logging.CRITICAL)


def _b(x):
    x = float(x)
    if math.isinf(x):
        return "inf" if x > 0 else "-inf"
    return x


def describe(model):
    """bcc.gen.describe with +-inf bounds written as 'inf' / '-inf' (gen.rebuild applies float() to them)."""
    from bcc import gen
    d = gen.describe(model)
    d["reactions"] = [[rid, _b(lb), _b(ub), dict(st), rule] for rid, lb, ub, st, rule in d["reactions"]]
    d["objective"] = {k: float(v) for k, v in d["objective"].items()}
    return d


def rebuild(desc):
    from bcc import gen
    return gen.rebuild(desc)


def signature(model):
    """structure of the flux-balance problem up to the names of metabolites (rows are a set, columns keep their order)"""
    from cobra.util.solver import linear_reaction_coefficients
    c = {r.id: float(v) for r, v in linear_reaction_coefficients(model).items() if v != 0}
    mets = {m.id: i for i, m in enumerate(model.metabolites)}
    cols = tuple((float(r._lower_bound), float(r._upper_bound), c.get(r.id, 0.0),
                  tuple(sorted((mets[m.id], float(k)) for m, k in r._metabolites.items())))
                 for r in model.reactions)
    return (cols, model.objective_direction)


def size_of(desc):
    return len(desc["reactions"]) * 100 + len(desc["metabolites"])


class Failures:
    """keeps at most `per_key` witnesses per key, preferring the smallest models; counts all.
    Failures added with uncapped=True (fixed, seed-independent case lists: one entry per witness id) are all kept."""

    def __init__(self, per_key=2):
        self.per_key = per_key
        self.by_key = {}
        self.counts = {}
        self.fixed = {}

    def add(self, key, failure, replay, size=0, witness=None, uncapped=False):
        if uncapped:
            self.fixed[(key, witness)] = {"key": key, "witness": witness, "failure": failure, "replay": replay}
            return
        self.counts[key] = self.counts.get(key, 0) + 1
        lst = self.by_key.setdefault(key, [])
        lst.append((size, len(lst), {"key": key, "witness": witness, "failure": failure, "replay": replay}))
        lst.sort(key=lambda t: (t[0], t[1]))
        del lst[self.per_key:]

    def merge(self, items):
        for it in items:
            self.add(*it)

    def as_list(self):
        out = []
        for key in sorted(self.by_key):
            for _, _, f in self.by_key[key]:
                f = dict(f)
                f["failure"] = f["failure"] + f" [{self.counts[key]} case(s) with this key in this run]"
                out.append(f)
        for k in sorted(self.fixed, key=lambda t: (t[0], str(t[1]))):
            out.append(dict(self.fixed[k]))
        return out

    def witnesses(self):
        out = {}
        for (key, w) in sorted(self.fixed, key=lambda t: (t[0], str(t[1]))):
            out.setdefault(key, []).append(w)
        return out


def run_pool(fn, tasks, processes=None, nested=False):
    """map fn over tasks in forked workers; nested=True uses non-daemonic workers (they may fork again)."""
    processes = processes or min(16, os.cpu_count() or 1)
    if len(tasks) <= 1 or processes <= 1:
        return [fn(t) for t in tasks]
    ctx = multiprocessing.get_context("fork")
    if nested:
        from concurrent.futures import ProcessPoolExecutor
        with ProcessPoolExecutor(max_workers=processes, mp_context=ctx) as ex:
            return list(ex.map(fn, tasks))
    with ctx.Pool(processes) as pool:
        return pool.map(fn, tasks, chunksize=1)


@contextlib.contextmanager
def patched(obj, name, value):
    old = getattr(obj, name)
    setattr(obj, name, value)
    try:
        yield
    finally:
        setattr(obj, name, old)
