"""Small helpers shared by the drivers C04, C05 and C19 (bounded tier; nothing here touches /repo).

* describe/rebuild with infinite bounds spelled as strings (strict-JSON-able replay payloads),
* a structural signature of a model (what makes two generated cases "the same"),
* a fork pool whose workers may themselves start processes (cobra's FVA with processes=2 does),
* failure bookkeeping (few, smallest witnesses per stable key).
"""
import contextlib
import logging
import math
import multiprocessing
import os
import warnings

INF = float("inf")


def quiet():
    warnings.filterwarnings("ignore")
    logging.disable(logging.CRITICAL)


def _b(x):
    x = float(x)
    if math.isinf(x):
        return "inf" if x > 0 else "-inf"
    return x


def describe(model):
    """bcc.gen.describe with +-inf bounds written as 'inf' / '-inf' (gen.rebuild applies float() to them)."""
    from bcc import gen
    d = gen.describe(model)
    d["reactions"] = [[rid, _b(lb), _b(ub), dict(st), rule] for rid, lb, ub, st, rule in d["reactions"]]
    d["objective"] = {k: float(v) for k, v in d["objective"].items()}
    return d


def rebuild(desc):
    from bcc import gen
    return gen.rebuild(desc)


def signature(model):
    """structure of the flux-balance problem up to the names of metabolites (rows are a set, columns keep their order)"""
    from cobra.util.solver import linear_reaction_coefficients
    c = {r.id: float(v) for r, v in linear_reaction_coefficients(model).items() if v != 0}
    mets = {m.id: i for i, m in enumerate(model.metabolites)}
    cols = tuple((float(r._lower_bound), float(r._upper_bound), c.get(r.id, 0.0),
                  tuple(sorted((mets[m.id], float(k)) for m, k in r._metabolites.items())))
                 for r in model.reactions)
    return (cols, model.objective_direction)


def size_of(desc):
    return len(desc["reactions"]) * 100 + len(desc["metabolites"])


class Failures:
    """keeps at most `per_key` witnesses per key, preferring the smallest models; counts all.
    Failures added with uncapped=True (fixed, seed-independent case lists: one entry per witness id) are all kept."""

    def __init__(self, per_key=2):
        self.per_key = per_key
        self.by_key = {}
        self.counts = {}
        self.fixed = {}

    def add(self, key, failure, replay, size=0, witness=None, uncapped=False):
        if uncapped:
            self.fixed[(key, witness)] = {"key": key, "witness": witness, "failure": failure, "replay": replay}
            return
        self.counts[key] = self.counts.get(key, 0) + 1
        lst = self.by_key.setdefault(key, [])
        lst.append((size, len(lst), {"key": key, "witness": witness, "failure": failure, "replay": replay}))
        lst.sort(key=lambda t: (t[0], t[1]))
        del lst[self.per_key:]

    def merge(self, items):
        for it in items:
            self.add(*it)

    def as_list(self):
        out = []
        for key in sorted(self.by_key):
            for _, _, f in self.by_key[key]:
                f = dict(f)
                f["failure"] = f["failure"] + f" [{self.counts[key]} case(s) with this key in this run]"
                out.append(f)
        for k in sorted(self.fixed, key=lambda t: (t[0], str(t[1]))):
            out.append(dict(self.fixed[k]))
        return out

    def witnesses(self):
        out = {}
        for (key, w) in sorted(self.fixed, key=lambda t: (t[0], str(t[1]))):
            out.setdefault(key, []).append(w)
        return out


def run_pool(fn, tasks, processes=None, nested=False):
    """map fn over tasks in forked workers; nested=True uses non-daemonic workers (they may fork again)."""
    processes = processes or min(16, os.cpu_count() or 1)
    if len(tasks) <= 1 or processes <= 1:
        return [fn(t) for t in tasks]
    ctx = multiprocessing.get_context("fork")
    if nested:
        from concurrent.futures import ProcessPoolExecutor
        with ProcessPoolExecutor(max_workers=processes, mp_context=ctx) as ex:
            return list(ex.map(fn, tasks))
    with ctx.Pool(processes) as pool:
        return pool.map(fn, tasks, chunksize=1)


@contextlib.contextmanager
def patched(obj, name, value):
    old = getattr(obj, name)
    setattr(obj, name, value)
    try:
        yield
    finally:
        setattr(obj, name, old)


# ----------------------------------------------------------------------------------------------------------------------
# one-sided infinite FORCED bounds (not in bcc.gen.BOUNDS; kept here so that no other driver's random stream shifts)
# ----------------------------------------------------------------------------------------------------------------------
FORCED_INF = [(-INF, -5.0), (-INF, -1.0), (2.0, INF), (5.0, INF)]
FORCED_INF_BOUNDS = FORCED_INF * 3 + [(-1000.0, 1000.0), (0.0, 1000.0), (-1000.0, 0.0), (0.0, 10.0), (-10.0, 10.0), (1.0, 10.0),
                                      (-10.0, -1.0), (2.0, 2.0), (0.0, 0.0), (0.0, 3.0), (-3.0, 0.0), (0.0, INF), (-INF, INF),
                                      (-INF, 0.0), (-1000.0, -5.0), (5.0, 1000.0)]
HOWS = ("constructor", "bounds", "sides")


def forced_inf_model(rng):
    """a model whose reactions mix one-sided infinite forced bounds with the usual ones: either a random network or a chain
    with forced uptake / forced secretion and a capacity downstream that lies below or above the forced amount"""
    from bcc import gen
    x = rng.random()
    if x < 0.6:
        return gen.random_model(rng, n_mets=rng.randint(1, 4), n_rxns=rng.randint(1, 5), with_genes=False, bounds=FORCED_INF_BOUNDS)
    n = rng.randint(1, 3)
    rev = rng.random() < 0.4
    bounds = {}
    forced = rng.choice([5.0, 1.0])
    if rev:                      # EX_m0: -> m0 with positive flux = uptake
        bounds["EX_m0"] = rng.choice([(forced, INF), (2.0, INF), (forced, 1000.0)])
    else:                        # EX_m0: m0 -> with negative flux = uptake
        bounds["EX_m0"] = rng.choice([(-INF, -forced), (-INF, -forced), (-1000.0, -forced)])
    for i in range(n):
        bounds[f"R{i}"] = rng.choice([(0.0, 3.0), (0.0, 10.0), (0.0, INF), (0.0, 1000.0), (2.0, INF), (-INF, INF), (0.0, 0.5)])
    bounds["EX_out"] = rng.choice([(0.0, INF), (0.0, 1000.0), (2.0, INF), (5.0, INF), (0.0, 3.0), (0.0, 1000.0)])
    if n >= 2 and rng.random() < 0.3:
        bounds["CYC"] = rng.choice([(-INF, -1.0), (2.0, INF), (-1000.0, 1000.0), (0.0, 10.0)])
    m = gen.linear_chain(n, cyc="CYC" in bounds, reverse_exchange=rev, bounds=bounds,
                         objective=rng.choice(["EX_out", "EX_m0", "R0"]), direction=rng.choice(["max", "min"]))
    return m


def build_via(desc, how):
    """rebuild a described model, setting the reaction bounds through one particular API path:
    'constructor' Reaction(id, lower_bound=, upper_bound=) before the reaction joins the model;
    'bounds'      reaction.bounds = (lb, ub) on the reaction inside the model;
    'sides'       reaction.lower_bound = lb; reaction.upper_bound = ub on the reaction inside the model"""
    import cobra
    from cobra.util.solver import set_objective
    m = cobra.Model(desc["id"])
    mets = {mid: cobra.Metabolite(mid, compartment=c) for mid, c in desc["metabolites"]}
    m.add_metabolites(list(mets.values()))
    rxns = []
    for rid, lb, ub, st, rule in desc["reactions"]:
        lb, ub = float(lb), float(ub)
        r = cobra.Reaction(rid, lower_bound=lb, upper_bound=ub) if how == "constructor" else cobra.Reaction(rid)
        r.add_metabolites({mets[k]: v for k, v in st.items()})
        if rule:
            r.gene_reaction_rule = rule
        rxns.append(r)
    m.add_reactions(rxns)
    if how != "constructor":
        for rid, lb, ub, st, rule in desc["reactions"]:
            lb, ub = float(lb), float(ub)
            r = m.reactions.get_by_id(rid)
            if how == "bounds":
                r.bounds = (lb, ub)
            elif lb > r.upper_bound:
                r.upper_bound = ub
                r.lower_bound = lb
            else:
                r.lower_bound = lb
                r.upper_bound = ub
    if desc["objective"]:
        set_objective(m, {m.reactions.get_by_id(k): v for k, v in desc["objective"].items()})
    m.objective_direction = desc["direction"]
    return m
