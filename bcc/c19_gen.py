"""Generators of small *network-like* models for C19 (and the loopless part of C05): 1:1 / 2:1 conversions between
compartmentalised metabolites, exchanges on external metabolites, and deliberately planted dead ends, blocked branches,
isolated cycles (feasible and orientation-blocked), duplicated and antiparallel reactions, reversible / irreversible mixes.
Every bound pair contains zero.  Deterministic for a given random.Random.
"""
INF = float("inf")
ZERO_BOUNDS = [(0.0, 1000.0), (0.0, 1000.0), (-1000.0, 1000.0), (-1000.0, 1000.0), (-1000.0, 0.0), (0.0, 10.0), (-10.0, 10.0),
               (0.0, 5.0), (-5.0, 1000.0), (-10.0, 0.0), (0.0, 0.0), (0.0, 1.0), (-1.0, 0.0)]
ZERO_BOUNDS_INF = ZERO_BOUNDS + [(0.0, INF), (-INF, INF), (-INF, 0.0)]
RULES = ["", "", "g1", "g1 and g2", "g1 or g2", "(g1 and g2) or g3"]


def structured_model(rng, n_core=None, n_conv=None, bounds=None, features=None, with_rules=True, name=None,
                     objective="random"):
    """features: subset of {"dead_end", "branch", "cycle", "blocked_cycle", "duplicate", "antiparallel", "orphan_exchange",
    "sink"}; None = each with probability 0.35.  Returns a cobra.Model; model.notes["features"] lists what was planted."""
    import cobra
    bounds = bounds or ZERO_BOUNDS
    n_core = n_core or rng.randint(2, 4)
    n_conv = n_conv if n_conv is not None else rng.randint(1, 4)
    all_feats = ["dead_end", "branch", "cycle", "blocked_cycle", "duplicate", "antiparallel", "orphan_exchange", "sink"]
    if features is None:
        features = [f for f in all_feats if rng.random() < 0.35]
    m = cobra.Model(name or f"net{rng.randint(0, 10**6)}")
    mets, rxns = {}, []

    def met(mid, comp="c"):
        if mid not in mets:
            mets[mid] = cobra.Metabolite(mid, compartment=comp)
        return mets[mid]

    def rxn(rid, st, bd=None):
        r = cobra.Reaction(rid)
        r.add_metabolites({met(k) if isinstance(k, str) else k: float(v) for k, v in st.items()})
        r.bounds = bd if bd is not None else rng.choice(bounds)
        if with_rules:
            r.gene_reaction_rule = rng.choice(RULES)
        rxns.append(r)
        return r

    core = [f"x{i}_c" for i in range(n_core)]
    # external metabolites with exchange + transport for some core metabolites
    n_ex = rng.randint(1, max(1, n_core - 1)) if n_core > 1 else 1
    for i in rng.sample(range(n_core), n_ex):
        e = met(f"x{i}_e", "e")
        rxn(f"EX_x{i}_e", {e: -1.0})
        rxn(f"T{i}", {e: -1.0, core[i]: 1.0})
    # conversions between core metabolites
    for j in range(n_conv):
        if n_core >= 3 and rng.random() < 0.25:
            a, b, c = rng.sample(core, 3)
            st = {a: -1.0, b: -1.0, c: 1.0} if rng.random() < 0.5 else {a: -1.0, b: 1.0, c: 1.0}
        elif n_core >= 2:
            a, b = rng.sample(core, 2)
            st = {a: -1.0, b: float(rng.choice([1, 1, 1, 2]))}
        else:
            st = {core[0]: -1.0}
        rxn(f"R{j}", st)
    k = 0
    for f in features:
        k += 1
        a = rng.choice(core)
        if f == "dead_end":            # a -> d, nothing consumes d: blocked
            rxn(f"DE{k}", {a: -1.0, f"d{k}_c": 1.0})
        elif f == "branch":            # a -> p -> q, q is a dead end: the whole branch is blocked
            rxn(f"BRa{k}", {a: -1.0, f"p{k}_c": 1.0})
            rxn(f"BRb{k}", {f"p{k}_c": -1.0, f"q{k}_c": 1.0})
        elif f == "cycle":             # isolated ring u -> v -> w -> u: carries flux when the orientations agree
            ring = [f"u{k}_c", f"v{k}_c", f"w{k}_c"][: rng.choice([2, 3])]
            for i in range(len(ring)):
                rxn(f"CY{k}_{i}", {ring[i]: -1.0, ring[(i + 1) % len(ring)]: 1.0})
        elif f == "blocked_cycle":     # isolated pair u -> v, u -> v with irreversible bounds of the same orientation
            rxn(f"BC{k}_0", {f"s{k}_c": -1.0, f"t{k}_c": 1.0}, (0.0, 1000.0))
            rxn(f"BC{k}_1", {f"s{k}_c": -1.0, f"t{k}_c": 1.0}, rng.choice([(0.0, 1000.0), (0.0, 10.0)]))
        elif f == "duplicate" and n_core >= 2:
            a, b = rng.sample(core, 2)
            rxn(f"DUa{k}", {a: -1.0, b: 1.0})
            rxn(f"DUb{k}", {a: -1.0, b: 1.0})
        elif f == "antiparallel" and n_core >= 2:
            a, b = rng.sample(core, 2)
            rxn(f"APa{k}", {a: -1.0, b: 1.0}, rng.choice([(0.0, 1000.0), (0.0, 10.0)]))
            rxn(f"APb{k}", {b: -1.0, a: 1.0}, rng.choice([(0.0, 1000.0), (0.0, 10.0), (-10.0, 1000.0)]))
        elif f == "orphan_exchange":   # exchange of an external metabolite nothing else uses
            rxn(f"EX_o{k}_e", {met(f"o{k}_e", "e"): -1.0})
        elif f == "sink":              # demand / sink on a cytosolic metabolite (not an exchange for open_exchanges)
            rxn(f"DM_{a}", {a: -1.0}, rng.choice([(0.0, 1000.0), (-1000.0, 1000.0), (0.0, 10.0)]))
    m.add_reactions(rxns)
    m.notes["features"] = list(features)
    if objective == "random":
        r = rng.choice(m.reactions)
        m.objective = r
        m.objective_direction = rng.choice(["max", "max", "min"])
    elif objective is not None:
        m.objective = objective
    return m


def figure1_like(rng=None):
    """the consistency example of the FASTCC paper, as used by cobrapy's own test (a known-good anchor)"""
    import cobra
    m = cobra.Model("fastcc_fig1")
    A, B, C, D, E, F = (cobra.Metabolite(x, compartment="c") for x in "ABCDEF")
    spec = [("v1", {A: 1}, (0, 1000)), ("v2", {A: -1, B: 1}, (-1000, 1000)), ("v3", {A: -1, D: 1}, (0, 1000)),
            ("v4", {A: -1, C: 1}, (0, 1000)), ("v5", {C: -1, D: 1}, (0, 1000)), ("v6", {D: -1}, (0, 1000)),
            ("v7", {B: -1, E: 1}, (0, 1000)), ("v8", {E: -1, F: 1}, (-1000, 1000))]
    rx = []
    for rid, st, bd in spec:
        r = cobra.Reaction(rid)
        r.add_metabolites({k: float(v) for k, v in st.items()})
        r.bounds = tuple(float(b) for b in bd)
        rx.append(r)
    m.add_reactions(rx)
    m.objective = "v6"
    return m
