"""Generators of small cobra models for the bounded tier (deterministic for a given seed).

Small integer data keeps the exact oracle and GLPK far from conditioning problems.
"""
import itertools
import random

BOUNDS = [(-1000.0, 1000.0), (0.0, 1000.0), (-1000.0, 0.0), (0.0, 10.0), (-10.0, 10.0), (1.0, 10.0), (-10.0, -1.0),
          (2.0, 2.0), (0.0, 0.0), (-5.0, 1000.0), (0.0, float("inf")), (float("-inf"), float("inf")), (float("-inf"), 0.0)]
SAFE_BOUNDS = [(-1000.0, 1000.0), (0.0, 1000.0), (-1000.0, 0.0), (0.0, 10.0), (-10.0, 10.0), (0.0, 5.0), (-5.0, 1000.0)]
RULES = ["", "g1", "g1 and g2", "g1 or g2", "(g1 and g2) or g3", "g1 and (g2 or g3)", "g2", "g3 or (g1 and g2 and g4)",
         "(g1 or g2) and (g3 or g4)"]


def linear_chain(n_internal=2, cyc=False, bounds=None, rules=None, objective=None, direction="max", name="toy",
                 reverse_exchange=False):
    """EX_a -> a -> ... -> z -> EX_z, optionally with an internal cycle; a convenient hand-sized model."""
    import cobra
    m = cobra.Model(name)
    mets = [cobra.Metabolite(f"m{i}_c", compartment="c") for i in range(n_internal + 1)]
    rxns = []
    ex_in = cobra.Reaction("EX_m0", lower_bound=-10.0, upper_bound=1000.0)
    ex_in.add_metabolites({mets[0]: 1.0 if reverse_exchange else -1.0})
    if reverse_exchange:
        ex_in.bounds = (-1000.0, 10.0)
    rxns.append(ex_in)
    for i in range(n_internal):
        r = cobra.Reaction(f"R{i}", lower_bound=0.0, upper_bound=1000.0)
        r.add_metabolites({mets[i]: -1.0, mets[i + 1]: 1.0})
        rxns.append(r)
    ex_out = cobra.Reaction("EX_out", lower_bound=0.0, upper_bound=1000.0)
    ex_out.add_metabolites({mets[-1]: -1.0})
    rxns.append(ex_out)
    if cyc and n_internal >= 2:
        r = cobra.Reaction("CYC", lower_bound=-1000.0, upper_bound=1000.0)
        r.add_metabolites({mets[2]: -1.0, mets[0]: 1.0})
        rxns.append(r)
    m.add_reactions(rxns)
    if bounds:
        for rid, b in bounds.items():
            m.reactions.get_by_id(rid).bounds = b
    if rules:
        for rid, rule in rules.items():
            m.reactions.get_by_id(rid).gene_reaction_rule = rule
    m.objective = objective or "EX_out"
    m.objective_direction = direction
    return m


def random_model(rng, n_mets=None, n_rxns=None, bounds=None, with_genes=True, feasible_zero=None, ids=None,
                 int_coefs=(-2, -1, 1, 2), with_groups=False, name=None):
    """A random small stoichiometric model: every metabolite gets an exchange with probability 0.6, internal reactions
    have 1-3 participants with coefficients from int_coefs."""
    import cobra
    n_mets = n_mets or rng.randint(1, 4)
    n_rxns = n_rxns or rng.randint(1, 5)
    bounds = bounds or BOUNDS
    m = cobra.Model(name or f"rnd{rng.randint(0, 10**6)}")
    mid = (ids or {}).get("mets") or [f"m{i}_c" for i in range(n_mets)]
    mets = [cobra.Metabolite(mid[i], compartment="c" if i % 3 else "e", name=f"met {i}", formula="C%dH2" % (i + 1), charge=i - 1)
            for i in range(n_mets)]
    rxns = []
    for i, met in enumerate(mets):
        if rng.random() < 0.6 or i == 0:
            r = cobra.Reaction(f"EX_{met.id}")
            r.add_metabolites({met: rng.choice([-1.0, 1.0]) if rng.random() < 0.3 else -1.0})
            r.bounds = rng.choice(bounds)
            rxns.append(r)
    rid = (ids or {}).get("rxns") or [f"R{i}" for i in range(n_rxns)]
    for i in range(n_rxns):
        r = cobra.Reaction(rid[i], name=f"reaction {i}", subsystem=rng.choice(["", "S1", "S2"]))
        k = rng.randint(1, min(3, n_mets))
        parts = rng.sample(mets, k)
        coefs = {p: float(rng.choice(int_coefs)) for p in parts}
        if k >= 2 and all(c > 0 for c in coefs.values()) or k >= 2 and all(c < 0 for c in coefs.values()):
            first = parts[0]
            coefs[first] = -coefs[first]
        r.add_metabolites(coefs)
        r.bounds = rng.choice(bounds)
        if with_genes:
            r.gene_reaction_rule = rng.choice(RULES)
        rxns.append(r)
    m.add_reactions(rxns)
    objr = rng.choice(m.reactions)
    m.objective = objr
    if rng.random() < 0.3 and len(m.reactions) > 1:
        other = rng.choice([r for r in m.reactions if r is not objr])
        other.objective_coefficient = float(rng.choice([-1, 2]))
    m.objective_direction = rng.choice(["max", "max", "min"])
    if with_groups and len(m.reactions) >= 2:
        from cobra.core import Group
        g = Group("grp1", name="group one", members=[m.reactions[0], m.reactions[1]], kind="partonomy")
        m.add_groups([g])
    return m


def models(seed, n, **kw):
    rng = random.Random(seed)
    for _ in range(n):
        yield random_model(rng, **kw)


def bounded_feasible_models(seed, n, **kw):
    """random models with finite bounds containing zero (always feasible, never unbounded)"""
    kw.setdefault("bounds", SAFE_BOUNDS)
    return models(seed, n, **kw)


def describe(model):
    """JSON-able description (enough to rebuild the model for a replay)"""
    from cobra.util.solver import linear_reaction_coefficients
    return {
        "id": model.id,
        "metabolites": [[m.id, m.compartment] for m in model.metabolites],
        "reactions": [[r.id, r.lower_bound, r.upper_bound, {m.id: c for m, c in r.metabolites.items()}, r.gene_reaction_rule]
                      for r in model.reactions],
        "objective": {r.id: c for r, c in linear_reaction_coefficients(model).items()},
        "direction": model.objective_direction,
    }


def rebuild(desc):
    import cobra
    m = cobra.Model(desc["id"])
    mets = {mid: cobra.Metabolite(mid, compartment=c) for mid, c in desc["metabolites"]}
    m.add_metabolites(list(mets.values()))
    rxns = []
    for rid, lb, ub, st, rule in desc["reactions"]:
        r = cobra.Reaction(rid)
        r.bounds = (float(lb), float(ub))
        r.add_metabolites({mets[k]: v for k, v in st.items()})
        if rule:
            r.gene_reaction_rule = rule
        rxns.append(r)
    m.add_reactions(rxns)
    from cobra.util.solver import set_objective
    if desc["objective"]:
        set_objective(m, {m.reactions.get_by_id(k): v for k, v in desc["objective"].items()})
    m.objective_direction = desc["direction"]
    return m
