"""Bounded stand-in for C15 (labelled bounded, never counted as proved) and native replay/fallback search.

The real DictList is driven next to a plain Python list with a uniqueness rule (the oracle the property names);
after every operation: every element is found by id at its position, index()/membership agree, ids unique;
an operation that must raise leaves the list unchanged.
"""
import copy
import itertools
import pickle

IDS = ["a", "b", "c", "d"]


def _classes():
    from cobra.core.dictlist import DictList
    from cobra.core.object import Object
    return DictList, Object


def coherent(dl, ref):
    """-> None or a description of the incoherence (ref: list of objects expected, in order)"""
    if list(dl) != ref or any(x is not y for x, y in zip(dl, ref)):
        return f"contents differ: got {[getattr(o, 'id', o) for o in dl]}, expected {[o.id for o in ref]}"
    if len(dl._dict) != len(ref):
        return f"index has {len(dl._dict)} keys for {len(ref)} elements: {dl._dict}"
    ids = [o.id for o in ref]
    if len(set(ids)) != len(ids):
        return f"duplicate identifiers {ids}"
    for pos, o in enumerate(ref):
        if dl._dict.get(o.id) != pos:
            return f"index maps {o.id!r} to {dl._dict.get(o.id)!r}, element is at {pos}"
        if dl.get_by_id(o.id) is not o:
            return f"get_by_id({o.id!r}) is not the element at {pos}"
        if dl.index(o.id) != pos or dl.index(o) != pos:
            return f"index({o.id!r}) != {pos}"
        if o not in dl or o.id not in dl or not dl.has_id(o.id):
            return f"membership of {o.id!r} is False"
    for k in IDS + ["zz"]:
        if (k in dl) != (k in ids) or dl.has_id(k) != (k in ids):
            return f"membership of {k!r} disagrees with contents"
    return None


class Raises:
    def __init__(self, *excs):
        self.excs = excs

    def __repr__(self):
        return "Raises(%s)" % ",".join(e.__name__ for e in self.excs)


def ref_apply(ref, op, args):
    """Reference semantics on a plain list. -> ('ok', new_ref, result_spec) | ('raise', excs) | ('either', new_ref, excs)
    result_spec: ('none',) | ('obj', o) | ('list', [objs]) | ('self',)"""
    ids = [o.id for o in ref]
    n = len(ref)

    def dup_in(xs, against):
        seen = set(against)
        for x in xs:
            if x.id in seen:
                return True
            seen.add(x.id)
        return False
    if op == "append":
        (x,) = args
        return ("raise", (ValueError,)) if x.id in ids else ("ok", ref + [x], ("none",))
    if op == "insert":
        i, x = args
        if x.id in ids:
            return ("raise", (ValueError,))
        new = list(ref)
        new.insert(i, x)
        return ("ok", new, ("none",))
    if op in ("extend", "iadd"):
        (xs,) = args
        if dup_in(xs, ids):
            return ("raise", (ValueError,))
        return ("ok", ref + list(xs), ("self",) if op == "iadd" else ("none",))
    if op == "add":
        (x,) = args
        return ("raise", (ValueError,)) if x.id in ids else ("ok", ref + [x], ("none",))
    if op == "union":
        (xs,) = args
        new = list(ref)
        have = set(ids)
        for x in xs:
            if x.id not in have:
                new.append(x)
                have.add(x.id)
        return ("ok", new, ("none",))
    if op in ("isub", "sub"):
        (xs,) = args
        new = list(ref)
        for x in xs:
            key = x if isinstance(x, str) else x.id
            hit = [o for o in new if o.id == key and (isinstance(x, str) or o is x)]
            if not hit:
                return ("raise", (ValueError,))
            new.remove(hit[0])
        if op == "sub":
            return ("ok", ref, ("list", new))
        return ("ok", new, ("self",))
    if op == "plus":
        (xs,) = args
        if dup_in(xs, ids):
            return ("raise", (ValueError,))
        return ("ok", ref, ("list", ref + list(xs)))
    if op == "pop":
        if not args:
            return ("raise", (IndexError,)) if n == 0 else ("ok", ref[:-1], ("obj", ref[-1]))
        (i,) = args
        if not -n <= i < n:
            return ("raise", (IndexError,))
        new = list(ref)
        o = new.pop(i)
        return ("ok", new, ("obj", o))
    if op == "remove":
        (x,) = args
        key = x if isinstance(x, str) else x.id
        hit = [o for o in ref if o.id == key and (isinstance(x, str) or o is x)]
        if not hit:
            return ("raise", (ValueError,))
        new = list(ref)
        new.remove(hit[0])
        return ("ok", new, ("none",))
    if op == "delitem":
        (i,) = args
        if isinstance(i, slice):
            new = list(ref)
            del new[i]
            return ("ok", new, ("none",))
        if not -n <= i < n:
            return ("raise", (IndexError,))
        new = list(ref)
        del new[i]
        return ("ok", new, ("none",))
    if op == "setitem":
        i, y = args
        if isinstance(i, slice):
            ys = list(y)
            new = list(ref)
            try:
                new[i] = ys
            except ValueError:
                return ("raise", (ValueError,))
            replaced = ref[i]
            outside = [o.id for o in ref if all(o is not r for r in replaced)]
            if dup_in(ys, outside):
                return ("raise", (ValueError,))
            if dup_in(ys, ids):
                # collides only with elements being replaced: the implementation may refuse (conservative) or accept
                return ("either", new, (ValueError,))
            return ("ok", new, ("none",))
        if not -n <= i < n:
            return ("raise", (IndexError,))
        p = i + n if i < 0 else i
        if y.id in ids and ids.index(y.id) != p:
            return ("raise", (ValueError,))
        new = list(ref)
        new[p] = y
        return ("ok", new, ("none",))
    if op == "getitem":
        (i,) = args
        if isinstance(i, slice):
            return ("ok", ref, ("list", ref[i]))
        if isinstance(i, list):  # boolean mask
            return ("ok", ref, ("list", [o for o, m in zip(ref, i) if m]))
        if not -n <= i < n:
            return ("raise", (IndexError,))
        return ("ok", ref, ("obj", ref[i]))
    if op == "reverse":
        return ("ok", ref[::-1], ("none",))
    if op == "sort":
        (rev,) = args
        return ("ok", sorted(ref, key=lambda o: o.id, reverse=rev), ("none",))
    if op == "copy":
        return ("ok", ref, ("list", list(ref)))
    if op == "pickle":
        return ("ok", ref, ("idlist", [o.id for o in ref]))
    if op == "query":
        (f,) = args
        return ("ok", ref, ("list", [o for o in ref if f(o)]))
    if op == "get_by_any":
        (xs,) = args
        out = []
        for x in xs:
            if isinstance(x, int):
                if not -n <= x < n:
                    return ("raise", (IndexError,))
                out.append(ref[x])
            elif isinstance(x, str):
                if x not in ids:
                    return ("raise", (KeyError,))
                out.append(ref[ids.index(x)])
            else:
                if x.id not in ids:
                    return ("raise", (TypeError,))
                out.append(x)
        return ("ok", ref, ("plainlist", out))
    if op == "init_from":
        return ("ok", ref, ("list", list(ref)))
    raise KeyError(op)


def real_apply(dl, op, args):
    DictList, Object = _classes()
    if op == "append":
        return dl.append(*args)
    if op == "insert":
        return dl.insert(*args)
    if op == "extend":
        return dl.extend(*args)
    if op == "iadd":
        dl += args[0]
        return dl
    if op == "add":
        return dl.add(*args)
    if op == "union":
        return dl.union(*args)
    if op == "isub":
        dl -= args[0]
        return dl
    if op == "sub":
        return dl - args[0]
    if op == "plus":
        return dl + args[0]
    if op == "pop":
        return dl.pop(*args)
    if op == "remove":
        return dl.remove(*args)
    if op == "delitem":
        del dl[args[0]]
        return None
    if op == "setitem":
        dl[args[0]] = args[1]
        return None
    if op == "getitem":
        return dl[args[0]]
    if op == "reverse":
        return dl.reverse()
    if op == "sort":
        return dl.sort(reverse=args[0])
    if op == "copy":
        return copy.copy(dl)
    if op == "pickle":
        return pickle.loads(pickle.dumps(dl))
    if op == "query":
        return dl.query(args[0])
    if op == "get_by_any":
        return dl.get_by_any(args[0])
    if op == "init_from":
        return DictList(dl)
    raise KeyError(op)


def check_step(dl, ref, op, args):
    """Apply op to the real list and the reference; -> (new_ref, failure or None)."""
    DictList, Object = _classes()
    exp = ref_apply(ref, op, args)
    try:
        got = real_apply(dl, op, args)
        raised = None
    except Exception as e:  # noqa
        got, raised = None, e
    if exp[0] == "raise" or (exp[0] == "either" and raised is not None):
        excs = exp[1] if exp[0] == "raise" else exp[2]
        if raised is None:
            return ref, f"{op}{_fmt(args)} must raise {excs[0].__name__} but returned"
        if not isinstance(raised, excs):
            return ref, f"{op}{_fmt(args)} raised {type(raised).__name__}, expected {excs[0].__name__}"
        why = coherent(dl, ref)
        if why:
            return ref, f"{op}{_fmt(args)} raised {type(raised).__name__} but did not leave the list unchanged: {why}"
        return ref, None
    if raised is not None:
        return ref, f"{op}{_fmt(args)} raised {type(raised).__name__}: {raised}"
    new_ref, rs = exp[1], exp[2] if exp[0] == "ok" else ("none",)
    why = coherent(dl, new_ref)
    if why:
        return new_ref, f"after {op}{_fmt(args)}: {why}"
    if rs[0] == "obj" and got is not rs[1]:
        return new_ref, f"{op}{_fmt(args)} returned {got!r}, expected {rs[1]!r}"
    if rs[0] == "self" and got is not dl:
        return new_ref, f"{op}{_fmt(args)} did not return self"
    if rs[0] == "list":
        if not isinstance(got, DictList) or got is dl:
            return new_ref, f"{op}{_fmt(args)} did not return a new DictList"
        why = coherent(got, rs[1])
        if why:
            return new_ref, f"result of {op}{_fmt(args)}: {why}"
    if rs[0] == "idlist":
        if not isinstance(got, DictList) or [o.id for o in got] != rs[1]:
            return new_ref, f"{op}: ids differ after round trip"
        why = coherent(got, list(got))
        if why:
            return new_ref, f"result of {op}: {why}"
    if rs[0] == "plainlist" and (len(got) != len(rs[1]) or any(a is not b for a, b in zip(got, rs[1]))):
        return new_ref, f"{op}{_fmt(args)} returned wrong members"
    return new_ref, None


def _fmt(args):
    def f(a):
        if hasattr(a, "id"):
            return f"<{a.id}>"
        if isinstance(a, (list, tuple)):
            return "[" + ",".join(f(x) for x in a) + "]"
        if callable(a):
            return "<fn>"
        return repr(a)
    return "(" + ", ".join(f(a) for a in args) + ")"


def op_space(ref, rich=True):
    """All operation instances tried on a list whose reference content is `ref` (symbolic descriptions:
    objects are described as ('new', id) or ('elem', pos) and materialised per run)."""
    n = len(ref)
    idx = list(range(-n - 2, n + 3))
    newobjs = [("new", k) for k in IDS]
    elems = [("elem", p) for p in range(n)]
    out = []
    for o in newobjs:
        out.append(("append", (o,)))
        out.append(("add", (o,)))
        for i in idx:
            out.append(("insert", (i, o)))
            out.append(("setitem", (i, o)))
    for i in idx:
        out.append(("pop", (i,)))
        out.append(("delitem", (i,)))
        out.append(("getitem", (i,)))
    out.append(("pop", ()))
    for o in elems + newobjs[:2]:
        out.append(("remove", (o,)))
    for k in IDS[:n + 1]:
        out.append(("remove", (k,)))
    pairs = [[a] for a in newobjs] + [[a, b] for a in newobjs for b in newobjs]
    for xs in pairs:
        out.append(("extend", (xs,)))
        out.append(("union", (xs,)))
    if rich:
        for xs in pairs[:8]:
            out.append(("iadd", (xs,)))
            out.append(("plus", (xs,)))
        subs = [[e] for e in elems] + [[a, b] for a in elems for b in elems] + [[("new", "d")], [("str", "a")],
                                                                                 [("str", "a"), ("new", "d")]]
        # the same element named twice in different ways (id and object), and ids mixed with objects
        for p_ in range(n):
            subs.append([("elemid", p_), ("elem", p_)])
            subs.append([("elem", p_), ("elemid", p_)])
            subs.append([("elemid", p_), ("elemid", p_)])
            if n > 1:
                subs.append([("elemid", p_), ("elem", (p_ + 1) % n)])
        if n:
            subs.append([("elem", 0), ("new", "d")])
        for xs in subs:
            out.append(("isub", (xs,)))
            out.append(("sub", (xs,)))
        slices = [slice(None), slice(0, 1), slice(1, None), slice(-1, None), slice(None, None, 2), slice(None, None, -1),
                  slice(1, 3), slice(5, 9)]
        for sl in slices:
            out.append(("delitem", (sl,)))
            out.append(("getitem", (sl,)))
            for ys in ([], [("new", "d")], [("new", "a")], [("new", "d"), ("new", "d")], [("new", "c"), ("new", "d")],
                       [("elem", 0)] if n else []):
                out.append(("setitem", (sl, ys)))
        if n:  # a mask on the empty list is not among the operations the property names
            out.append(("getitem", ([True] * n,)))
            out.append(("getitem", ([i % 2 == 0 for i in range(n)],)))
        out.append(("reverse", ()))
        out.append(("sort", (False,)))
        out.append(("sort", (True,)))
        out.append(("copy", ()))
        out.append(("pickle", ()))
        out.append(("init_from", ()))
        out.append(("query", (("fn", "lt_c"),)))
        out.append(("get_by_any", ([0, ("str", "a"), ("elem", 0)] if n else [("str", "a")],)))
        out.append(("get_by_any", ([-n - 1],)))
    return out


FNS = {"lt_c": lambda o: o.id < "c"}


def materialise(desc, ref):
    DictList, Object = _classes()
    if isinstance(desc, tuple) and len(desc) == 2 and desc[0] == "new":
        return Object(desc[1])
    if isinstance(desc, tuple) and len(desc) == 2 and desc[0] == "elem":
        return ref[desc[1]] if desc[1] < len(ref) else Object("zz")
    if isinstance(desc, tuple) and len(desc) == 2 and desc[0] == "str":
        return desc[1]
    if isinstance(desc, tuple) and len(desc) == 2 and desc[0] == "elemid":
        return ref[desc[1]].id if desc[1] < len(ref) else "zz"
    if isinstance(desc, tuple) and len(desc) == 2 and desc[0] == "fn":
        return FNS[desc[1]]
    if isinstance(desc, list):
        return [materialise(d, ref) for d in desc]
    return desc


def build(ids):
    DictList, Object = _classes()
    ref = [Object(k) for k in ids]
    dl = DictList()
    for o in ref:
        list.append(dl, o)
        dl._dict[o.id] = len(dl) - 1
    return dl, ref


def run_history(ids, history):
    """Replay a history [(op, argdesc), ...] from the list with identifiers `ids`. -> failure text or None"""
    dl, ref = build(ids)
    for op, adesc in history:
        args = tuple(materialise(a, ref) for a in adesc)
        ref, why = check_step(dl, ref, op, args)
        if why:
            return why
    return None


def initial_lists(maxlen=3):
    out = []
    for n in range(maxlen + 1):
        out.extend(itertools.permutations(IDS[:3], n))
    return out


def explore(depth=2, maxlen=3, rich=True, stop_after=None, only_ops=None):
    """Exhaustive histories up to `depth` over all initial lists. -> (evaluations, distinct states, failures, samples)"""
    evaluations, failures, samples = 0, [], []
    nontrivial = set()
    for ids in initial_lists(maxlen):
        frontier = [()]
        for d in range(depth):
            nxt = []
            for hist in frontier:
                dl0, ref0 = build(ids)
                ok = True
                for op, adesc in hist:
                    args = tuple(materialise(a, ref0) for a in adesc)
                    ref0, why = check_step(dl0, ref0, op, args)
                cur_ids = [o.id for o in ref0]
                for op, adesc in op_space(ref0, rich=rich if d == 0 else False):
                    if only_ops and op not in only_ops:
                        continue
                    evaluations += 1
                    why = run_history(ids, list(hist) + [(op, adesc)])
                    key = (tuple(ids), tuple((o, repr(a)) for o, a in hist), op, repr(adesc))
                    nontrivial.add((tuple(cur_ids), op, repr(adesc)))
                    if why:
                        failures.append({"initial": list(ids), "history": [[o, repr(a)] for o, a in hist] + [[op, repr(adesc)]],
                                         "failure": why, "_replay": (list(ids), list(hist) + [(op, adesc)])})
                        if stop_after and len(failures) >= stop_after:
                            return evaluations, len(nontrivial), failures, samples
                    else:
                        if len(samples) < 5 and evaluations % 997 == 1:
                            samples.append({"initial": list(ids), "history": [[o, repr(a)] for o, a in hist] + [[op, repr(adesc)]]})
                        if d + 1 < depth:
                            nxt.append(tuple(hist) + ((op, adesc),))
            frontier = nxt
    return evaluations, len(nontrivial), failures, samples


if __name__ == "__main__":
    import sys
    import time
    t = time.time()
    ev, nt, fails, samples = explore(depth=int(sys.argv[1]) if len(sys.argv) > 1 else 1)
    print("evaluations", ev, "distinct", nt, "failures", len(fails), "time %.1fs" % (time.time() - t))
    seen = set()
    for f in fails:
        k = f["failure"].split(":")[0][:60]
        if k not in seen:
            seen.add(k)
            print(f["initial"], f["history"], "->", f["failure"])


# ---------------------------------------------------------------- JSON encoding of histories, parallel driver
def enc(a):
    if isinstance(a, slice):
        return {"slice": [a.start, a.stop, a.step]}
    if isinstance(a, tuple):
        return {"t": [enc(x) for x in a]}
    if isinstance(a, list):
        return [enc(x) for x in a]
    return a


def dec(a):
    if isinstance(a, dict) and "slice" in a:
        return slice(*a["slice"])
    if isinstance(a, dict) and "t" in a:
        return tuple(dec(x) for x in a["t"])
    if isinstance(a, list):
        return [dec(x) for x in a]
    return a


def encode_history(ids, hist):
    return {"initial": list(ids), "history": [[op, enc(tuple(ad))] for op, ad in hist]}


def replay_encoded(payload):
    hist = [(op, dec(ad)) for op, ad in payload["history"]]
    return run_history(payload["initial"], hist)


def _explore_one(arg):
    ids, depth, rich, only_ops, stop_after = arg
    evaluations, failures, samples, nontrivial = 0, [], [], set()
    frontier = [()]
    for d in range(depth):
        nxt = []
        for hist in frontier:
            dl0, ref0 = build(ids)
            for op, adesc in hist:
                args = tuple(materialise(a, ref0) for a in adesc)
                ref0, why = check_step(dl0, ref0, op, args)
            cur_ids = tuple(o.id for o in ref0)
            for op, adesc in op_space(ref0, rich=rich if d == 0 or depth <= 2 else False):
                if only_ops and d == depth - 1 and op not in only_ops:
                    continue
                evaluations += 1
                full = list(hist) + [(op, adesc)]
                why = run_history(ids, full)
                nontrivial.add((cur_ids, op, repr(adesc)))
                if why:
                    failures.append({"key": f"{op}:{why[:70]}", "failure": why, "replay": encode_history(ids, full)})
                    if stop_after and len(failures) >= stop_after:
                        return evaluations, nontrivial, failures, samples
                else:
                    if len(samples) < 2 and evaluations % 499 == 1:
                        samples.append(encode_history(ids, full))
                    if d + 1 < depth and op not in ("getitem", "copy", "pickle", "query", "get_by_any", "init_from", "sub", "plus"):
                        nxt.append(tuple(full))
        frontier = nxt
    return evaluations, nontrivial, failures, samples


def explore_parallel(depth=2, maxlen=3, rich=True, only_ops=None, stop_after=None, procs=16):
    import multiprocessing as mp
    items = [(ids, depth, rich, only_ops, stop_after) for ids in initial_lists(maxlen)]
    ev, nt, fails, samples = 0, set(), [], []
    ctx = mp.get_context("fork")
    with ctx.Pool(min(procs, len(items))) as pool:
        for e, n, f, s in pool.imap_unordered(_explore_one, items):
            ev += e
            nt |= n
            fails.extend(f)
            samples.extend(s)
    return ev, len(nt), fails, samples
