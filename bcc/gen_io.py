"""Generated models for the I/O round-trip drivers C10 (SBML) and C11 (JSON / YAML / dict / pickle).

A case is (family, seed, index); `build(family, seed, index)` is deterministic, so a replay needs only that triple.
Every family switches ONE extra feature on over the common base, so that a model exercising a known defect never hides the
other checks (the base features are all present in the families that are expected to be clean):

  plain        SId-safe ids, maximisation                               (usable with f_replace={})
  min          as plain, minimisation objective                         (dict/JSON/YAML do not store the direction)
  awkward      reaction / metabolite / group ids from AWKWARD_IDS (every printable class the model classes accept: optlang
               rejects white space only), gene ids from the characters the rule parser documents
  above        at least one reaction with lower bound > Configuration().upper_bound (e.g. (1500, 2500)), others below the
               configured lower bound, e.g. (-2500, -1500)            (bounds are assigned one at a time by the loaders)
  digits       ids containing `__<digits>__` (printable targets only) (SBML escaping is not injective on these)
  genegroup    a group with gene members                                (SBML reader resolves members among species /
                                                                        reactions / groups only)
  noname       genes with the default empty name                        (SBML writer substitutes the SBML id)
  nocharge     metabolites with charge None                             (SBML reader returns 0)
  emptyreaction a reaction without metabolites (the shipped `mini` model has one)   (SBML L3V1 rule 21101 forbids it)
  noobjective  no objective coefficient at all, direction max or min    (SBML fbc: an objective needs flux objectives)
  boundsgrid   13 reactions, one for every combination of lb in {-inf, <0, 0, >0} and ub in {<0, 0, >0, +inf} with lb <= ub
  precision    full-precision doubles (1/3, 0.1+0.2, ...) in stoichiometry, bounds and objective
               (SBML text carries 15 significant digits: C10 compares through `r15`)

Common base (all families): 1-4 metabolites, 1-5 internal reactions + exchanges, bounds from BOUNDS (finite inside the
defaults, equal to the defaults, beyond the defaults but with lb <= default ub, +-inf, fixed, zero, negative-only), integer
and short decimal coefficients, objective with 1-2 coefficients, nested gene rules over 1-5 genes with non-empty gene names,
names / formulas / integer charges / compartments with names / subsystems, notes {plain key: plain value} and annotations
in the SBML reader's normal form on reactions, metabolites, genes, groups and the model, groups of reactions and of
metabolites of all three kinds.
"""
import random

INF = float("inf")

FAMILIES = {
    "plain": {"sid_safe": True},
    "min": {"sid_safe": True},
    "awkward": {"sid_safe": False},
    "above": {"sid_safe": True},
    "digits": {"sid_safe": False},
    "genegroup": {"sid_safe": True},
    "noname": {"sid_safe": True},
    "nocharge": {"sid_safe": True},
    "precision": {"sid_safe": True},
    "emptyreaction": {"sid_safe": True},
    "noobjective": {"sid_safe": True},
    "boundsgrid": {"sid_safe": True},
}

# (lb, ub); every lower bound <= 5 so that the base families stay loadable under the non-default Configuration bounds that
# C11 uses ((-7, 7) and (-10000, 10000)); (-1000, 1000) are the library defaults
BOUNDS = [(-1000.0, 1000.0), (0.0, 1000.0), (-1000.0, 0.0), (0.0, 10.0), (-10.0, 10.0), (1.0, 10.0), (-10.0, -1.0), (2.0, 2.0),
          (0.0, 0.0), (-5.0, 1000.0), (0.0, INF), (-INF, INF), (-INF, 0.0), (-INF, -2.0), (3.0, INF), (-2000.0, 3000.0),
          (-3000.0, -2000.0), (0.0, 2500.0), (-0.5, 0.25), (0.001, 99999.5), (-7.0, 7.0), (-1e-06, 12345678.9), (5.0, 1e9),
          (-999.999999999999, 1000.00000000001), (0.0, 7.0), (-7.0, 0.0), (-10000.0, 10000.0),
          (-INF, 1000.0), (-INF, 5.0), (-5.0, INF), (-1000.0, INF), (-INF, -1000.0), (-2.5, 0.0), (-INF, 0.25)]
# every sign combination of (lb, ub) that a Reaction accepts; "n"/"p" are replaced by finite negative / positive values
GRID = [("-inf", "n"), ("-inf", "0"), ("-inf", "p"), ("-inf", "inf"), ("n", "n"), ("n", "0"), ("n", "p"), ("n", "inf"),
        ("0", "0"), ("0", "p"), ("0", "inf"), ("p", "p"), ("p", "inf")]
GRID_NEG = [-1000.0, -10.0, -0.5, -2500.0, -1.0, -7.0]
GRID_POS = [1000.0, 10.0, 0.25, 2500.0, 1.0, 7.0]
ABOVE = [(1500.0, 2500.0), (1001.0, 1001.0), (1000.5, INF), (20000.0, 30000.0)]
BELOW = [(-2500.0, -1500.0), (-INF, -1001.0)]
COEFS = [-3.0, -2.0, -1.0, 1.0, 2.0, 3.0, 0.5, -0.25, 1.5, 59.81, -0.000223, 1e-07, 123456.789012345, -4.0, 10.0, -1, 2, 1]
# "tame" models (about two thirds outside the precision family) draw from these: their optimum is compared as well; the
# others carry magnitudes (1e-07, 123456.789..., 1e9) that make GLPK's answer depend on the pivoting order
COEFS_TAME = [-3.0, -2.0, -1.0, 1.0, 2.0, 3.0, 0.5, -0.25, 1.5, 59.81, -4.0, 10.0, -1, 2, 1]      # the last three are ints
WILD_BOUNDS = {(-1e-06, 12345678.9), (5.0, 1e9), (0.001, 99999.5), (-999.999999999999, 1000.00000000001)}
# the last three are doubles that ruamel.yaml writes back with a changed last digit once they have been read as ScalarFloat
PRECISE = [1.0 / 3.0, 0.1 + 0.2, 3.141592653589793e5, 1e-12 / 3.0, -2.0 / 7.0, 1234567.0 / 9.0, 5e-324 * 1e300, 0.1,
           8.479136122782063e-13, 1.809298364047174e-20]
OBJ_COEFS = [1.0, 1.0, -1.0, 2.0, 0.5, -2.5, 10.0]

# identifiers accepted by Model/Reaction/Metabolite/Group (optlang refuses white space; everything else goes)
AWKWARD_IDS = ["a-b", "a.b", "a:b", "a/b", "a'b", 'a"b', "a=b", "a(e)", "a[c]", "a+b", "a*b", "a,b", "a;b", "a&b", "a<b", "a>b",
               "a|b", "a#b", "a%b", "a@b", "a!b", "a?b", "a~b", "a^b", "a{b}", "a\\b", "a$b", "été", "α-KG", "1abc", "123", "_",
               "__", "a__b", "-", ".", "None", "true", "null", "1e5", "R_a", "M_a", "G_a", "a`b", "\U0001F600x", "a_", "_a", "1",
               "0x1f", "yes", "~", "-1", "a--b", "a..b", "EX_glc__D_e", "r_(1)", "&amp;", "</p>", "a__b__", "__a", "x_45_y",
               "_45_", "a_-", "a-_", "12ppd__R_e", "2.7.1.1", "10FTHF5GLUtl", "no", "on", "off", "N", "y", "1_000", "1:30",
               "0o17", ".5", "+1", "=", "@", "*", "!", "%", "&", "|", "#x", "[", "]", "{", "}", ",", "`", "'", '"', "?", ">-"]
# gene ids: characters the rule parser documents (letters, digits, leading digit, keywords, . - : / ' " =)
AWKWARD_GENES = ["b0001", "STM1234", "G_1", "1abc", "123", "a.b", "a-b", "a:b", "a/b", "a'b", 'a"b', "a=b", "None", "True", "is",
                 "lambda", "android", "orange", "a.None", "if.1", "x-1.2:3/4", "é1", "1.5", "-a", "a.", "YAL001W-A", "gene:7",
                 "PA14_0001", "__x", "x__y"]
# `__<digits>__` with printable targets only (chr(4) etc. would be refused by GLPK with an abort)
DIGIT_IDS = ["a__45__b", "a__65__", "__66__c", "x__100____101__", "a__46__b__95__c", "m__9731__", "r__48__"]

NAMES = ["", "alpha", "D-Glucose exchange", "2-oxoglutarate", "ATP:pyruvate 2-O-phosphotransferase", "α-ketoglutarate", "H+/K+",
         "name with <angle> & ampersand", "it's \"quoted\"", "L-Lactate (R)", "x", "CO2", "a,b;c", "100%", "naïve café"]
FORMULAS = ["C6H12O6", "H2O", "CO2", "C10H12N5O13P3", "H", "C3H3O3", "Fe", "C21H26N7O17P3", None, "O2", "NH4"]
CHARGES = [0, 0, -1, 1, -2, -4, 2, 3, -3]
COMPARTMENTS = [("c", "cytosol"), ("e", "extracellular space"), ("p", ""), ("m", "mitochondrion"), ("c", "")]
SUBSYSTEMS = ["", "", "Glycolysis", "Transport, extracellular", "S1", "TCA cycle / anaplerosis"]
NOTE_KEYS = ["k", "note key", "SOURCE", "confidence 2", "Reference", "EC Number", "x9", "AUTHORS", "map"]
NOTE_VALUES = ["v", "some text", "PMID: 12345", "a: b: c", "4", "2.7.1.1", "text with (brackets) and , ; !", "naïve café", "x=y",
               "3/4 of it", "100%", "under_score", "see http://example.org/x?y=1", "-", "0"]
RXN_ANN = [("kegg.reaction", "R00001"), ("kegg.reaction", ["R00001", "R00002"]), ("ec-code", "2.7.1.1"), ("ec-code", ["1.1.1.1", "1.1.1.2", "1.1.1.3"]),
           ("bigg.reaction", "PFK"), ("rhea", ["10000", "10001"]), ("metanetx.reaction", "MNXR100024"), ("sbo", "SBO:0000176"),
           ("sbo", "SBO:0000627"), ("sbo", "SBO:0000185"), ("biocyc", "META:PGLUCISOM-RXN"),
           # a later identifier that is a prefix / suffix / inner part of the first one (a membership test on a str would drop it)
           ("ec-code", ["1.1.1.27", "1.1.1.2"]), ("pubmed", ["10108", "1010", "108"]), ("kegg.reaction", ["R000012", "R00001", "00001"]),
           ("rhea", ["12345", "345", "234"])]
MET_ANN = [("chebi", "CHEBI:17234"), ("chebi", ["CHEBI:17234", "CHEBI:4167"]), ("kegg.compound", "C00031"), ("bigg.metabolite", "glc__D"),
           ("inchikey", "WQZGKKKJIJFFOK-GASJEMHNSA-N"), ("hmdb", ["HMDB00122", "HMDB0000122"]), ("sbo", "SBO:0000247"),
           ("metanetx.chemical", "MNXM41"), ("seed.compound", "cpd00027"), ("pubchem.compound", "5793"),
           ("kegg.compound", ["C00031", "C0003"]), ("pubchem.compound", ["57931", "5793", "793"]), ("chebi", ["CHEBI:172345", "CHEBI:17234", "17234"])]
GENE_ANN = [("ncbigene", "945803"), ("uniprot", "P0A6T1"), ("uniprot", ["P0A6T1", "P0A6T2"]), ("sbo", "SBO:0000243"),
            ("ncbiprotein", "NP_416237.1"), ("ecogene", "EG10368"), ("asap", "ABE-0005800"), ("refseq_locus_tag", "b1779"),
            ("uniprot", ["P0A6T12", "P0A6T1", "A6T1"]), ("ncbigene", ["9458031", "945803"]), ("refseq_locus_tag", ["b17791", "b1779", "1779"])]
GROUP_ANN = [("sbo", "SBO:0000633"), ("go", "GO:0006096"), ("kegg.pathway", ["eco00010", "eco00020"]),
             ("go", ["GO:00060961", "GO:0006096"]), ("kegg.pathway", ["eco000101", "eco00010", "00010"])]
MODEL_ANN = [("taxonomy", "511145"), ("bigg.model", "e_coli_core"), ("doi", "10.1000/xyz123"),
             ("pubmed", ["101088", "10108", "0108"]), ("taxonomy", ["5111451", "511145"])]
GROUP_KINDS = ["collection", "classification", "partonomy"]


# ----------------------------------------------------------------------------------------------------------------------
def _notes(rng, p=0.5):
    if rng.random() > p:
        return {}
    keys = rng.sample(NOTE_KEYS, rng.randint(1, 3))
    return {k: rng.choice(NOTE_VALUES) for k in keys}


def _ann(rng, pool, p=0.5):
    if rng.random() > p:
        return {}
    out = {}
    for _ in range(rng.randint(1, 3)):
        k, v = rng.choice(pool)
        out[k] = list(v) if isinstance(v, list) else v
    return out


def _rule(rng, genes, depth=0):
    """random nested and/or rule text over `genes` (list of ids); '' sometimes"""
    def rec(d):
        if d >= 3 or rng.random() < (0.35 + 0.2 * d):
            return rng.choice(genes)
        op = rng.choice([" and ", " or "])
        k = rng.choice([2, 2, 3])
        parts = [rec(d + 1) for _ in range(k)]
        return "(" + op.join(parts) + ")"
    s = rec(depth)
    if s.startswith("(") and s.endswith(")") and rng.random() < 0.7:
        s = s[1:-1]
        # only strip if the outer parentheses really were one pair
        bal = 0
        for i, ch in enumerate(s):
            bal += ch == "("
            bal -= ch == ")"
            if bal < 0:
                return "(" + s + ")"
    return s


def build(family, seed, index):
    """-> cobra.Model (deterministic)"""
    import cobra
    from cobra.core import Group
    assert family in FAMILIES, family
    rng = random.Random(f"{family}/{seed}/{index}")
    n_mets = rng.randint(1, 4)
    n_rxns = rng.randint(1, 5)
    if family == "boundsgrid":
        n_mets, n_rxns = rng.randint(2, 4), len(GRID)
    awkward = family == "awkward"
    digits = family == "digits"

    def pick_ids(pool, n, fallback):
        if awkward or digits:
            return rng.sample(pool, n)
        return [fallback(i) for i in range(n)]

    pool = DIGIT_IDS if digits else AWKWARD_IDS
    if digits:
        # a few digit ids among ordinary ones, at most one of each class so that they cannot collide after unescaping
        met_ids = [f"m{i}_c" for i in range(n_mets)]
        rxn_ids = [f"R{i}" for i in range(n_rxns)]
        which = rng.choice(["met", "rxn", "gene", "group", "all"])
        if which in ("met", "all"):
            met_ids[rng.randrange(n_mets)] = rng.choice(DIGIT_IDS)
        if which in ("rxn", "all"):
            rxn_ids[rng.randrange(n_rxns)] = rng.choice(DIGIT_IDS)
    else:
        which = None
        met_ids = pick_ids(pool, n_mets, lambda i: f"m{i}_{'ce'[i % 2]}")
        rxn_ids = pick_ids(pool, n_rxns, lambda i: f"R{i}")
    m = cobra.Model(f"m_{family}_{seed}_{index}", name=rng.choice([None, "a model", "Model: " + family]))
    comps = [rng.choice(COMPARTMENTS) for _ in range(n_mets)]
    # one name per compartment id
    cname = {}
    for cid, nm in comps:
        cname.setdefault(cid, nm)
    wild = family == "precision" or rng.random() < 0.35
    coef_pool = (COEFS if wild else COEFS_TAME) + (PRECISE if family == "precision" else [])
    mets = []
    for i in range(n_mets):
        met = cobra.Metabolite(met_ids[i], name=rng.choice(NAMES), formula=rng.choice(FORMULAS),
                               charge=None if family == "nocharge" and rng.random() < 0.7 else rng.choice(CHARGES),
                               compartment=comps[i][0])
        met.notes = _notes(rng, 0.4)
        met.annotation = _ann(rng, MET_ANN, 0.5)
        mets.append(met)
    bounds_pool = [b for b in BOUNDS if wild or b not in WILD_BOUNDS]
    if family == "precision":
        bounds_pool += [(-1.0 / 3.0, 2.0 / 3.0), (0.1 + 0.2, 1e3 / 7.0), (-3.141592653589793e5, 0.0)]
    rxns = []
    for i, met in enumerate(mets):
        if rng.random() < 0.6 or i == 0:
            ex_id = f"EX_{i}" if (awkward or digits) else f"EX_{met.id}"
            r = cobra.Reaction(ex_id, name=rng.choice(NAMES))
            r.add_metabolites({met: 1.0 if rng.random() < 0.25 else -1.0})
            r.bounds = rng.choice(bounds_pool)
            if rng.random() < 0.4:
                r.annotation = {"sbo": "SBO:0000627"}
            rxns.append(r)
    n_genes = rng.randint(1, 5)
    if awkward:
        gene_ids = rng.sample(AWKWARD_GENES, n_genes)
    elif digits and which in ("gene", "all"):
        gene_ids = [f"g{i}" for i in range(n_genes)]
        gene_ids[rng.randrange(n_genes)] = rng.choice(DIGIT_IDS[:3] + ["g__55__", "x__49__y"])
    else:
        gene_ids = [f"g{i}" for i in range(n_genes)]
    for i in range(n_rxns):
        r = cobra.Reaction(rxn_ids[i], name=rng.choice(NAMES), subsystem=rng.choice(SUBSYSTEMS))
        k = rng.randint(1, min(3, n_mets))
        parts = rng.sample(mets, k)
        coefs = {p: rng.choice(coef_pool) for p in parts}
        if k >= 2 and (all(c > 0 for c in coefs.values()) or all(c < 0 for c in coefs.values())):
            coefs[parts[0]] = -coefs[parts[0]]
        r.add_metabolites(coefs)
        r.bounds = rng.choice(bounds_pool)
        if family == "boundsgrid":
            def val(code, other=None):
                if code == "-inf":
                    return -INF
                if code == "inf":
                    return INF
                if code == "0":
                    return 0.0
                return rng.choice(GRID_NEG if code == "n" else GRID_POS)
            lo, hi = val(GRID[i][0]), val(GRID[i][1])
            if lo > hi:
                lo, hi = hi, lo
            r.bounds = (lo, hi)
        if rng.random() < 0.75:
            r.gene_reaction_rule = _rule(rng, gene_ids)
        r.notes = _notes(rng, 0.4)
        r.annotation = _ann(rng, RXN_ANN, 0.5)
        rxns.append(r)
    if family == "above":
        # at least one reaction above the default upper bound, sometimes one below the default lower bound
        r = rng.choice(rxns)
        r.bounds = rng.choice(ABOVE)
        if len(rxns) > 1 and rng.random() < 0.5:
            r2 = rng.choice([x for x in rxns if x is not r])
            r2.bounds = rng.choice(BELOW)
    if family == "emptyreaction":
        er = cobra.Reaction("EMPTY", name="no metabolites")
        er.bounds = rng.choice(bounds_pool)
        rxns.append(er)
    m.add_metabolites(mets)        # also the metabolites that no reaction uses
    m.add_reactions(rxns)
    m.compartments = {cid: nm for cid, nm in cname.items()}
    # genes
    for g in m.genes:
        if family != "noname" or rng.random() < 0.3:
            g.name = rng.choice([x for x in NAMES if x]) if rng.random() < 0.5 else "gene " + g.id
        g.notes = _notes(rng, 0.4)
        g.annotation = _ann(rng, GENE_ANN, 0.5)
    # objective
    from cobra.util.solver import set_objective
    objr = rng.sample(list(m.reactions), min(len(m.reactions), rng.choice([1, 1, 2])))
    oc = OBJ_COEFS + (PRECISE[:4] if family == "precision" else [])
    if family != "noobjective":
        set_objective(m, {r: rng.choice(oc) for r in objr})
    m.objective_direction = "min" if (family == "min" or (family == "noobjective" and rng.random() < 0.5)) else "max"
    # groups
    groups = []
    # a gene and a group must not share an id: both get the SBML prefix "G_" (adjacent observation, not generated)
    taken = {g.id for g in m.genes}
    gid_pool = (rng.sample([x for x in pool if x not in taken], 3) if (awkward or (digits and which in ("group", "all")))
                else ["grp_a", "grp_b", "grp_c"])
    if rng.random() < 0.7:
        mem = rng.sample(list(m.reactions), rng.randint(1, min(3, len(m.reactions))))
        groups.append(Group(gid_pool[0], name=rng.choice(["", "Glycolysis", "group one"]), members=mem, kind=rng.choice(GROUP_KINDS)))
    if rng.random() < 0.5:
        mem = rng.sample(list(m.metabolites), rng.randint(1, min(2, len(m.metabolites))))
        groups.append(Group(gid_pool[1], name=rng.choice(["", "currency metabolites", "mets"]), members=mem, kind=rng.choice(GROUP_KINDS)))
    if family == "genegroup" and len(m.genes) == 0:
        m.reactions[-1].gene_reaction_rule = "g0 and g1"
        for g in m.genes:
            g.name = "gene " + g.id
    if family == "genegroup":
        mem = rng.sample(list(m.genes), rng.randint(1, min(2, len(m.genes))))
        if rng.random() < 0.4 and len(m.reactions) > 0:
            mem = mem + [m.reactions[0]]
        groups.append(Group(gid_pool[2], name="operon", members=mem, kind=rng.choice(GROUP_KINDS)))
    for g in groups:
        g.notes = _notes(rng, 0.3)
        g.annotation = _ann(rng, GROUP_ANN, 0.4)
    if groups:
        m.add_groups(groups)
    m.notes = _notes(rng, 0.3)
    m.annotation = _ann(rng, MODEL_ANN, 0.3)
    return m


def cases(tier, seed, per_family=None):
    """-> [(family, seed, index)]"""
    if per_family is None:
        per_family = {"quick": {"plain": 800, "min": 300, "awkward": 800, "above": 60, "digits": 40, "genegroup": 30, "noname": 30,
                                "nocharge": 30, "precision": 200, "emptyreaction": 20, "noobjective": 20, "boundsgrid": 40},
                      "thorough": {"plain": 6000, "min": 2000, "awkward": 6000, "above": 400, "digits": 200, "genegroup": 120,
                                   "noname": 120, "nocharge": 120, "precision": 1500, "emptyreaction": 60,
                                   "noobjective": 60, "boundsgrid": 300}}[tier]
    out = []
    for fam, n in per_family.items():
        out.extend((fam, seed, i) for i in range(n))
    return out


def summary(model):
    """small JSON-able description for `samples`"""
    from cobra.util.solver import linear_reaction_coefficients

    def b(x):
        return "inf" if x == INF else "-inf" if x == -INF else x
    return {"id": model.id, "reactions": [[r.id, b(r.lower_bound), b(r.upper_bound), r.gene_reaction_rule] for r in model.reactions],
            "metabolites": [x.id for x in model.metabolites], "groups": [[g.id, g.kind, len(g.members)] for g in model.groups],
            "objective": {r.id: c for r, c in linear_reaction_coefficients(model).items()}, "direction": model.objective_direction}


def r15(x):
    """the double that SBML text (15 significant digits) carries for x"""
    if isinstance(x, float) and x == x and x not in (INF, -INF):
        return float(f"{x:.15g}")
    return x


# ----------------------------------------------------------------------------------------------------------------------
# observation and classified differences (shared by C10 and C11)
# ----------------------------------------------------------------------------------------------------------------------
def _canon(x):
    from bcc.views import _canon as c
    return c(x)


def rule_signature(gpr):
    """(sorted genes, values): the full truth table up to 12 genes, else the values on all single knock-outs, all
    all-but-one knock-outs and 1500 pseudo-random knock-out sets (seeded by the gene ids)"""
    import itertools
    gs = sorted(gpr.genes)
    if len(gs) <= 12:
        sets = [{g for g, b in zip(gs, mask) if b} for mask in itertools.product([False, True], repeat=len(gs))]
    else:
        rng = random.Random("|".join(gs))
        sets = [set()] + [{g} for g in gs] + [set(gs) - {g} for g in gs] + [set(gs)]
        for _ in range(1500):
            p = rng.choice([0.1, 0.3, 0.5, 0.7])
            sets.append({g for g in gs if rng.random() < p})
    return (tuple(gs), tuple(bool(gpr.eval(k)) for k in sets))


def obs(model):
    """bcc.views.snapshot + model id / name / notes / annotation + notes / annotation of the groups"""
    from bcc import views
    s = views.snapshot(model)
    # bcc.views.truth_table falls back to the rule TEXT above 8 genes; the round trips may legitimately re-associate a rule
    # (libsbml flattens nested and/or), so larger rules are compared by their values on a fixed family of knock-out sets
    for r in model.reactions:
        if len(r.gpr.genes) > 8:
            t = s["reactions"][r.id]
            s["reactions"][r.id] = t[:3] + (rule_signature(r.gpr),) + t[4:]
    s["model"] = (model.id, model.name, _canon(model.notes), _canon(model.annotation))
    s["group_meta"] = {g.id: (_canon(g.notes), _canon(g.annotation)) for g in model.groups}
    return s


def map_floats(x, f):
    if isinstance(x, float):
        return f(x)
    if isinstance(x, tuple):
        return tuple(map_floats(v, f) for v in x)
    if isinstance(x, list):
        return [map_floats(v, f) for v in x]
    if isinstance(x, dict):
        return {k: map_floats(v, f) for k, v in x.items()}
    return x


_RXN_FIELDS = ["lower-bound", "upper-bound", "stoichiometry", "gene-rule", "reaction-genes", None, "model-pointer"]
_RXN_META = ["reaction-name", "subsystem", "reaction-notes", "reaction-annotation"]
_MET_META = ["metabolite-name", "formula", "charge", "compartment", "metabolite-notes", "metabolite-annotation"]
_GENE_META = ["gene-name", "gene-notes", "gene-annotation"]


def diff_aspects(a, b, skip=()):
    """-> [(aspect, object id, before, after)] between two obs(); consequences of a reported cause are not repeated:
    if an id set differs only the id differences are reported; solver-level differences are reported only when the
    Python-level bounds / stoichiometry / objective agree.  `skip`: aspects the caller's statement does not cover."""
    out = []
    kinds = ["reactions", "metabolites", "genes"] + ([] if "groups" in skip else ["groups"])
    for kind in kinds:
        if set(a[kind]) != set(b[kind]):
            out.append((f"{kind}-ids", None, sorted(set(a[kind]) - set(b[kind])), sorted(set(b[kind]) - set(a[kind]))))
    if out:
        return out
    for rid, ra in a["reactions"].items():
        rb = b["reactions"][rid]
        for i, nm in enumerate(_RXN_FIELDS):
            if nm is None:
                for j, mn in enumerate(_RXN_META):
                    if ra[5][j] != rb[5][j]:
                        out.append((mn, rid, ra[5][j], rb[5][j]))
            elif ra[i] != rb[i]:
                out.append((nm, rid, ra[i], rb[i]))
    for mid, ma in a["metabolites"].items():
        mb = b["metabolites"][mid]
        if ma[0] != mb[0]:
            out.append(("metabolite-reactions", mid, ma[0], mb[0]))
        for j, mn in enumerate(_MET_META):
            if ma[1][j] != mb[1][j]:
                out.append((mn, mid, ma[1][j], mb[1][j]))
        if ma[2] != mb[2]:
            out.append(("model-pointer", mid, ma[2], mb[2]))
    for gid, ga in a["genes"].items():
        gb = b["genes"][gid]
        if ga[0] != gb[0]:
            out.append(("gene-functional", gid, ga[0], gb[0]))
        if ga[1] != gb[1]:
            out.append(("gene-reactions", gid, ga[1], gb[1]))
        for j, mn in enumerate(_GENE_META):
            if ga[2][j] != gb[2][j]:
                out.append((mn, gid, ga[2][j], gb[2][j]))
        if ga[3] != gb[3]:
            out.append(("model-pointer", gid, ga[3], gb[3]))
    if "groups" not in skip:
        for gid, ga in a["groups"].items():
            gb = b["groups"][gid]
            for j, mn in enumerate(["group-name", "group-kind", "group-members"]):
                if ga[j] != gb[j]:
                    out.append((mn, gid, ga[j], gb[j]))
            for j, mn in enumerate(["group-notes", "group-annotation"]):
                if a["group_meta"][gid][j] != b["group_meta"][gid][j]:
                    out.append((mn, gid, a["group_meta"][gid][j], b["group_meta"][gid][j]))
    if a["compartments"] != b["compartments"]:
        out.append(("compartments", None, a["compartments"], b["compartments"]))
    for j, mn in enumerate(["model-id", "model-name", "model-notes", "model-annotation"]):
        if a["model"][j] != b["model"][j]:
            out.append((mn, None, a["model"][j], b["model"][j]))
    if a.get("tolerance") != b.get("tolerance"):
        out.append(("tolerance", None, a.get("tolerance"), b.get("tolerance")))
    have = {x[0] for x in out}
    la, lb = a["lp"], b["lp"]
    if la[0] != lb[0] and not have & {"lower-bound", "upper-bound"}:
        da, db = dict(la[0]), dict(lb[0])
        k = sorted(k for k in set(da) | set(db) if da.get(k) != db.get(k))[0]
        out.append(("solver-variables", k, da.get(k), db.get(k)))
    if la[1] != lb[1] and "stoichiometry" not in have:
        da, db = dict(la[1]), dict(lb[1])
        k = sorted(k for k in set(da) | set(db) if da.get(k) != db.get(k))[0]
        out.append(("solver-constraints", k, da.get(k), db.get(k)))
    if la[2] != lb[2]:
        out.append(("objective", None, la[2], lb[2]))
    if la[3] != lb[3]:
        out.append(("direction", None, la[3], lb[3]))
    return [x for x in out if x[0] not in skip]


def tame(model):
    """small, well-scaled data only: the optimal value is then computed reliably whatever the order of rows and columns"""
    from cobra.util.solver import linear_reaction_coefficients
    for r in model.reactions:
        for c in r._metabolites.values():
            if not 0.01 <= abs(c) <= 100:
                return False
        for b in (r.lower_bound, r.upper_bound):
            if b not in (INF, -INF, 0) and not 0.01 <= abs(b) <= 1e4:
                return False
    for c in linear_reaction_coefficients(model).values():
        if c != 0 and not 0.1 <= abs(c) <= 100:
            return False
    return True


def optimum(model):
    """('optimal', value) | ('not-optimal', None): only the optimal value is uniquely defined"""
    import math
    try:
        v = model.slim_optimize()
    except Exception as e:  # noqa
        return ("raises", type(e).__name__)
    st = model.solver.status
    if st == "optimal" and v is not None and not math.isnan(v):
        return ("optimal", float(v))
    return ("not-optimal", None)


def same_optimum(a, b):
    from bcc.oracle_lp import close
    if a[0] != b[0]:
        return False
    if a[0] == "optimal":
        return close(a[1], b[1])
    return a[1] == b[1]


# ----------------------------------------------------------------------------------------------------------------------
# crash-proof fork pool: GLPK *aborts the process* on a name with a control character (which a broken id escaper produces);
# multiprocessing.Pool would then wait for ever for the lost task
# ----------------------------------------------------------------------------------------------------------------------
class Crashed:
    """result placeholder for a unit whose process died"""

    def __init__(self, exitcode):
        self.exitcode = exitcode

    def __repr__(self):
        return f"Crashed(exitcode={self.exitcode})"


def _child(fn, unit, conn):
    try:
        conn.send(("ok", fn(unit)))
    except BaseException as e:  # noqa
        import traceback
        conn.send(("exc", f"{type(e).__name__}: {e}\n{traceback.format_exc()[-1500:]}"))
    finally:
        conn.close()


def run_units(fn, units, nproc=None):
    """fn(unit) for every unit, each in its own forked process, at most `nproc` at a time.
    -> list aligned with `units`: the result, or Crashed(exitcode) if the process died, or raises if fn raised"""
    import multiprocessing as mp
    import os
    from multiprocessing.connection import wait
    ctx = mp.get_context("fork")
    nproc = nproc or min(16, os.cpu_count() or 1)
    results = [None] * len(units)
    todo = list(range(len(units)))[::-1]
    running = {}          # index -> (process, receiving end)
    reap = []             # processes whose result has arrived; joined without blocking the dispatcher
    error = None
    while todo or running:
        while todo and len(running) < nproc and error is None:
            i = todo.pop()
            parent, child = ctx.Pipe(duplex=False)
            p = ctx.Process(target=_child, args=(fn, units[i], child), daemon=True)
            p.start()
            child.close()
            running[i] = (p, parent)
        if error is not None and not running:
            break
        ready = set(wait([c for _, c in running.values()] + [p.sentinel for p, _ in running.values()], timeout=5.0))
        for i in list(running):
            p, c = running[i]
            if c not in ready and p.sentinel not in ready:
                continue
            got = None
            try:
                if c.poll(0):
                    got = c.recv()
            except (EOFError, OSError):
                got = None
            if got is None and p.is_alive():
                continue                      # woken up for nothing
            if got is None:
                p.join(timeout=5)
                results[i] = Crashed(p.exitcode)
            elif got[0] == "exc":
                error = RuntimeError(f"unit {i} raised in the worker: {got[1]}")
                reap.append(p)
            else:
                results[i] = got[1]
                reap.append(p)
            c.close()
            del running[i]
        reap = [p for p in reap if p.is_alive() or p.join(0)]
    for p in reap:
        p.join(timeout=5)
    if error is not None:
        raise error
    return results
