"""Shared helpers of the C12 / C13 / C16 / C20 drivers: a *flat* observation of a model (one entry per
(class, id, field), so that a difference can be classified by where it is), its comparison, and the decoration of
generated models with everything a copy has to carry (notes / annotations with nested values, groups of every member
kind, user variables / constraints, compartments names, tolerance, knocked-out genes).
"""
import logging
import math
import random
import warnings

from . import views
from .oracle_lp import close

INF = float("inf")


def quiet():
    warnings.simplefilter("ignore")
    logging.disable(logging.CRITICAL)


def canon(x):
    """hashable, order-free image of a notes / annotation value (lists keep their order)"""
    if isinstance(x, dict):
        return ("{}",) + tuple(sorted(((repr(k), canon(v)) for k, v in x.items())))
    if isinstance(x, (list, tuple)):
        return ("[]",) + tuple(canon(v) for v in x)
    if isinstance(x, (set, frozenset)):
        return ("set",) + tuple(sorted((canon(v) for v in x), key=repr))
    if isinstance(x, float) and math.isnan(x):
        return "nan"
    return x


def optimum(model):
    """(status, objective value or None) - the uniquely defined part of an optimisation"""
    try:
        v = model.slim_optimize()
        st = model.solver.status
    except Exception as e:  # noqa
        return ("raised:" + type(e).__name__, None)
    if st == "optimal":
        return (st, float(v))
    return (st, None)


def flat_obs(model, with_opt=True, with_ctx=True):
    """{(class, id, field): value}; class in model/reaction/metabolite/gene/group/lp/solver/optimum/contexts."""
    o = {}
    o[("model", "", "id")] = model.id
    o[("model", "", "name")] = model.name
    o[("model", "", "notes")] = canon(model.notes)
    o[("model", "", "annotation")] = canon(model.annotation)
    o[("model", "", "compartments")] = (canon(dict(model.compartments)), canon(dict(model._compartments)))
    o[("model", "", "tolerance")] = model.tolerance
    for nm in ("reactions", "metabolites", "genes", "groups"):
        o[("model", nm, "order")] = tuple(x.id for x in getattr(model, nm))
    for r in model.reactions:
        k = r.id
        o[("reaction", k, "bounds")] = (float(r._lower_bound), float(r._upper_bound))
        o[("reaction", k, "stoichiometry")] = tuple(sorted((m.id, float(c)) for m, c in r._metabolites.items()))
        o[("reaction", k, "rule")] = views.truth_table(r.gpr)
        o[("reaction", k, "rule_text")] = r.gene_reaction_rule
        o[("reaction", k, "genes")] = tuple(sorted(g.id for g in r._genes))
        o[("reaction", k, "name")] = (r.name, r.subsystem)
        o[("reaction", k, "notes")] = canon(r.notes)
        o[("reaction", k, "annotation")] = canon(r.annotation)
        o[("reaction", k, "model_ptr")] = r._model is model
    for m in model.metabolites:
        k = m.id
        o[("metabolite", k, "reactions")] = tuple(sorted(r.id for r in m._reaction))
        o[("metabolite", k, "attributes")] = (m.name, m.formula, m.charge, m.compartment)
        o[("metabolite", k, "notes")] = canon(m.notes)
        o[("metabolite", k, "annotation")] = canon(m.annotation)
        o[("metabolite", k, "model_ptr")] = m._model is model
    for g in model.genes:
        k = g.id
        o[("gene", k, "functional")] = bool(g.functional)
        o[("gene", k, "reactions")] = tuple(sorted(r.id for r in g._reaction))
        o[("gene", k, "name")] = g.name
        o[("gene", k, "notes")] = canon(g.notes)
        o[("gene", k, "annotation")] = canon(g.annotation)
        o[("gene", k, "model_ptr")] = g._model is model
    for g in model.groups:
        k = g.id
        o[("group", k, "name")] = (g.name, g.kind)
        o[("group", k, "members")] = tuple(sorted((type(x).__name__, x.id) for x in g.members))
        o[("group", k, "notes")] = canon(g.notes)
        o[("group", k, "annotation")] = canon(g.annotation)
    lp = views.read_glpk(model)
    for nm, v in lp["vars"].items():
        o[("lp", nm, "variable")] = v
    for nm, (lb, ub, coefs) in lp["cons"].items():
        o[("lp", nm, "constraint")] = (lb, ub, tuple(sorted(coefs.items())))
    o[("lp", "", "objective")] = (tuple(sorted(lp["obj"].items())), lp["obj_const"])
    o[("lp", "", "direction")] = lp["direction"]
    try:
        o[("reported", "", "objective")] = (tuple(sorted(views.reported_objective(model).items())), model.objective_direction)
    except Exception as e:  # noqa
        o[("reported", "", "objective")] = "raised " + type(e).__name__
    cfg = model.solver.configuration
    tol = []
    for nm in ("feasibility", "optimality", "integrality"):
        try:
            tol.append(getattr(cfg.tolerances, nm))
        except AttributeError:
            tol.append(None)
    o[("solver", "", "feasibility_tolerance")] = tol[0]
    o[("solver", "", "optimality_tolerance")] = tol[1]
    o[("solver", "", "integrality_tolerance")] = tol[2]
    o[("solver", "", "configuration")] = (type(model.solver).__module__, getattr(cfg, "timeout", None),
                                          getattr(cfg, "presolve", None), getattr(cfg, "lp_method", None))
    if with_ctx:
        o[("contexts", "", "depth")] = tuple(len(c._history) for c in model._contexts)
    if with_opt:
        o[("optimum", "", "value")] = optimum(model)
    return o


EQUIV_SKIP_FIELDS = {"rule_text", "model_ptr"}   # not compared between a model and its copy
EQUIV_SKIP_CLASSES = {"contexts"}


def _same(k, a, b):
    if a == b:
        return True
    if k[0] == "optimum" and a is not None and b is not None and a[0] == b[0] and a[1] is not None and b[1] is not None:
        return close(a[1], b[1])
    return False


def diff_obs(a, b, equivalence=False):
    """-> list of (class, id, field, before, after)"""
    out = []
    for k in sorted(set(a) | set(b), key=repr):
        if equivalence and (k[2] in EQUIV_SKIP_FIELDS or k[0] in EQUIV_SKIP_CLASSES):
            continue
        x, y = a.get(k, "<absent>"), b.get(k, "<absent>")
        if not _same(k, x, y):
            out.append((k[0], k[1], k[2], x, y))
    return out


def fmt_diff(d, limit=4):
    return "; ".join(f"{c}[{i}].{f}: {str(x)[:160]} -> {str(y)[:160]}" for c, i, f, x, y in d[:limit]) + \
        (f" (+{len(d) - limit} more)" if len(d) > limit else "")


def sample_meta(tag):
    return ({"text": f"note of {tag}", "nested": {"k": [1, 2], "d": {"deep": "x"}}, "list": ["a", "b"]},
            {"sbo": "SBO:0000001", "kegg": [f"K_{tag}", "K2"], "refs": [["is", "u1"], ["is", "u2"]]})


def decorate(model, rng, user_cons=True, tolerance=None, knock=False, second_group=True):
    """notes/annotation with nested values on every object, a second group with metabolite/gene/group members, a user
    variable and two user constraints (add_cons_vars), compartment names, optional tolerance and a knocked-out gene."""
    import cobra
    from cobra.core import Group
    if not model.genes:
        model.reactions[-1].gene_reaction_rule = "g1 or g2"
    for obj in [model] + list(model.reactions) + list(model.metabolites) + list(model.genes) + list(model.groups):
        n, a = sample_meta(getattr(obj, "id", "model"))
        obj.notes = n
        obj.annotation = a
    if second_group:
        members = [model.metabolites[0], model.genes[0]] + list(model.groups[:1])
        g2 = Group("grp2", name="group two", members=members, kind="collection")
        n, a = sample_meta("grp2")
        g2.notes, g2.annotation = n, a
        model.add_groups([g2])
    model.compartments = {"c": "cytosol", "e": "extracellular"}
    if user_cons:
        r0, r1 = model.reactions[0], model.reactions[-1]
        uv = model.problem.Variable("uv", lb=0, ub=5)
        uc = model.problem.Constraint(r0.flux_expression + uv, lb=-3, ub=8, name="uc")
        uc2 = model.problem.Constraint(r0.flux_expression - 2 * r1.flux_expression, lb=-50, ub=50, name="uc2")
        model.add_cons_vars([uv, uc, uc2])
    if tolerance is not None:
        model.tolerance = tolerance
    if knock and model.genes:
        model.genes[rng.randrange(len(model.genes))].knock_out()
    return model


# ---------------------------------------------------------------------------------------------- crash-tolerant fork pool
def _pool_worker(fn, tasks, counter, conn):
    quiet()
    n = len(tasks)
    while True:
        with counter.get_lock():
            i = counter.value
            counter.value += 1
        if i >= n:
            break
        conn.send(("start", i))
        try:
            r = ("ok", fn(tasks[i]))
        except BaseException as e:  # noqa
            import traceback
            r = ("exception", f"{type(e).__name__}: {e}; {traceback.format_exc()[-500:]}")
        try:
            conn.send(("done", i, r))
        except Exception as e:  # unpicklable result
            conn.send(("done", i, ("exception", f"result not transferable: {e!r}")))
    conn.send(("end",))
    conn.close()


def run_tasks(fn, tasks, nproc=16, task_timeout=300.0):
    """fork pool with dynamic scheduling that survives dying workers (multiprocessing.Pool.map hangs for ever when a
    worker is killed, e.g. by a segfault in GLPK under a defective cobra): -> list of (status, value) aligned with tasks,
    status in 'ok' | 'exception' (value = text) | 'crash' (value = exit code text) | 'timeout'."""
    import multiprocessing as mp
    import multiprocessing.connection as mpc
    import time
    ctx = mp.get_context("fork")
    n = len(tasks)
    results = [None] * n
    counter = ctx.Value("i", 0)
    live = {}

    def spawn():
        parent, child = ctx.Pipe(duplex=False)
        p = ctx.Process(target=_pool_worker, args=(fn, tasks, counter, child), daemon=False)  # workers may fork pools
        p.start()
        child.close()
        live[parent] = [p, None, time.time(), None]

    for _ in range(max(1, min(nproc, n))):
        spawn()
    try:
        while live:
            ready = mpc.wait(list(live), timeout=2.0)
            for conn in ready:
                st = live[conn]
                try:
                    msg = conn.recv()
                except (EOFError, OSError):
                    p, cur = st[0], st[1]
                    p.join(5)
                    del live[conn]
                    if cur is not None:
                        results[cur] = (st[3] or "crash", f"worker exit code {p.exitcode}")
                    with counter.get_lock():
                        more = counter.value < n
                    if more:
                        spawn()
                    continue
                if msg[0] == "start":
                    st[1], st[2] = msg[1], time.time()
                elif msg[0] == "done":
                    results[msg[1]] = msg[2]
                    st[1] = None
                else:
                    st[0].join(5)
                    del live[conn]
            now = time.time()
            for conn, st in list(live.items()):
                if st[1] is not None and now - st[2] > task_timeout and st[3] is None:
                    st[3] = "timeout"
                    st[0].kill()
    finally:
        for st in live.values():
            try:
                st[0].kill()
            except Exception:  # noqa
                pass
    return [r if r is not None else ("crash", "no result") for r in results]


# ---------------------------------------------------------------------------------------------- failure collection
def collect_failures(items):
    """items: iterable of (fixed: bool, witness: str, replay: dict, {class key: text}).

    Protocol: `key` is the class of a violation, `witness` identifies the specific failing input.
      * fixed part (inputs from a seed-independent list): EVERY (class, witness) pair is reported, no cap;
      * seeded part (inputs that depend on the `seed` argument): one entry per class with witness 'random:<class>'
        (the case with the shortest replay description is kept as the example, the count is in the text)."""
    fixed, seeded, counts = {}, {}, {}
    for is_fixed, witness, replay, fails in items:
        for key, text in fails.items():
            if is_fixed:
                fixed[(key, witness)] = (text, replay)
            else:
                counts[key] = counts.get(key, 0) + 1
                size = len(repr(replay))
                if key not in seeded or size < seeded[key][0]:
                    seeded[key] = (size, text, replay)
    out = [{"key": k, "witness": w, "failure": text, "replay": dict(replay, key=k)} for (k, w), (text, replay) in sorted(fixed.items())]
    out += [{"key": k, "witness": f"random:{k}", "failure": f"{text} [{counts[k]} seeded case(s) of this class]",
             "replay": dict(replay, key=k)} for k, (_, text, replay) in sorted(seeded.items())]
    return out
