"""Sensitivity experiments for the C14 bounded driver: source-level mutants installed in THIS process only.

Run one mutant (in a scratch process; /repo is never modified — the functions are replaced in this interpreter and the
forked workers inherit them):   cd /verif && .venv/bin/python -m bcc.c14_mutants <name|none|list> [tier] [seed]
"""
import sys, time, inspect, textwrap
import cobra
from bcc.c06_mutants import remake, DEL, VAR
import cobra.sampling.optgp as OPT

def remake_method(cls, mod, fname, old, new):
    src = textwrap.dedent(inspect.getsource(getattr(cls, fname)))
    assert old in src, (fname, old)
    ns = mod.__dict__
    exec(compile(src.replace(old, new), f"<mutant {fname}>", "exec"), ns)
    setattr(cls, fname, ns.pop(fname))

def m_fva_arrival_order():
    remake(VAR, "flux_variability_analysis", """for rxn_id, value in pool.imap_unordered(
                        _fva_step, reaction_ids, chunksize=chunk_size
                    ):
                        fva_result.at[rxn_id, what] = value""", """for _i, (rxn_id, value) in enumerate(pool.imap_unordered(
                        _fva_step, reaction_ids, chunksize=chunk_size
                    )):
                        fva_result.iloc[_i, fva_result.columns.get_loc(what)] = value""")
def m_fva_no_reset():
    remake(VAR, "_fva_step", """    _model.solver.objective.set_linear_coefficients(
        {rxn.forward_variable: 0, rxn.reverse_variable: 0}
    )
    return""", "    return")
def m_fva_chunk_zero_when_short():
    remake(VAR, "flux_variability_analysis", "processes = min(processes, num_reactions)", "processes = processes")
def m_fva_worker_sense_lost():
    # the initializer forgets the direction in pool workers (parent path unchanged)
    remake(VAR, "flux_variability_analysis", 'initargs=(model, loopless, what[:3]),', 'initargs=(model, loopless, "max"),')
def m_del_no_restore_rxn():
    remake(DEL, "_reaction_deletion", "with model:", "if True:")
def m_del_no_restore_gene_in_worker():
    src = '''
def _gene_deletion_worker(ids):
    global _model
    for gene_id in ids:
        _model.genes.get_by_id(gene_id).knock_out()
    growth, status = _get_growth(_model)
    return ids, growth, status
'''
    exec(src, DEL.__dict__)
def m_del_arrival_order():
    remake(DEL, "_multi_deletion", "results = extract_knockout_results(\n                    pool.imap_unordered(worker, args, chunksize=chunk_size)\n                )",
           "results = extract_knockout_results(\n                    [(a, g, s) for a, (_x, g, s) in zip(args, pool.imap_unordered(worker, args, chunksize=chunk_size))]\n                )")
def m_del_chunk_zero():
    remake(DEL, "_multi_deletion", "processes = min(processes, len(args))", "processes = processes")
def m_del_drop_tail():
    remake(DEL, "_multi_deletion", "pool.imap_unordered(worker, args, chunksize=chunk_size)", "pool.imap_unordered(worker, list(args)[: chunk_size * processes], chunksize=chunk_size)")
def m_moma_infeasible_growth_unchecked():
    # reverts /repo e882884 (see NOTES_C06 / NOTES_C14)
    remake(DEL, "_get_growth", "if not isnan(growth):", "if True:")
def m_sample_n_not_rounded():
    # seeded defect missed by the first version of the driver: centre / n_samples updated with the requested n while the
    # sum runs over all generated rows; only a LATER call on the same sampler goes wrong
    remake_method(OPT.OptGPSampler, OPT, "sample", "n = n_process * self.processes\n", "pass\n")
def m_sample_floor():
    remake_method(OPT.OptGPSampler, OPT, "sample", "n_process = np.ceil(n / self.processes).astype(int)", "n_process = max(1, n // self.processes)")
def m_sample_seed_time():
    remake(OPT, "_sample_chain", "np.random.seed((sampler._seed + idx) % np.iinfo(np.int32).max)", "np.random.seed((int(__import__('time').time() * 1e6) + idx) % np.iinfo(np.int32).max)")
def m_sample_seed_pid():
    remake(OPT, "_sample_chain", "np.random.seed((sampler._seed + idx) % np.iinfo(np.int32).max)", "np.random.seed((sampler._seed + __import__('os').getpid()) % np.iinfo(np.int32).max)")
def m_sample_last_row_missing():
    remake(OPT, "_sample_chain", "for i in range(1, sampler.thinning * n + 1):", "for i in range(1, sampler.thinning * n):")
def m_sample_unordered():
    remake_method(OPT.OptGPSampler, OPT, "sample", "results = pool.map(_sample_chain, args, chunksize=1)", "results = list(pool.imap_unordered(_sample_chain, args, chunksize=1))")
def m_essential_par_only_first_chunk():
    # essential genes computed from a deletion frame that lost rows when processes > 2
    remake(DEL, "_multi_deletion", "chunk_size = len(args) // processes", "chunk_size = len(args) // processes\n            args = list(args)[: chunk_size * processes] if processes > 2 else args")

MUT = {k[2:]: v for k, v in globals().items() if k.startswith("m_")}
if __name__ == "__main__":
    name = sys.argv[1] if len(sys.argv) > 1 else "list"
    if name == "list":
        print("\n".join(sorted(MUT)))
        sys.exit(0)
    tier = sys.argv[2] if len(sys.argv) > 2 else "quick"
    seed = int(sys.argv[3]) if len(sys.argv) > 3 else 0
    if name != "none":
        MUT[name]()
    from bcc.drivers import C14
    t = time.time()
    r = C14.run(tier, seed)
    print(f"== {name}: {len(r['failures'])} failure keys, {time.time()-t:.0f}s, evaluations {r['evaluations']}")
    for f in r["failures"]:
        print("   ", f["key"], "|", f["failure"][:300])
        try:
            rp = C14.replay(f["replay"])
        except Exception as e:
            rp = f"replay raised {e!r}"
        print("      replay ->", (rp or "PASSES")[:120])
