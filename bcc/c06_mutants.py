"""Sensitivity experiments for the C06 bounded driver: source-level mutants of cobra functions installed in THIS process only.

Run one mutant (in a scratch process; /repo is never modified — the functions are replaced in this interpreter and the
forked workers inherit them):   cd /verif && .venv/bin/python -m bcc.c06_mutants <name|none|list> [tier] [seed]
"""
import sys, time, inspect, textwrap
import cobra
import cobra.flux_analysis as FA
DEL = sys.modules["cobra.flux_analysis.deletion"]
VAR = sys.modules["cobra.flux_analysis.variability"]
MOMA = sys.modules["cobra.flux_analysis.moma"]
from cobra.core.gene import GPR, Gene
from ast import And, BoolOp

def remake(mod, fname, old, new, count=1):
    src = textwrap.dedent(inspect.getsource(getattr(mod, fname)))
    assert src.count(old) >= 1, (fname, old)
    src = src.replace(old, new) if count is None else src.replace(old, new, count)
    ns = mod.__dict__
    exec(compile(src, f"<mutant {fname}>", "exec"), ns)
    # re-export
    for m in (FA, cobra.flux_analysis, VAR, DEL):
        if hasattr(m, fname) and m is not mod:
            setattr(m, fname, ns[fname])

def m_any_for_all():
    orig = GPR._eval_gpr
    def _eval_gpr(self, expr, knockouts):
        if isinstance(expr, BoolOp) and isinstance(expr.op, And):
            return any(self._eval_gpr(i, knockouts) for i in expr.values)
        return orig(self, expr, knockouts)
    GPR._eval_gpr = _eval_gpr
def m_only_this_gene():
    def knock_out(self):
        self.functional = False
        for reaction in self.reactions:
            if not reaction.gpr.eval({self.id}):
                reaction.bounds = (0, 0)
    Gene.knock_out = knock_out
def m_ordered_pairs():
    remake(DEL, "_multi_deletion", "{frozenset(comb) for comb in product(*element_lists)}", "{tuple(comb) for comb in product(*element_lists)}")
def m_no_restore_rxn():
    remake(DEL, "_reaction_deletion", "with model:", "if True:")
def m_no_restore_gene():
    remake(DEL, "_gene_deletion", "with model:", "if True:")
def m_arrival_order():
    # ids taken from the request order, values from the arrival order
    remake(DEL, "_multi_deletion", "for (ids, growth, status) in result_iter", "for ((_i, growth, status), ids) in zip(sorted(result_iter, key=lambda t: (t[1] != t[1], t[1])), args)")
def m_chunk_zero():
    remake(DEL, "_multi_deletion", "chunk_size = len(args) // processes", "chunk_size = len(args) // (processes + 2)")
def m_drop_last():
    remake(DEL, "_multi_deletion", "results = extract_knockout_results(\n                    pool.imap_unordered(worker, args, chunksize=chunk_size)", "results = extract_knockout_results(\n                    pool.imap_unordered(worker, list(args)[: chunk_size * processes], chunksize=chunk_size)")
def m_second_list_all():
    remake(DEL, "_element_lists", "result.append(result[-1])", "result.append(_entities_ids(entities))")
def m_moma_infeasible_growth_unchecked():
    # reverts /repo e882884: the primal of moma_old_objective is read whatever the status (the defect found by this driver)
    remake(DEL, "_get_growth", "if not isnan(growth):", "if True:")
def m_moma_growth_is_distance():
    remake(DEL, "_get_growth", "growth = model.solver.variables.moma_old_objective.primal", "growth = model.solver.objective.value")
def m_moma_ref_fba():
    remake(MOMA, "add_moma", "solution = pfba(model)", "solution = pfba(model, fraction_of_optimum=0.5)")
def m_moma_no_ko_reference_shift():
    # difference dropped: distances measured from zero instead of from the reference
    remake(MOMA, "add_moma", "difference=flux,", "difference=0.0,")
def m_status_always_optimal():
    remake(DEL, "_get_growth", "return growth, model.solver.status", "return growth, 'optimal'")
def m_nan_to_zero():
    remake(DEL, "_get_growth", "growth = model.slim_optimize()\n    except", "growth = model.slim_optimize(error_value=0.0)\n    except")
def m_essential_no_nan():
    remake(VAR, "find_essential_genes", 'deletions["growth"].isna() | (deletions["growth"] < threshold)', '(deletions["growth"] < threshold)')
    remake(VAR, "find_essential_reactions", 'deletions["growth"].isna() | (deletions["growth"] < threshold)', '(deletions["growth"] < threshold)')
def m_essential_10pct():
    remake(VAR, "find_essential_genes", "* 1e-02", "* 1e-01")
def m_essential_thr_ignored():
    remake(VAR, "find_essential_reactions", "if threshold is None:", "if True:")
def m_gene_worker_swapped():
    remake(DEL, "_multi_deletion", '"gene": _gene_deletion_worker,', '"gene": _reaction_deletion_worker,')
def m_processes_gt1_stale_objective():
    # worker forgets to undo when more than one task is handled by the same process
    src = '''
def _reaction_deletion_worker(ids):
    global _model
    for rxn_id in ids:
        _model.reactions.get_by_id(rxn_id).knock_out()
    growth, status = _get_growth(_model)
    return ids, growth, status
'''
    exec(src, DEL.__dict__)

MUT = {k[2:]: v for k, v in globals().items() if k.startswith("m_")}
if __name__ == "__main__":
    name = sys.argv[1] if len(sys.argv) > 1 else "list"
    if name == "list":
        print("\n".join(sorted(MUT)))
        sys.exit(0)
    tier = sys.argv[2] if len(sys.argv) > 2 else "quick"
    seed = int(sys.argv[3]) if len(sys.argv) > 3 else 0
    if name != "none":
        MUT[name]()
    from bcc.drivers import C06
    t = time.time()
    r = C06.run(tier, seed)
    print(f"== {name}: {len(r['failures'])} failure keys, {time.time()-t:.0f}s, evaluations {r['evaluations']}")
    for f in r["failures"]:
        print("   ", f["key"], "|", f["failure"][:260])
        try:
            rp = C06.replay(f["replay"])
        except Exception as e:
            rp = f"replay raised {e!r}"
        print("      replay ->", (rp or "PASSES")[:120])
