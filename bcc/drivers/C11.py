"""C11 — JSON, YAML, dict and pickle round trips return the same model (bounded stand-in driver).

Models: the generated models of bcc.gen_io (the same (family, seed, index) cases as C10).
Variants (save -> load), `sort` off and on where the format has the option:
  dict   : model_to_dict / model_from_dict
  json   : to_json / from_json; save_json_model / load_json_model with a str path (pretty off and on), a pathlib.Path, an
           open file handle
  yaml   : to_yaml / from_yaml; save_yaml_model / load_yaml_model with a str path and with an open file handle
           (ruamel's round-trip loader is ~40 ms per model, so each model takes two of the five YAML variants, rotating)
  pickle : pickle.dumps / loads (default protocol and protocol 2), pickle.dump / load through a file
and the same again for every fourth model under non-default Configuration().bounds, (-7, 7) and (-10000, 10000)
(the model is built, saved and loaded under that configuration; the singleton is restored in a finally block).

Checks (statement of C11, nothing more)
  * saving does not raise (every generated model is a valid model without NaN) and loading does not raise;
  * obs(load(save(m))) == obs(m), exact: obs = bcc.views.snapshot (ids, bounds incl. infinities, stoichiometry, gene rules as
    truth tables, genes, names, subsystems, notes, annotations, formulas, charges, compartments, and the LP read back from
    GLPK: variables, constraints, objective coefficients, direction; the solver-side numbers to 15 significant digits, see
    `_obs`) + model id / name / notes / annotation.
    Groups are NOT compared: the statement does not list them (the dict/JSON/YAML schema has no groups);
  * same optimum (status class and optimal value, bcc.oracle_lp.close) on the models with well-scaled data (`gen_io.tame`);
  * a second round trip changes nothing (once per format and model).

Witness protocol: every failure carries "witness" and "part".  FIXED part: gen_io.build(family, "fixed", i) for FIXED_MODELS
(min, precision, above) through all 16 variants, the first two of each family also under both non-default configurations;
witness `<key>|<family>#<i>[|cfg=(lo, hi)]|<variant>|sort=<bool>|extra=<x>`, every distinct failing witness is reported.
SEEDED part: gen_io.cases (all families); a member of an input class there has the witness "random:<class>".

Failure keys "<format>:<aspect>" (gen_io.diff_aspects: a consequence of a reported cause is not reported again).  The two
defects of the shared dict layer found on the unchanged tree have ONE key each for dict / JSON / YAML, decided on the INPUT:
  json:bounds-above-default  a reaction with lower bound > Configuration().upper_bound and loading raises ValueError
  json:direction-lost        a minimisation model comes back as maximisation
and one YAML-only defect:
  yaml:second-trip-float-digits  the YAML loader leaves ruamel ScalarFloat coefficients in the model, which ruamel writes
                             back with the last mantissa digit decremented for some doubles (second trip changes them)
"""
import io
import os
import pickle
import shutil
import tempfile
import time
import warnings
from pathlib import Path

from bcc import gen_io

KNOWN_KEYS = set()
# classes decided on the INPUT (NOTES_C11.md).  Their exact witnesses come from the FIXED, seed-independent models
# gen_io.build(family, "fixed", i) of FIXED_MODELS (all 16 variants; the first two of each family also under the two non-default
# configurations); members of a class met in the seeded part carry the witness "random:<class>"
INPUT_CLASS_KEYS = {"json:direction-lost", "json:bounds-above-default", "yaml:second-trip-float-digits"}
FIXED_MODELS = {"min": 6, "precision": 8, "above": 4, "boundsgrid": 3, "noobjective": 4}
SEEDED_CAP = 2000        # distinct witnesses kept per key from the seeded part (the fixed part is never capped)

SKIP_ASPECTS = ("groups", "group-name", "group-kind", "group-members", "group-notes", "group-annotation")
CONFIGS = [(-7.0, 7.0), (-10000.0, 10000.0)]
# the first N cases of each C10 family (YAML makes a case ~5x dearer than in C10)
PER_FAMILY = {"quick": {"plain": 400, "min": 150, "awkward": 400, "above": 40, "digits": 24, "genegroup": 16, "noname": 16,
                        "nocharge": 16, "precision": 120, "emptyreaction": 12, "noobjective": 12, "boundsgrid": 30},
              "thorough": {"plain": 3000, "min": 1000, "awkward": 3000, "above": 300, "digits": 100, "genegroup": 60, "noname": 60,
                           "nocharge": 60, "precision": 800, "emptyreaction": 40, "noobjective": 40, "boundsgrid": 200}}
YAML_VARIANTS = [("yaml-str", False, None), ("yaml-str", True, None), ("yaml-path", False, None), ("yaml-path", True, None),
                 ("yaml-handle", False, None)]


def _quiet():
    warnings.filterwarnings("ignore")
    import logging
    for nm in ("cobra", "optlang"):
        lg = logging.getLogger(nm)
        if not any(isinstance(h, logging.NullHandler) for h in lg.handlers):
            lg.addHandler(logging.NullHandler())
        lg.propagate = False


_OWNER = os.getpid()      # the process that imported the driver; forked workers inherit the value


def _tmpdir():
    return tempfile.mkdtemp(prefix=f"bcc_C11_{_OWNER}_", dir="/var/tmp")


def _sweep():
    """remove what workers that died (GLPK abort) could not remove themselves"""
    import glob
    for d in glob.glob(f"/var/tmp/bcc_C11_{_OWNER}_*"):
        shutil.rmtree(d, ignore_errors=True)


# ----------------------------------------------------------------------------------------------------------------------
def save(model, variant, sort, extra, path):
    """-> the saved artefact (object / text / path), everything `load` needs"""
    import cobra.io as cio
    if variant == "dict":
        return cio.model_to_dict(model, sort=sort)
    if variant == "json-str":
        return cio.to_json(model, sort=sort)
    if variant == "json-path":
        cio.save_json_model(model, path, sort=sort, pretty=bool(extra))
        return path
    if variant == "json-pathlib":
        cio.save_json_model(model, Path(path), sort=sort)
        return Path(path)
    if variant == "json-handle":
        with open(path, "w") as fh:
            cio.save_json_model(model, fh, sort=sort)
        return path
    if variant == "yaml-str":
        return cio.to_yaml(model, sort=sort)
    if variant == "yaml-path":
        cio.save_yaml_model(model, path, sort=sort)
        return path
    if variant == "yaml-handle":
        with open(path, "w") as fh:
            cio.save_yaml_model(model, fh, sort=sort)
        return path
    if variant == "pickle-bytes":
        return pickle.dumps(model) if extra is None else pickle.dumps(model, protocol=extra)
    if variant == "pickle-file":
        with open(path, "wb") as fh:
            pickle.dump(model, fh)
        return path
    raise ValueError(variant)


def load(art, variant):
    import cobra.io as cio
    if variant == "dict":
        return cio.model_from_dict(art)
    if variant == "json-str":
        return cio.from_json(art)
    if variant in ("json-path", "json-pathlib"):
        return cio.load_json_model(art)
    if variant == "json-handle":
        with open(art, "r") as fh:
            return cio.load_json_model(fh)
    if variant == "yaml-str":
        return cio.from_yaml(art)
    if variant == "yaml-path":
        return cio.load_yaml_model(art)
    if variant == "yaml-handle":
        with open(art, "r") as fh:
            return cio.load_yaml_model(fh)
    if variant == "pickle-bytes":
        return pickle.loads(art)
    if variant == "pickle-file":
        with open(art, "rb") as fh:
            return pickle.load(fh)
    raise ValueError(variant)


def variants_for(index, reduced=False):
    y = [YAML_VARIANTS[index % 5], YAML_VARIANTS[(index * 2 + 3) % 5]]
    if reduced:
        return [("dict", bool(index % 2), None), ("json-str", not index % 2, None), y[0], ("pickle-bytes", False, None),
                ("json-path", bool(index % 2), index % 3 == 0)]
    return [("dict", False, None), ("dict", True, None), ("json-str", False, None), ("json-str", True, None),
            ("json-path", False, False), ("json-path", True, True), ("json-pathlib", bool(index % 2), None),
            ("json-handle", not index % 2, None), y[0], y[1],
            ("pickle-bytes", False, None), ("pickle-bytes", False, 2), ("pickle-file", False, None)]


def _obs(model):
    """obs with the solver-side numbers rounded to 15 significant digits: optlang pickles the GLPK problem through GLPK's
    text format, which carries 15 digits (1e-16 relative, far below the solver tolerance).  The Python-level bounds,
    coefficients and objective coefficients stay exact."""
    o = gen_io.obs(model)
    o["lp"] = gen_io.map_floats(o["lp"], gen_io.r15)
    return o


def _has_scalarfloat(model):
    return any(type(c).__name__ == "ScalarFloat" for r in model.reactions for c in r._metabolites.values())


def _fmt(variant):
    return variant.split("-")[0]


def _exc_text(e):
    return f"{type(e).__name__}: {str(e)[:160]}"


def check_model(model, variants, tmp, tag, replay_base=None, case_id="?", seeded=False):
    """-> (n_checks, [failure dict]); witness `<key>|<case_id>|<variant>|sort=..|extra=..`, or random:<class> for a member of an
    input class met in the seeded part"""
    import cobra
    cfg = cobra.Configuration()
    fails = []
    n = 0
    above = any(r.lower_bound > cfg.upper_bound for r in model.reactions)
    o0 = _obs(model)
    is_tame = gen_io.tame(model)
    opt0 = gen_io.optimum(model) if is_tame else None
    is_min = model.objective_direction == "min"
    idem_done = set()

    def add(key, text, v):
        rp = dict(replay_base or {})
        rp.update({"variant": v[0], "sort": v[1], "extra": v[2], "key": key})
        w = (f"random:{key}" if (seeded and key in INPUT_CLASS_KEYS)
             else f"{key}|{case_id}|{v[0]}|sort={v[1]}|extra={v[2]}")
        fails.append({"key": key, "witness": w, "part": "seeded" if seeded else "fixed",
                      "failure": f"[{v[0]}, sort={v[1]}{'' if v[2] is None else ', ' + repr(v[2])}] {text}", "replay": rp})

    for k, v in enumerate(variants):
        variant, sort, extra = v
        fmt = _fmt(variant)
        dictish = fmt in ("dict", "json", "yaml")
        path = os.path.join(tmp, f"{tag}_{k}.{fmt}")
        n += 1
        try:
            art = save(model, variant, sort, extra, path)
        except Exception as e:  # noqa
            # every generated model is a valid model with finite-or-infinite (never NaN) numbers: it must be savable
            add(f"{fmt}:save-raises-{type(e).__name__}", f"saving raised {_exc_text(e)}", v)
            continue
        try:
            m1 = load(art, variant)
        except Exception as e:  # noqa
            if dictish and above and isinstance(e, ValueError) and "bound" in str(e).lower():
                add("json:bounds-above-default", f"loading raised {_exc_text(e)}", v)
            else:
                add(f"{fmt}:load-raises-{type(e).__name__}", f"loading raised {_exc_text(e)}", v)
            continue
        o1 = _obs(m1)
        d = gen_io.diff_aspects(o0, o1, skip=SKIP_ASPECTS)
        for aspect, oid, before, after in d:
            if aspect == "direction" and dictish and is_min:
                key = "json:direction-lost"
            else:
                key = f"{fmt}:{aspect}"
            add(key, f"{aspect}{'' if oid is None else ' of ' + repr(oid)}: {before!r} -> {after!r}"[:400], v)
        if not d and is_tame:
            n += 1
            opt1 = gen_io.optimum(m1)
            if not gen_io.same_optimum(opt0, opt1):
                add(f"{fmt}:optimum", f"optimum {opt0} -> {opt1} although the observation is unchanged", v)
        if fmt not in idem_done:
            idem_done.add(fmt)
            n += 1
            try:
                m2 = load(save(m1, variant, sort, extra, path + ".2"), variant)
                for aspect, oid, before, after in gen_io.diff_aspects(o1, _obs(m2), skip=SKIP_ASPECTS):
                    key = f"{fmt}:second-trip-{aspect}"
                    if fmt == "yaml" and aspect == "stoichiometry" and _has_scalarfloat(m1):
                        # the round-trip YAML loader leaves ruamel ScalarFloat coefficients in the model; ruamel re-dumps
                        # them from their remembered text format and drops a unit in the last digit of some mantissas
                        key = "yaml:second-trip-float-digits"
                    add(key, f"second round trip changes {aspect}"
                        f"{'' if oid is None else ' of ' + repr(oid)}: {before!r} -> {after!r}"[:400], v)
            except Exception as e:  # noqa
                if dictish and above and isinstance(e, ValueError):
                    pass
                else:
                    add(f"{fmt}:second-trip-raises-{type(e).__name__}", f"second round trip raised {_exc_text(e)}", v)
    return n, fails


def run_case(fam, seed, idx, config, tmp, variants=None):
    """build and check one case under `config` (None = default bounds); restores the configuration"""
    import cobra
    cfg = cobra.Configuration()
    old = cfg.bounds
    try:
        if config is not None:
            cfg.bounds = tuple(config)
        model = gen_io.build(fam, seed, idx)
        fixed = seed == "fixed"
        if variants is not None:
            vs = variants
        elif fixed:
            vs = [v for v in variants_for(idx) if not v[0].startswith("yaml")] + YAML_VARIANTS
        else:
            vs = variants_for(idx, reduced=config is not None)
        cid = (f"{fam}#{idx}" if fixed else f"{fam}@{seed}#{idx}") + ("" if config is None else f"|cfg={tuple(config)}")
        n, fails = check_model(model, vs, tmp, f"{fam}_{idx}",
                               replay_base={"kind": "model", "family": fam, "seed": seed, "index": idx,
                                            "config": list(config) if config is not None else None},
                               case_id=cid, seeded=not fixed)
        if config is not None:
            for f in fails:
                f["failure"] = f"(Configuration().bounds = {tuple(config)}) " + f["failure"]
        return model, n, fails
    finally:
        cfg.bounds = old


def _unit(args):
    _quiet()
    cases, = args
    tmp = _tmpdir()
    n = models = 0
    fails = []
    sample = None
    try:
        for (fam, seed, idx, config) in cases:
            model, k, f = run_case(fam, seed, idx, config, tmp)
            models += 1
            n += k
            fails.extend(f)
            if sample is None and fam in ("awkward", "above") and config is None:
                sample = {"family": fam, "seed": seed, "index": idx, "model": gen_io.summary(model)}
    finally:
        shutil.rmtree(tmp, ignore_errors=True)
    return {"n": n, "models": models, "fails": fails, "sample": sample}


def _chunks(lst, n):
    return [lst[i:i + n] for i in range(0, len(lst), n)]


def run(tier: str, seed: int) -> dict:
    import random
    import cobra
    _quiet()
    t0 = time.time()
    before = cobra.Configuration().bounds
    base = gen_io.cases(tier, seed, per_family=PER_FAMILY[tier])
    fixed_cases = [(fam, "fixed", i, None) for fam, k in FIXED_MODELS.items() for i in range(k)]
    fixed_cases += [(fam, "fixed", i, cfgb) for fam in FIXED_MODELS for i in range(2) for cfgb in CONFIGS]
    cases = fixed_cases + [(f, s, i, None) for f, s, i in base]
    for j, cfgb in enumerate(CONFIGS):
        cases += [(f, s, i, cfgb) for f, s, i in base if (i + j) % 4 == 0]
    random.Random(seed).shuffle(cases)
    units = [(c,) for c in _chunks(cases, 8)]
    res = []
    crashes = []
    first = gen_io.run_units(_unit, units)
    retry = []
    for u, r in zip(units, first):
        if isinstance(r, gen_io.Crashed):
            retry.extend(([c],) for c in u[0])       # find the culprit: one case per process
        else:
            res.append(r)
    if retry:
        for u, r in zip(retry, gen_io.run_units(_unit, retry)):
            if isinstance(r, gen_io.Crashed):
                fam, sd, idx, config = u[0][0]
                crashes.append({"key": "io:process-aborted", "part": "fixed" if sd == "fixed" else "seeded",
                                "witness": f"io:process-aborted|{fam}{'#' if sd == 'fixed' else '@' + str(sd) + '#'}{idx}|cfg={config}",
                                "failure": f"the process checking model ({fam}, {sd}, {idx}, config={config}) died with exit code "
                                           f"{r.exitcode}",
                                "replay": {"kind": "model", "family": fam, "seed": sd, "index": idx, "key": "io:process-aborted",
                                           "config": list(config) if config is not None else None}})
            else:
                res.append(r)
    _sweep()
    assert cobra.Configuration().bounds == before
    n = models = 0
    fails, samples = list(crashes), []
    for r in res:
        n += r["n"]
        models += r["models"]
        fails.extend(r["fails"])
        if r["sample"] and len(samples) < 3:
            samples.append(r["sample"])
    samples.sort(key=lambda s: (s["family"], s["index"]))
    per = {}
    for f in fails:
        per[f["key"]] = per.get(f["key"], 0) + 1
    # one failure per distinct witness; the fixed part is reported completely, the seeded part up to SEEDED_CAP per key
    fails.sort(key=lambda f: (f["key"], f["part"] != "fixed", len(f["witness"]), f["witness"], str(f["replay"])))
    kept, seen, n_seeded = [], set(), {}
    for f in fails:
        if f["witness"] in seen:
            continue
        if f["part"] != "fixed":
            n_seeded[f["key"]] = n_seeded.get(f["key"], 0) + 1
            if n_seeded[f["key"]] > SEEDED_CAP:
                continue
        seen.add(f["witness"])
        kept.append(f)
    return {
        "evaluations": n,
        "distinct_nontrivial": models,
        "rule": "distinct (family, seed, index, configuration) cases; each goes through 13 (5 under a non-default configuration) "
                "save/load variants, each compared (obs, optimum), plus one second trip per format",
        "bounds": {"families": {k: sum(1 for c in base if c[0] == k) for k in gen_io.FAMILIES},
                   "fixed_models": FIXED_MODELS, "fixed_cases": len(fixed_cases),
                   "cases_default_config": len(base), "cases_non_default_config": len(cases) - len(base) - len(fixed_cases),
                   "configs": CONFIGS,
                   "variants_per_model": 13, "variants_per_model_non_default_config": 5, "max_metabolites": 4,
                   "max_internal_reactions": 5, "failures_total": len(fails), "failures_per_key": per,
                   "wall_s": round(time.time() - t0, 1)},
        "exhaustive": False,
        "samples": samples[:3],
        "failures": kept,
    }


def _replay_inner(p):
    _quiet()
    tmp = _tmpdir()
    try:
        v = [(p["variant"], bool(p["sort"]), p.get("extra"))] if p.get("variant") else None
        _, _, fails = run_case(p["family"], p["seed"], p["index"], p.get("config"), tmp, variants=v)
    finally:
        shutil.rmtree(tmp, ignore_errors=True)
    hit = [f for f in fails if f["key"] == p.get("key")] or fails
    return hit[0]["failure"] if hit else None


def replay(payload_replay: dict):
    """runs in a forked child (a replayed case may abort the process, and the Configuration singleton stays untouched)"""
    r = gen_io.run_units(_replay_inner, [payload_replay], nproc=1)[0]
    _sweep()
    if isinstance(r, gen_io.Crashed):
        return f"the checking process died with exit code {r.exitcode}"
    return r
