"""C13 (bounded tier) - analyses leave the model exactly as they found it.

case = (model, analysis variant, called inside a user context?)
  model      hand-made chains (feasible, min direction, reversed exchange, forced flux, internal cycle, infeasible,
             unbounded objective, bounded objective with unbounded cycle, zero objective, blocked objective, single reaction)
             and generated random models classified by their status (optimal / infeasible / unbounded), every one decorated
             (notes, groups, user variable + constraints, compartments, a knocked-out gene, min or max direction)
  analysis   every analysis of the statement with several argument combinations (processes 1 and 2 where there is such an
             argument), including combinations that raise (QP methods on GLPK, max_tries=1, unreachable targets, ...)
  context    outside any context, or inside `with model:` after pending changes (bound change + gene knock-out)

checks per case
  1  flat observation (content, bounds, genes' functional flag, raw GLPK rows / columns / objective / direction, reported
     objective, tolerances, number of open contexts) before == after, whether the call returns or raises
  2  a second call gives the same uniquely defined quantities (statuses, optimal values, ranges, growth rates, sets) and
     the same kind of outcome (returns / raises the same exception type)
  3  inside a user context: after leaving the user's context the model is what it was before entering it (the analysis
     must not have disturbed the pending context); only when the same enter / change / exit without the analysis restores
     the model (control)
"""
import math
import random
import time

from .. import gen
from ..c12_common import quiet, flat_obs, diff_obs, fmt_diff, decorate, run_tasks, collect_failures
from ..oracle_lp import close

KNOWN_KEYS = set()
INF = float("inf")

HAND = ("chain", "chain_min", "chain_rev", "forced", "cycle", "infeasible", "unbounded", "part_unbounded", "zero_objective",
        "blocked_objective", "single", "no_genes")


# ------------------------------------------------------------------------------------------------ models
def make_model(spec, decorated=True):
    """spec = ['hand', name] | ['rnd', int]"""
    quiet()
    import cobra
    kind, k = spec
    rng = random.Random(f"C13-model-{kind}-{k}")
    if kind == "shipped":
        from cobra.io import load_model
        return load_model(k)
    if kind == "rnd":
        m = gen.random_model(rng, n_mets=rng.randint(2, 4), n_rxns=rng.randint(2, 5),
                             bounds=gen.BOUNDS if rng.random() < 0.6 else gen.SAFE_BOUNDS, with_groups=True)
    else:
        rules = {"R0": "g1 and g2", "R1": "g1 or g3", "EX_out": "g4"}
        if k == "chain":
            m = gen.linear_chain(2, rules=rules)
        elif k == "chain_min":
            m = gen.linear_chain(2, rules=rules, bounds={"EX_out": (1.0, 1000.0)}, direction="min")
        elif k == "chain_rev":
            m = gen.linear_chain(2, rules=rules, reverse_exchange=True)
        elif k == "forced":
            m = gen.linear_chain(3, rules=rules, bounds={"R1": (2.0, 5.0)}, objective="R2")
        elif k == "cycle":
            m = gen.linear_chain(3, cyc=True, rules=rules)
        elif k == "infeasible":
            m = gen.linear_chain(2, rules=rules, bounds={"R1": (20.0, 30.0)})
        elif k == "unbounded":
            m = gen.linear_chain(2, rules=rules, bounds={"EX_m0": (-INF, INF), "R0": (0.0, INF), "R1": (0.0, INF),
                                                         "EX_out": (0.0, INF)})
        elif k == "part_unbounded":
            m = gen.linear_chain(3, cyc=True, rules=rules, bounds={"CYC": (-INF, INF), "R0": (0.0, INF), "R1": (0.0, INF)})
        elif k == "zero_objective":
            m = gen.linear_chain(2, rules=rules)
            m.objective = m.problem.Objective(0, direction="max")
        elif k == "blocked_objective":
            m = gen.linear_chain(2, rules=rules, bounds={"EX_out": (0.0, 0.0)})
        elif k == "single":
            m = cobra.Model("single")
            r = cobra.Reaction("EX_a", lower_bound=-5.0, upper_bound=7.0)
            r.add_metabolites({cobra.Metabolite("a_e", compartment="e"): -1.0})
            r.gene_reaction_rule = "g1"
            m.add_reactions([r])
            m.objective = r
        elif k == "no_genes":
            m = gen.linear_chain(2)
        else:
            raise ValueError(k)
        from cobra.core import Group
        m.add_groups([Group("grp1", members=list(m.reactions[:1]))])
    if decorated:
        has_genes = bool(m.genes)
        if has_genes:
            decorate(m, rng, user_cons=(k not in ("single", "unbounded", "part_unbounded")) and rng.random() < 0.7,
                     knock=False, second_group=True)
    return m


def classify(m):
    m.slim_optimize()
    return m.solver.status


def model_specs(tier, seed):
    """hand-made ones + random ones, balanced over statuses"""
    want = {"optimal": 5, "infeasible": 2, "unbounded": 2} if tier == "quick" else {"optimal": 30, "infeasible": 8, "unbounded": 8}
    specs = [["hand", h] for h in HAND]
    if tier != "quick":
        specs += [["shipped", "textbook"]]
    got = {k: 0 for k in want}
    k = seed * 10000
    while any(got[c] < want[c] for c in want) and k < seed * 10000 + 3000:
        st = classify(make_model(["rnd", k]))
        if st in got and got[st] < want[st]:
            got[st] += 1
            specs.append(["rnd", k])
        k += 1
    return specs


# ------------------------------------------------------------------------------------------------ quantities
def num(x):
    if x is None:
        return None
    x = float(x)
    return "nan" if math.isnan(x) else x


def same(a, b):
    if isinstance(a, dict) and isinstance(b, dict):
        return set(a) == set(b) and all(same(a[k], b[k]) for k in a)
    if isinstance(a, (list, tuple)) and isinstance(b, (list, tuple)):
        return len(a) == len(b) and all(same(x, y) for x, y in zip(a, b))
    if isinstance(a, bool) or isinstance(b, bool) or isinstance(a, str) or isinstance(b, str) or a is None or b is None:
        return a == b
    if isinstance(a, (int, float)) and isinstance(b, (int, float)):
        return close(a, b)
    return a == b


def frame(df, cols=None):
    out = {}
    for idx, row in df.iterrows():
        key = idx if isinstance(idx, str) else repr(sorted(idx) if isinstance(idx, (set, frozenset)) else idx)
        out[key] = {c: (num(row[c]) if isinstance(row[c], (int, float)) or hasattr(row[c], "dtype") else
                        (sorted(row[c]) if isinstance(row[c], (set, frozenset)) else str(row[c])))
                    for c in (cols or df.columns)}
    return out


def deletion_frame(df, growth=True):
    """growth=False (MOMA / ROOM based deletions): the reported growth is the value of the old objective at ONE optimum of
    the MOMA / ROOM problem (and the reference is a pFBA vertex when no solution is given); it is not uniquely defined and
    does vary with the solver's warm start - only the statuses are compared"""
    out = {}
    for _, row in df.iterrows():
        out[repr(sorted(row["ids"]))] = (row["status"], num(row["growth"]) if growth and row["status"] == "optimal" else None)
    return out


def sol(s):
    return (s.status, num(s.objective_value) if s.status == "optimal" else None)


def _ids(xs):
    return sorted(x.id for x in xs)


def _assess_result(r):
    if isinstance(r, dict):
        return {getattr(k, "id", k): _assess_result(v) for k, v in r.items()}
    if isinstance(r, float):
        return num(r)
    return r


# ------------------------------------------------------------------------------------------------ analyses
def analyses(tier):
    """-> {label: callable(model, ref) -> quantities}; ref = an independent, identical model used to prepare inputs
    (reference solutions, universal models) without touching the model under observation."""
    import cobra
    from cobra import flux_analysis as fa
    from cobra.flux_analysis import reaction as far
    from cobra.flux_analysis import gapfilling
    from cobra.medium import minimal_medium
    from cobra.sampling import sample
    A = {}

    def ex(m):
        return [r for r in m.reactions if r.boundary]

    # optimisation
    for sense in (None, "maximize", "minimize"):
        for raise_error in (False, True):
            A[f"optimize:sense={sense},raise_error={raise_error}"] = \
                lambda m, ref, s=sense, e=raise_error: sol(m.optimize(objective_sense=s, raise_error=e))
    A["slim_optimize:default"] = lambda m, ref: num(m.slim_optimize())
    A["slim_optimize:error_value=None"] = lambda m, ref: num(m.slim_optimize(error_value=None))
    # FVA
    for loopless in (False, True):
        for frac, pf in ((1.0, None), (0.5, None), (0.9, 1.5), (1.0, 1.0)):
            for proc in (1, 2):
                if proc == 2 and (frac, pf) not in ((1.0, None), (0.9, 1.5)):
                    continue
                A[f"flux_variability_analysis:loopless={loopless},fraction={frac},pfba_factor={pf},processes={proc}"] = \
                    lambda m, ref, l=loopless, f=frac, p=pf, n=proc: frame(fa.flux_variability_analysis(
                        m, loopless=l, fraction_of_optimum=f, pfba_factor=p, processes=n))
    A["flux_variability_analysis:reaction_list,processes=1"] = lambda m, ref: frame(fa.flux_variability_analysis(
        m, reaction_list=[m.reactions[0], m.reactions[-1].id], fraction_of_optimum=0.0, processes=1))
    for oe in (False, True):
        for proc in (1, 2):
            A[f"find_blocked_reactions:open_exchanges={oe},processes={proc}"] = \
                lambda m, ref, o=oe, n=proc: sorted(fa.find_blocked_reactions(m, open_exchanges=o, processes=n))
    A["find_blocked_reactions:reaction_list,zero_cutoff"] = lambda m, ref: sorted(fa.find_blocked_reactions(
        m, reaction_list=list(m.reactions[:2]), zero_cutoff=1e-3, processes=1))
    for proc in (1, 2):
        A[f"find_essential_genes:processes={proc}"] = lambda m, ref, n=proc: _ids(fa.find_essential_genes(m, processes=n))
        A[f"find_essential_reactions:processes={proc}"] = lambda m, ref, n=proc: _ids(fa.find_essential_reactions(m, processes=n))
    A["find_essential_genes:threshold"] = lambda m, ref: _ids(fa.find_essential_genes(m, threshold=0.5, processes=1))
    A["find_essential_reactions:threshold"] = lambda m, ref: _ids(fa.find_essential_reactions(m, threshold=0.5, processes=1))
    # pFBA, MOMA, ROOM, geometric, loopless
    A["pfba:default"] = lambda m, ref: sol(fa.pfba(m))
    A["pfba:fraction=0.5"] = lambda m, ref: sol(fa.pfba(m, fraction_of_optimum=0.5))
    A["pfba:objective,reactions"] = lambda m, ref: sol(fa.pfba(m, objective=m.reactions[-1], reactions=list(m.reactions[:2])))
    A["moma:linear,solution"] = lambda m, ref: sol(fa.moma(m, solution=ref.optimize(), linear=True))
    A["moma:linear,default-solution"] = lambda m, ref: fa.moma(m, linear=True).status
    A["moma:quadratic"] = lambda m, ref: sol(fa.moma(m, solution=ref.optimize(), linear=False))
    A["room:milp,solution"] = lambda m, ref: sol(fa.room(m, solution=ref.optimize(), linear=False))
    A["room:linear,solution"] = lambda m, ref: sol(fa.room(m, solution=ref.optimize(), linear=True, delta=0.1, epsilon=0.01))
    A["room:default-solution"] = lambda m, ref: fa.room(m, linear=True).status
    A["geometric_fba:default"] = lambda m, ref: sol(fa.geometric_fba(m, processes=1))
    A["geometric_fba:max_tries=1"] = lambda m, ref: sol(fa.geometric_fba(m, max_tries=1, processes=1))
    A["geometric_fba:processes=2"] = lambda m, ref: sol(fa.geometric_fba(m, processes=2))
    A["loopless_solution:default"] = lambda m, ref: sol(fa.loopless_solution(m))
    A["loopless_solution:fluxes"] = lambda m, ref: sol(fa.loopless_solution(m, fluxes=ref.optimize().fluxes.to_dict()))
    # deletions
    for method in ("fba", "linear moma", "linear room", "room", "moma"):
        for proc in (1, 2):
            if proc == 2 and method not in ("fba", "linear moma"):
                continue
            A[f"single_gene_deletion:method={method},processes={proc}"] = \
                lambda m, ref, me=method, n=proc: deletion_frame(fa.single_gene_deletion(m, method=me, processes=n), me == "fba")
            A[f"single_reaction_deletion:method={method},processes={proc}"] = \
                lambda m, ref, me=method, n=proc: deletion_frame(fa.single_reaction_deletion(m, method=me, processes=n), me == "fba")
    A["single_gene_deletion:gene_list,solution"] = lambda m, ref: deletion_frame(fa.single_gene_deletion(
        m, gene_list=list(m.genes[:2]), method="linear moma", solution=ref.optimize(), processes=1), False)
    A["single_reaction_deletion:reaction_list"] = lambda m, ref: deletion_frame(fa.single_reaction_deletion(
        m, reaction_list=[m.reactions[0].id], processes=1))
    for proc in (1, 2):
        A[f"double_gene_deletion:processes={proc}"] = lambda m, ref, n=proc: deletion_frame(fa.double_gene_deletion(
            m, gene_list1=list(m.genes[:3]), processes=n))
        A[f"double_reaction_deletion:processes={proc}"] = lambda m, ref, n=proc: deletion_frame(fa.double_reaction_deletion(
            m, reaction_list1=list(m.reactions[:3]), reaction_list2=list(m.reactions[1:4]), processes=n))
    A["double_reaction_deletion:method=linear room"] = lambda m, ref: deletion_frame(fa.double_reaction_deletion(
        m, reaction_list1=list(m.reactions[:2]), method="linear room", processes=1), False)
    # production envelope
    A["production_envelope:default"] = lambda m, ref: frame(fa.production_envelope(m, reactions=[ex(m)[0]], points=3),
                                                            ["flux_minimum", "flux_maximum"])
    A["production_envelope:objective,carbon_sources"] = lambda m, ref: frame(fa.production_envelope(
        m, reactions=[m.reactions[0]], objective=m.reactions[-1], carbon_sources=[ex(m)[0]], points=4, threshold=1e-6),
        ["flux_minimum", "flux_maximum"])
    A["production_envelope:two-reactions"] = lambda m, ref: frame(fa.production_envelope(
        m, reactions=list(m.reactions[:2]), points=3), ["flux_minimum", "flux_maximum"])
    # assess
    for cut in (0.001, 1e6):
        A[f"assess:cutoff={cut}"] = lambda m, ref, c=cut: _assess_result(far.assess(m, m.reactions[-1], flux_coefficient_cutoff=c))
        A[f"assess:first,cutoff={cut}"] = lambda m, ref, c=cut: _assess_result(far.assess(m, m.reactions[0].id, flux_coefficient_cutoff=c))
        for side in ("reactants", "products"):
            A[f"assess_component:side={side},cutoff={cut}"] = lambda m, ref, c=cut, s=side: _assess_result(
                far.assess_component(m, m.reactions[-1], s, flux_coefficient_cutoff=c))
    A["assess_precursors:cutoff=1e6"] = lambda m, ref: _assess_result(far.assess_precursors(m, m.reactions[-1], 1e6))
    A["assess_products:cutoff=1e6"] = lambda m, ref: _assess_result(far.assess_products(m, m.reactions[-1], 1e6))
    # minimal medium

    def mm(m, **kw):
        r = minimal_medium(m, **kw)
        if r is None:
            return None
        if hasattr(r, "columns"):
            return ("frame", int((r != 0).any(axis=1).sum() >= 0), len(r.columns))
        # uniquely defined: the minimised total import (exports are not part of the objective), resp. the number of components
        return ("series", num(r[r > 0].sum()) if not kw.get("minimize_components") else int((r > 0).sum()))
    A["minimal_medium:lp"] = lambda m, ref: mm(m, min_objective_value=0.1)
    A["minimal_medium:lp,exports,open"] = lambda m, ref: mm(m, min_objective_value=0.5, exports=True, open_exchanges=True)
    A["minimal_medium:unreachable"] = lambda m, ref: mm(m, min_objective_value=1e9)
    A["minimal_medium:mip"] = lambda m, ref: mm(m, min_objective_value=0.1, minimize_components=True)
    A["minimal_medium:mip,2,open=50"] = lambda m, ref: mm(m, min_objective_value=0.1, minimize_components=2, open_exchanges=50)
    A["minimal_medium:mip,unreachable"] = lambda m, ref: mm(m, min_objective_value=1e9, minimize_components=True)
    # gapfilling

    def universal(ref):
        u = cobra.Model("universal")
        rs = []
        for i, met in enumerate(ref.metabolites):
            r = cobra.Reaction(f"U_T{i}", lower_bound=-1000.0, upper_bound=1000.0)
            r.add_metabolites({cobra.Metabolite(met.id, compartment=met.compartment): -1.0})
            rs.append(r)
        if len(ref.metabolites) >= 2:
            r = cobra.Reaction("U_C", lower_bound=0.0, upper_bound=1000.0)
            r.add_metabolites({cobra.Metabolite(ref.metabolites[0].id, compartment="c"): -1.0,
                               cobra.Metabolite(ref.metabolites[-1].id, compartment="c"): 1.0})
            rs.append(r)
        u.add_reactions(rs)
        return u

    def gf(m, ref, **kw):
        r = gapfilling.gapfill(m, universal(ref), **kw)
        return len(r)
    A["gapfill:default"] = lambda m, ref: gf(m, ref)
    A["gapfill:no-demand,exchange,iterations=2"] = lambda m, ref: gf(m, ref, demand_reactions=False, exchange_reactions=True,
                                                                     iterations=2)
    A["gapfill:lower_bound=1e7"] = lambda m, ref: gf(m, ref, lower_bound=1e7)
    A["gapfill:no-universal"] = lambda m, ref: len(gapfilling.gapfill(m, None, demand_reactions=True))
    A["gapfill:penalties"] = lambda m, ref: gf(m, ref, penalties={"universal": 2, "demand": 50, "U_C": 7})
    # fastcc
    A["fastcc:default"] = lambda m, ref: _ids(fa.fastcc(m).reactions)
    A["fastcc:threshold=0.1,cutoff"] = lambda m, ref: _ids(fa.fastcc(m, flux_threshold=0.1, zero_cutoff=1e-5).reactions)
    # sampling
    for method in ("achr", "optgp"):
        for proc in ((1,) if method == "achr" else (1, 2)):
            A[f"sample:method={method},processes={proc}"] = \
                lambda m, ref, me=method, n=proc: tuple(sample(m, 3, method=me, thinning=2, processes=n, seed=11).shape)
    A["sample:bad-method"] = lambda m, ref: tuple(sample(m, 2, method="nope").shape)
    # summaries

    def summ(s):
        s.to_frame()
        return "ok"
    A["model.summary:default"] = lambda m, ref: summ(m.summary())
    A["model.summary:fva=0.9"] = lambda m, ref: summ(m.summary(fva=0.9))
    A["model.summary:solution"] = lambda m, ref: summ(m.summary(solution=ref.optimize()))
    A["metabolite.summary:default"] = lambda m, ref: summ(m.metabolites[0].summary())
    A["metabolite.summary:fva=0.95"] = lambda m, ref: summ(m.metabolites[-1].summary(fva=0.95))
    A["reaction.summary:default"] = lambda m, ref: summ(m.reactions[0].summary())
    A["reaction.summary:fva=0.9"] = lambda m, ref: summ(m.reactions[-1].summary(fva=0.9))
    return A


# quantities that are NOT uniquely defined are not compared between the two calls: only the kind of outcome is
REPEAT_OUTCOME_ONLY = ("gapfill:", "fastcc:")
BIG_M = ("room:", "gapfill:", "minimal_medium:mip")
# on the shipped models (thorough tier) the variants that solve one MILP per gene / reaction or many loopless LPs are left out
SHIPPED_SKIP = ("method=room", "method=linear room", "method=moma", "room:milp", "loopless=True,fraction=0.5",
                "loopless=True,fraction=0.9", "loopless=True,fraction=1.0,pfba_factor=1.0", "gapfill:no-demand",
                "gapfill:penalties", "minimal_medium:mip,2", "geometric_fba:processes=2")

_A = {}


def get_analyses(tier="quick"):
    if tier not in _A:
        _A[tier] = analyses(tier)
    return _A[tier]


# ------------------------------------------------------------------------------------------------ the case
def _area(d):
    cls, _, field = d[0], d[1], d[2]
    if field in ("objective", "direction"):
        return "objective"
    if (cls, field) in (("lp", "variable"), ("reaction", "bounds")):
        return "bounds"
    if cls == "lp":
        return "constraints"
    if cls == "contexts":
        return "context-stack"
    if cls == "gene" and field == "functional":
        return "gene-state"
    if cls == "solver" or (cls, field) == ("model", "tolerance"):
        return "solver-configuration"
    return "content"


def obs(model):
    o = flat_obs(model, with_opt=False, with_ctx=False)
    o[("contexts", "", "open")] = len(model._contexts)
    return o


def pending_changes(model):
    """the user's pending changes inside the context: a bound change and a gene knock-out (both plainly undoable)"""
    r = model.reactions[-1]
    ub = r.upper_bound
    r.upper_bound = max(r.lower_bound, ub * 0.5) if 0 < ub < INF else ub
    if model.genes:
        model.genes[-1].knock_out()


def call(fn, model, ref):
    try:
        return ("returned", fn(model, ref))
    except BaseException as e:  # noqa  (an analysis that raises is fine)
        if isinstance(e, (KeyboardInterrupt, SystemExit, MemoryError)):
            raise
        return ("raised", type(e).__name__)


def run_case(spec, label, ctx):
    """-> ({key: text}, info)"""
    quiet()
    fn = get_analyses()[label]
    name = label.split(":")[0]
    fails = {}
    model = make_model(spec)
    if label.startswith(BIG_M) or "room" in label:
        if any(math.isinf(b) for r in model.reactions for b in r.bounds):
            # ROOM, gapfilling and the MIP minimal medium put the bounds into constraint coefficients (big-M): with an
            # infinite bound GLPK aborts the whole process (glp_set_sjj: invalid scale factor) - a crash of the solver
            # library on an input outside these formulations' domain, not a statement about the model being left
            # unchanged; see NOTES_C13.md
            return {}, {"outcome": "skipped", "detail": "big-M formulation with infinite bounds", "control_ok": True}
    ref = make_model(spec)
    pre = obs(model)
    control_ok = True
    if ctx:
        # control: does entering, changing and leaving restore the model without any analysis?
        with model:
            pending_changes(model)
        control_ok = not diff_obs(pre, obs(model))
        model = make_model(spec)
        pre = obs(model)
        model.__enter__()
        pending_changes(model)
        ref.__enter__()
        pending_changes(ref)
    before = obs(model)
    r1 = call(fn, model, ref)
    after = obs(model)
    d = diff_obs(before, after)
    if d:
        by = {}
        for x in d:
            by.setdefault(_area(x), []).append(x)
        for area, xs in by.items():
            fails[f"{name}:model-changed:{area}"] = (f"{label} on {spec} ({'inside' if ctx else 'outside'} a user context; the call "
                                                     f"{r1[0]} {r1[1] if r1[0] == 'raised' else ''}) left the model changed: {fmt_diff(xs)}")
    r2 = call(fn, model, ref)
    if not d:
        d2 = diff_obs(before, obs(model))
        if d2:
            fails[f"{name}:model-changed-by-second-call"] = f"{label} on {spec}: second call left the model changed: {fmt_diff(d2)}"
    if r1[0] != r2[0] or (r1[0] == "raised" and r1[1] != r2[1]):
        # Whether an analysis that fails part-way raises at all can depend on the optimal vertex the solver happens to return
        # (find_blocked_reactions pre-filters by the current solution: on the chain with an unbounded cycle the first call
        # meets the unbounded reaction and raises, the second one filters it out and returns []). A call that raises yields no
        # quantities to compare, so a different KIND of outcome is reported for the fixed models only (deterministic, listed
        # witness by witness), not for the models drawn from the seed.
        if spec[0] != "rnd":
            fails[f"{name}:not-repeatable:{r1[0]}-then-{r2[0]}"] = \
                f"{label} on {spec}: first call {r1[0]} {str(r1[1])[:120]}, second call {r2[0]} {str(r2[1])[:120]}"
    elif r1[0] == "returned" and not label.startswith(REPEAT_OUTCOME_ONLY) and not same(r1[1], r2[1]):
        fails[f"{name}:not-repeatable"] = f"{label} on {spec}: first call gave {str(r1[1])[:300]}, second call {str(r2[1])[:300]}"
    if ctx:
        try:
            model.__exit__(None, None, None)
        except Exception as e:  # noqa
            fails[f"{name}:user-context-disturbed"] = f"{label} on {spec}: leaving the user's context afterwards raised {e!r}"
        if control_ok and not d:
            d3 = diff_obs(pre, obs(model))
            if d3:
                fails[f"{name}:user-context-disturbed"] = (f"{label} on {spec} called inside a user context: after leaving the "
                                                           f"context the model is not what it was before entering: {fmt_diff(d3)}")
    return fails, {"outcome": r1[0], "detail": r1[1] if r1[0] == "raised" else None, "control_ok": control_ok}


def _run_task(task):
    f, info = run_case(task["model"], task["analysis"], task["ctx"])
    return task, f, info


def tasks_for(tier, seed):
    specs = model_specs(tier, seed)
    labels = sorted(get_analyses())
    tasks = []
    for spec in specs:
        for lab in labels:
            if spec[0] == "shipped" and any(x in lab for x in SHIPPED_SKIP):
                continue
            for ctx in (False, True):
                tasks.append({"model": spec, "analysis": lab, "ctx": ctx})
    return tasks, specs


def is_fixed(task):
    """hand-made and shipped models are the FIXED part (the same for every seed), random models the SEEDED part"""
    return task["model"][0] != "rnd"


def witness(task):
    return f"{task['model'][0]}:{task['model'][1]}|{task['analysis']}|ctx{int(task['ctx'])}"


def execute(tasks, tier="quick", seed=0):
    """run the tasks in the fork pool -> (failures list, number executed, number non-trivial, outcome table)"""
    order = list(range(len(tasks)))
    random.Random(seed).shuffle(order)
    shuffled = [tasks[i] for i in order]
    res = run_tasks(_run_task, shuffled, nproc=16, task_timeout=240 if tier == "quick" else 900)
    items = []
    outcomes = {}
    distinct = 0
    for task, (status, val) in zip(shuffled, res):
        if status != "ok":
            f = {f"{task['analysis'].split(':')[0]}:{status}": f"task {task} ended with {status}: {val}"}
        else:
            _, f, info = val
            distinct += info["outcome"] != "skipped"
            o = outcomes.setdefault(task["analysis"].split(":")[0], {"returned": 0, "raised": 0, "skipped": 0})
            o[info["outcome"]] += 1
        items.append((is_fixed(task), witness(task), task, f))
    return collect_failures(items), len(res), distinct, outcomes


def run(tier="quick", seed=0):
    quiet()
    import cobra  # noqa: F401
    t0 = time.time()
    tasks, specs = tasks_for(tier, seed)
    out_f, n, distinct, outcomes = execute(tasks, tier, seed)
    return {
        "evaluations": n,
        "distinct_nontrivial": distinct,
        "rule": "case = (model, analysis with one argument combination, inside/outside a user context); each runs the analysis "
                "twice; distinct by construction; non-trivial = the case ran to the end (the analysis returned or raised; "
                "big-M formulations on models with infinite bounds are skipped and not counted). Fixed part: hand-made (and, "
                "thorough, shipped) models - every failing witness reported; seeded part: random models drawn from the seed - "
                "one entry per class, witness random:<class>",
        "bounds": {"models": len(specs), "hand_made": len(HAND), "random": len(specs) - len(HAND),
                   "analysis_variants": len(get_analyses()), "analyses": len({a.split(':')[0] for a in get_analyses()}),
                   "contexts": 2, "outcomes": outcomes, "seconds": round(time.time() - t0, 1)},
        "exhaustive": False,
        "samples": [tasks[0], tasks[len(tasks) // 2], tasks[-1]],
        "failures": out_f,
    }


def replay(payload):
    quiet()
    f, _ = run_case(payload["model"], payload["analysis"], payload["ctx"])
    key = payload.get("key")
    if key is None:
        return "; ".join(f"{k}: {v}" for k, v in f.items()) or None
    return f.get(key)
