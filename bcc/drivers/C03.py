"""C03 (bounded stand-in): leaving a `with model:` block restores the model completely.

Oracle: `bcc.views.snapshot(model)` (objects, cross-references, raw GLPK problem) taken right after `model.__enter__()`
of every block and compared after the `__exit__` of THAT block (modulo list order), `__exit__` does not raise,
`check_xref` / `check_lp_reported` report nothing new.  Histories are sequences of documented-as-reversible operations
(`bcc.context_c03.alphabet`) in 1-3 nested blocks that are left normally or by an exception (a sentinel at the end of
a block, or the exception an operation raises naturally, propagating or caught).

A failing history is shrunk to a 1-minimal failing sub-history, and that one is attributed to a defect by running it
under the candidate repairs of `bcc.context_c03.REPAIRS` (in-process wrappers around the current cobra code, never
applied to /repo): the key of a failure is the key of the single repair under which its minimal history passes (one
defect -> one key, e.g. ``nested:undo-recorded-in-enclosing-context``), or - when no repair explains it - the structural
rendering of the minimal history with coarse operation kinds (e.g. ``W[bounds,W[objective_direction]!]``).
"""
import hashlib
import json
import multiprocessing
import os
import random
import subprocess
import sys
import tempfile
import time
import warnings

warnings.filterwarnings("ignore")

from bcc import context_c03 as C  # noqa: E402

KNOWN_KEYS = set()  # maintained by the main builder
PROCESSES = 16

RECIPES = {
    "toy": {"kind": "toy"},
    "toy-min2": {"kind": "toy", "args": {"objective": {"DM_c_c": 1.0, "R1": -2.0}, "direction": "min",
                                        "bounds": {"R1": [1.0, 10.0], "R2": [-5.0, 1000.0]}}},
    "chain": {"kind": "chain", "args": {"n_internal": 2, "cyc": True,
                                       "rules": {"R0": "g1", "R1": "g1 and g2", "CYC": "g2 or g3"}}},
    "chain-rev": {"kind": "chain", "args": {"n_internal": 2, "reverse_exchange": True, "direction": "min",
                                           "objective": "R1", "rules": {"R0": "g1 or g2", "EX_out": "g2"}}},
    "toy-group": {"kind": "toy", "args": {"group": True}},
    # a model that already carries a fixed-objective constraint and a knocked-out gene when the block is entered
    "toy-fixed": {"kind": "toy", "pre": [{"op": "fix_objective", "k": "fix_objective_as_constraint", "fraction": 0.5},
                                         {"op": "g_knock_out", "k": "gene.knock_out", "g": "g3"}]},
    # a model that already carries a user variable and a user constraint over two reactions
    "toy-user": {"kind": "toy", "pre": [{"op": "add_cons_vars", "k": "add_cons_vars", "what": [
        {"t": "var", "name": "uv1", "lb": 0.0, "ub": 5.0},
        {"t": "cons", "name": "uc1", "expr": {"R1": 1.0, "DM_c_c": -2.0, "var:uv1": 1.0}, "lb": 0.0, "ub": 3.0}]}]},
}


def _random_recipe(rng):
    return {"kind": "random", "seed": rng.randrange(10 ** 6),
            "args": {"n_mets": rng.choice([2, 3, 3]), "n_rxns": rng.choice([2, 3, 3]),
                     "bounds": rng.choice(["SAFE", "SAFE", "ALL"]), "with_groups": False}}


_ALPHA = {}


def _alphabet(recipe):
    key = json.dumps(recipe, sort_keys=True)
    if key not in _ALPHA:
        m = C.build_model(recipe)
        full = C.alphabet(m)
        core = [{k: v for k, v in a.items() if k != "core"} for a in full if a.get("core")]
        full = [{k: v for k, v in a.items() if k != "core"} for a in full]
        _ALPHA[key] = (full, core)
    return _ALPHA[key]


def W(items, exit="normal", catch=False):
    b = {"with": list(items), "exit": exit}
    if catch:
        b["catch"] = True
    return b


def c_(op):
    return {**op, "catch": True}


def single_shapes(a):
    return [W([a]), W([a], "raise"), W([c_(a)]), W([W([a])]), W([W([a], "raise")]), W([W([a], "raise", True)]),
            W([W([W([a])])]), W([W([c_(a)]), ], "raise")]


def pair_shapes(a, b):
    ca, cb = c_(a), c_(b)
    return [W([ca, cb]), W([ca, b], "raise"),
            W([W([ca, cb])]), W([W([ca, b], "raise")]),
            W([ca, W([cb])]), W([ca, W([b], "raise")]),
            W([W([ca]), cb]), W([W([ca], "raise", True), b], "raise")]


def triple_shapes(a, b, c):
    ca, cb, cc = c_(a), c_(b), c_(c)
    return [W([ca, cb, cc]), W([W([ca, cb, cc])]), W([ca, W([cb, W([cc])])]), W([W([W([ca]), cb]), cc]),
            W([ca, W([cb]), cc], "raise"), W([W([ca, cb], "raise", True), c], "raise")]


def random_prog(rng, ops, max_ops, max_depth=3):
    n = rng.randint(2, max_ops)
    seq = [rng.choice(ops) for _ in range(n)]

    def build(items, depth):
        out = []
        i = 0
        while i < len(items):
            if depth < max_depth and rng.random() < 0.35:
                j = rng.randint(i + 1, len(items))
                out.append(build(items[i:j], depth + 1))
                i = j
            else:
                op = items[i]
                out.append(c_(op) if rng.random() < 0.8 else op)
                i += 1
        return W(out, "raise" if rng.random() < 0.3 else "normal", catch=rng.random() < 0.7)
    top = build(seq, 1)
    top.pop("catch", None)
    return top


# ---------------------------------------------------------------------------------------------------------------------
def _cases(tier, seed):
    """-> list of (family, case).  Families depth1 / depth2 / depth3 do not depend on the seed (fixed models, exhaustive
    over the stated alphabet and shapes); random1 (depth 1 on seeded random models) and random (seeded histories) do.
    The enumerated part of thorough contains the enumerated part of quick."""
    rng = random.Random(seed * 7919 + (0 if tier == "quick" else 1))
    cases = []
    single_models = ["toy", "toy-min2", "chain", "chain-rev", "toy-group", "toy-fixed", "toy-user"]
    rnd_recipes = [_random_recipe(rng) for _ in range(3 if tier == "quick" else 8)]
    # exhaustive depth 1, full alphabet, all shapes
    for n in single_models:
        rec = RECIPES[n]
        full, core = _alphabet(rec)
        for a in full:
            for p in single_shapes(a):
                cases.append(("depth1", {"model": rec, "prog": p}))
    for rec in rnd_recipes:
        full, core = _alphabet(rec)
        for a in full:
            for i, p in enumerate(single_shapes(a)):
                if tier != "quick" or i in (0, 3, 5, 7):
                    cases.append(("random1", {"model": rec, "prog": p}))
    # exhaustive depth 2: (model, alphabet, shapes)
    if tier == "quick":
        plan = [("toy", "core", (0, 3, 4, 6, 7)), ("chain", "core", (2,))]
    else:
        plan = [("toy", "full", range(8)), ("chain", "full", range(8)), ("toy-min2", "core", range(8)),
                ("toy-user", "core", range(8)), ("toy-fixed", "core", (0, 3, 4, 6))]
    for n, which, shapes in plan:
        rec = RECIPES[n]
        full, core = _alphabet(rec)
        left = core if which == "core" else full
        for a in left:
            for b in left:
                ps = pair_shapes(a, b)
                for i in shapes:
                    cases.append(("depth2", {"model": rec, "prog": ps[i]}))
    # exhaustive depth 3 over a reduced alphabet (thorough)
    if tier != "quick":
        rec = RECIPES["toy"]
        full, core = _alphabet(rec)
        red = _reduced(core)
        for a in red:
            for b in red:
                for c in red:
                    for p in triple_shapes(a, b, c):
                        cases.append(("depth3", {"model": rec, "prog": p}))
    # seeded random histories
    n_random = 3000 if tier == "quick" else 100000
    pool = [RECIPES[n] for n in ("toy", "toy-min2", "chain", "chain-rev", "toy-fixed", "toy-user")] + rnd_recipes
    for _ in range(n_random):
        rec = rng.choice(pool)
        full, core = _alphabet(rec)
        cases.append(("random", {"model": rec, "prog": random_prog(rng, full, 5)}))
    return cases


REDUCED_KINDS = [
    "bounds", "lower_bound", "gene.knock_out", "objective:dict", "objective:expr",
    "objective_coefficient", "objective_direction", "add_metabolites:combine:existing", "add_metabolites:combine:new-met",
    "add_metabolites:replace:existing", "subtract_metabolites:combine:to-zero", "imul:negative", "iadd:fresh-reaction",
    "gene_reaction_rule:new-genes", "add_reactions:new-mets-new-genes", "remove_reactions:objective-reaction",
    "remove_reactions:remove_orphans", "remove_metabolites", "remove_metabolites:destructive", "add_boundary:demand",
    "add_cons_vars", "remove_cons_vars:variable+constraint", "remove_genes", "rename_genes:new-id", "medium", "merge:sum",
    "solver:glpk_exact", "add_pfba", "fix_objective_as_constraint", "bounds:lb>ub",
]


def _reduced(core):
    out, seen = [], set()
    for a in core:
        if a["k"] in REDUCED_KINDS and a["k"] not in seen:
            seen.add(a["k"])
            out.append(a)
    return out


# ---------------------------------------------------------------------------------------------------------------------
_RUNNER = None
DETERMINISTIC = ("depth1", "depth2", "depth3")  # families that do not depend on the seed


def _work(chunk, progress=None):
    """chunk: list of (index, family, case) -> dict"""
    global _RUNNER
    if _RUNNER is None:
        _RUNNER = C.Runner()
    out = {"n": 0, "nontrivial": 0, "failures": [], "raised": 0, "by_family": {}, "shrink_exec": 0, "invalid": 0,
           "unjudged": 0, "failing": 0}
    e0 = _RUNNER.executions
    agg = {}
    for idx, fam, case in chunk:
        if progress is not None:
            progress(idx)
        res, found = _RUNNER.analyse(case)
        if res.get("invalid"):
            out["invalid"] += 1
            continue
        out["n"] += 1
        out["by_family"][fam] = out["by_family"].get(fam, 0) + 1
        out["unjudged"] += res.get("unjudged_blocks", 0)
        if res["nontrivial"]:
            out["nontrivial"] += 1
        if any(t != "ok" for t in res["trace"]):
            out["raised"] += 1
        if res["failure"]:
            out["failing"] += 1
        for rendering, core, text, why in found:
            cj = json.dumps(core, sort_keys=True)
            a = agg.setdefault(cj, [rendering, text, why, 0, 0])
            a[3 if fam in DETERMINISTIC else 4] += 1
    out["failures"] = [(cj, v[0], v[1], v[2], v[3], v[4]) for cj, v in agg.items()]
    out["shrink_exec"] = _RUNNER.executions - e0 - out["n"] - out["invalid"]
    return out


def _child(slot, tasks, results, stop, cur, started, phase):
    import queue

    def sink(v, slot=slot):
        phase[slot] = v
    C.PHASE_SINK = sink
    while True:
        try:
            cid, chunk = tasks.get(timeout=0.3)
        except queue.Empty:
            if stop.is_set():
                return
            continue

        def progress(j, slot=slot):
            cur[slot] = j
            phase[slot] = 0
            started[slot] = time.time()
        try:
            out = _work(chunk, progress)
        except BaseException as e:  # noqa: a fault of the harness itself
            out = {"harness_error": f"{type(e).__name__}: {e}"}
        cur[slot] = -1
        results.put((cid, out))


def _pool_map(make_chunks, case_timeout=120.0):
    """apply _work to every chunk in forked workers.  GLPK calls abort() on some inputs and a history may not terminate:
    every worker publishes the index of the case it is running, so a worker that dies (or is killed after
    `case_timeout` seconds in one case) costs exactly that case - reported as a failure - and the rest of its chunk is
    queued again.  The workers are forked before `make_chunks()` builds the cases, so they do not inherit them."""
    import queue
    ctx = multiprocessing.get_context("fork")
    n = PROCESSES
    tasks, results, stop = ctx.Queue(), ctx.Queue(), ctx.Event()
    cur = ctx.Array("i", [-1] * n, lock=False)
    started = ctx.Array("d", [0.0] * n, lock=False)
    phase = ctx.Array("i", [0] * n, lock=False)
    procs = {}

    def spawn(slot):
        cur[slot] = -1
        p = ctx.Process(target=_child, args=(slot, tasks, results, stop, cur, started, phase), daemon=True)
        p.start()
        procs[slot] = p
    for slot in range(n):
        spawn(slot)
    chunks = make_chunks()
    pending = {}
    for cid, ch in enumerate(chunks):
        pending[cid] = ch
        tasks.put((cid, ch))
    next_id = len(chunks)
    out, casualties = [], []
    try:
        while pending:
            try:
                cid, res = results.get(timeout=0.2)
                if cid in pending:
                    del pending[cid]
                    out.append(res)
                continue
            except queue.Empty:
                pass
            now = time.time()
            for slot, p in list(procs.items()):
                hung = p.is_alive() and cur[slot] >= 0 and now - started[slot] > case_timeout
                if hung:
                    p.kill()
                    p.join()
                if hung or not p.is_alive():
                    idx = cur[slot]
                    why = "did not terminate within %.0f s" % case_timeout if hung else \
                        "killed the interpreter (exit code %s; GLPK aborts on some inputs)" % p.exitcode
                    if not hung and phase[slot] == 1:
                        why = "aborted inside an operation"  # nothing to judge: discarded, counted
                    if idx >= 0:
                        # find the chunk that holds the case, report the case, queue the rest again
                        for cid, ch in list(pending.items()):
                            pos = [k for k, (i, _, _) in enumerate(ch) if i == idx]
                            if pos:
                                casualties.append((ch[pos[0]], why))
                                rest = ch[:pos[0]] + ch[pos[0] + 1:]
                                del pending[cid]
                                if rest:
                                    pending[next_id] = rest
                                    tasks.put((next_id, rest))
                                    next_id += 1
                                break
                    spawn(slot)
    finally:
        stop.set()
        for p in procs.values():
            p.join(timeout=2)
            if p.is_alive():
                p.kill()
    return out, casualties


_NAMES = None


def witness_id(core):
    """stable, exact, seed-independent identifier of a minimal failing history: its rendering, the model it runs on and
    a hash of the canonical JSON of the whole case (recipe, operations with all arguments, nesting, exit modes)"""
    global _NAMES
    if _NAMES is None:
        _NAMES = {json.dumps(v, sort_keys=True): k for k, v in RECIPES.items()}
    cj = json.dumps(core, sort_keys=True)
    name = _NAMES.get(json.dumps(core["model"], sort_keys=True), "random-model")
    return f"{C.render(core['prog'])}@{name}#{hashlib.sha1(cj.encode()).hexdigest()[:10]}"


def _class_of(rendering, why):
    if why is None:
        return rendering  # no candidate repair explains it: a class of its own, named after the minimal history
    return "+".join(why)


def _group(found):
    """found: {canonical JSON of a minimal failing history: [rendering, failure text, explaining repairs | None,
    number of failing histories of the seed-independent families that reduce to it, same for the seeded families]}.

    * every minimal history that comes out of the seed-independent families (exhaustive depth 1 / 2 / 3 on the fixed
      models) is reported on its own: {"key": class, "witness": exact id};
    * a minimal history that only the seeded families produce is reported with the id of the deterministic witness if
      it *is* one; as "witness": "random:<class>" if its class (each of its classes, when several repairs are needed) has
      deterministic witnesses in this run; and on its own otherwise."""
    det = {cj: v for cj, v in found.items() if v[3] > 0}
    rnd = {cj: v for cj, v in found.items() if v[3] == 0}
    failures = []
    open_classes = set()
    for cj in sorted(det, key=lambda c: (_class_of(det[c][0], det[c][2]), len(c), c)):
        rendering, text, why, n_det, n_rnd = det[cj]
        cls = _class_of(rendering, why)
        open_classes.add(cls)
        core = json.loads(cj)
        failures.append({"key": cls, "witness": witness_id(core),
                         "failure": f"{text}  [{n_det} enumerated and {n_rnd} random histories reduce to this minimal history]",
                         "replay": core})
    members = set(open_classes)
    for c in open_classes:
        members.update(c.split("+"))
    by_class = {}
    for cj in sorted(rnd, key=lambda c: (len(c), c)):
        rendering, text, why, n_det, n_rnd = rnd[cj]
        cls = _class_of(rendering, why)
        core = json.loads(cj)
        if cls in open_classes:
            targets = [cls]
        elif why is not None and all(k in members for k in why):
            targets = list(why)
        else:
            failures.append({"key": cls, "witness": witness_id(core),
                             "failure": f"{text}  [{n_rnd} random histories reduce to this minimal history]", "replay": core})
            continue
        for t in targets:
            g = by_class.setdefault(t, {"core": core, "text": text, "count": 0, "distinct": 0})
            g["count"] += n_rnd
            g["distinct"] += 1
    for cls in sorted(by_class):
        g = by_class[cls]
        failures.append({"key": cls, "witness": "random:" + cls,
                         "failure": f"{g['text']}  [{g['count']} random histories reduce to {g['distinct']} minimal histories "
                                    f"of this class that the enumerated part does not contain; smallest one attached]",
                         "replay": g["core"]})
    return failures


def _evaluate(cases, tier="quick"):
    """cases: [(family, case)] or a callable that returns them -> (statistics, failures)"""
    uniq = []

    def make_chunks():
        seen = set()
        for fam, case in (cases() if callable(cases) else cases):
            h = hashlib.sha1(json.dumps(case, sort_keys=True).encode()).digest()
            if h not in seen:
                seen.add(h)
                uniq.append((fam, case))
        indexed = [(i, fam, case) for i, (fam, case) in enumerate(uniq)]
        # interleave so that every chunk has a similar mix (the memo of a worker still profits from shared cores)
        nchunks = max(1, len(indexed) // 250)
        return [c for c in (indexed[i::nchunks] for i in range(nchunks)) if c]
    results, casualties = _pool_map(make_chunks)
    harness_errors = [r["harness_error"] for r in results if "harness_error" in r]
    results = [r for r in results if "harness_error" not in r]
    by_family = {}
    for r in results:
        for k, v in r["by_family"].items():
            by_family[k] = by_family.get(k, 0) + v
    found = {}
    for r in results:
        for cj, rendering, text, why, n_det, n_rnd in r["failures"]:
            a = found.setdefault(cj, [rendering, text, why, 0, 0])
            a[3] += n_det
            a[4] += n_rnd
    failures = _group(found)
    aborted = [c for c in casualties if c[1] == "aborted inside an operation"]
    casualties = [c for c in casualties if c[1] != "aborted inside an operation"]
    crashes = {}
    for (idx, fam, case), why in casualties[:12]:
        kind = "crash:" if "killed" in why else "hang:"
        case = _shrink_casualty(case, "killed" if kind == "crash:" else "terminate")
        key = kind + C.render(case["prog"])
        cj = json.dumps(case, sort_keys=True)
        if key not in crashes or (len(cj), cj) < crashes[key][0]:
            crashes[key] = ((len(cj), cj), why)
    for key in sorted(crashes):
        (_, cj), why = crashes[key]
        core = json.loads(cj)
        failures.append({"key": key, "witness": witness_id(core), "failure": "the history " + why, "replay": core})
    for e in sorted(set(harness_errors)):
        failures.append({"key": "harness:error", "witness": "harness:error", "failure": e, "replay": {}})
    stats = {"evaluations": sum(r["n"] for r in results), "nontrivial": sum(r["nontrivial"] for r in results),
             "by_family": by_family, "raised": sum(r["raised"] for r in results),
             "shrink_exec": sum(r["shrink_exec"] for r in results), "failing": sum(r["failing"] for r in results),
             "invalid": sum(r["invalid"] for r in results), "unjudged": sum(r["unjudged"] for r in results),
             "aborted": len(aborted),
             "samples": [uniq[i][1] for i in (0, len(uniq) // 2, len(uniq) - 1)] if uniq else []}
    return stats, failures


def _run(tier, seed):
    import resource
    t0 = time.time()
    cpu0 = resource.getrusage(resource.RUSAGE_CHILDREN)
    for n in ("toy", "chain"):
        _alphabet(RECIPES[n])
    st, failures = _evaluate(lambda: _cases(tier, seed), tier)
    cpu1 = resource.getrusage(resource.RUSAGE_CHILDREN)
    return {
        "evaluations": st["evaluations"],
        "distinct_nontrivial": st["nontrivial"],
        "rule": "a case = (model recipe, nested-with program over the operation alphabet of bcc.context_c03); all cases are "
                "distinct as JSON; non-trivial = in at least one block the model state just before __exit__ differed from "
                "the state at entry (there was something to restore). The depth1/depth2(/depth3) families are exhaustive "
                "over the stated alphabets and shapes on the fixed models and do not depend on the seed; 'random1' (depth 1 "
                "on seeded random models) and 'random' (seeded histories of 2-5 operations in up to 3 nested blocks) do. "
                "Histories that give two solver objects one name are discarded (not counted)",
        "bounds": {"tier": tier, "seed": seed, "by_family": st["by_family"],
                   "models": "toy (5 reactions, 4 metabolites, 3 genes, 2 compartments) and variants (min direction, two "
                             "objective terms, forced flux, group, pre-existing fixed-objective constraint / knocked-out "
                             "gene / user variable+constraint), linear chain with cycle (5x3x3), reversed exchange, "
                             "random 2-3 metabolites x 2-6 reactions",
                   "alphabet_full_and_core": {n: [len(x) for x in _alphabet(RECIPES[n])] for n in ("toy", "chain")},
                   "nesting": "1-3 blocks", "exit": "normal | sentinel exception | natural exception, propagating or caught",
                   "history_depth": "1 (full alphabet, 8 shapes), 2 (core alphabet; thorough: full), "
                                    "3 (thorough, reduced alphabet), 2-5 random",
                   "cases_with_a_raising_operation": st["raised"],
                   "failing_histories": st["failing"],
                   "extra_executions_for_shrinking_and_attribution": st["shrink_exec"],
                   "discarded_histories_with_two_solver_objects_of_one_name": st["invalid"],
                   "blocks_entered_with_broken_cross_references_not_compared": st["unjudged"],
                   "discarded_histories_in_which_GLPK_aborted_inside_an_operation": st["aborted"],
                   "PYTHONHASHSEED": os.environ.get("PYTHONHASHSEED"),
                   "seconds": round(time.time() - t0, 1),
                   "cpu_seconds_of_workers": round(sum(getattr(cpu1, f) - getattr(cpu0, f)
                                                       for f in ("ru_utime", "ru_stime")), 1)},
        "exhaustive": False,
        "samples": st["samples"],
        "failures": failures,
    }


def _execute_in_child(case, timeout=120.0):
    """run one case in a forked child (a history may kill the interpreter) -> failure text | None"""
    ctx = multiprocessing.get_context("fork")
    recv, send = ctx.Pipe(duplex=False)
    phase = ctx.Value("i", 0, lock=False)

    def target():
        def sink(v):
            phase.value = v
        C.PHASE_SINK = sink
        send.send(C.execute(case)["failure"])
        send.close()
    p = ctx.Process(target=target, daemon=True)
    p.start()
    send.close()
    got = None
    if recv.poll(timeout):
        try:
            got = ("ok", recv.recv())
        except EOFError:
            got = None
    p.join(2)
    if p.is_alive():
        p.kill()
        p.join()
        if got is None:
            return "the history did not terminate within %.0f s" % timeout
    if got is None:
        if phase.value == 1:
            return None  # GLPK aborted inside an operation of the history: nothing to judge (run() discards these)
        return "the history killed the interpreter (exit code %s; GLPK aborts on some inputs)" % p.exitcode
    return got[1]


def _shrink_casualty(case, marker, budget=40):
    """greedy shrinking of a history that kills the interpreter / does not terminate; every probe runs in a child"""
    timeout = 120.0 if marker == "killed" else 20.0
    cur = case
    progress = True
    while progress and budget > 0:
        progress = False
        for v in C._variants(cur["prog"]):
            v = C._normalize(v)
            if not C.ops_of(v) or budget <= 0:
                continue
            budget -= 1
            cand = {"model": cur["model"], "prog": v}
            got = _execute_in_child(cand, timeout)
            if got and marker in got:
                cur, progress = cand, True
                break
    return cur


# ---------------------------------------------------------------------------------------------------------------------
# Which spelling of an order-dependent defect fails follows the iteration order of sets of strings (gene identifiers in
# `GPR.genes`), i.e. PYTHONHASHSEED.  For results that are identical from run to run the work is done by an interpreter
# started with PYTHONHASHSEED=0.
def _reexec(args, payload=None):
    root = os.path.dirname(os.path.dirname(os.path.dirname(os.path.abspath(__file__))))
    fd, path = tempfile.mkstemp(prefix="c03_", suffix=".json", dir="/var/tmp")
    os.close(fd)
    try:
        if payload is not None:
            with open(path, "w") as fh:
                json.dump(payload, fh)
        env = dict(os.environ, PYTHONHASHSEED="0")
        proc = subprocess.run([sys.executable, "-m", "bcc.drivers.C03"] + [str(a) for a in args] + [path], cwd=root, env=env,
                              stdout=subprocess.DEVNULL, stderr=subprocess.PIPE, text=True)
        if proc.returncode != 0:
            raise RuntimeError("C03 child interpreter failed: " + proc.stderr[-2000:])
        with open(path) as fh:
            return json.load(fh)
    finally:
        if os.path.exists(path):
            os.remove(path)


def run(tier: str, seed: int) -> dict:
    if os.environ.get("PYTHONHASHSEED") == "0":
        return _run(tier, seed)
    return _reexec(["run", tier, seed])


def replay(payload_replay: dict):
    """Re-run one recorded case against the current tree; return the failure text, or None if it passes."""
    if "prog" not in payload_replay:
        return None
    if os.environ.get("PYTHONHASHSEED") == "0":
        return _execute_in_child(payload_replay)
    return _reexec(["replay"], payload_replay)["failure"]


def known_witnesses(*results):
    """{class: [witness, ...]} over the failures of the given run() results, plus the class-level id "random:<class>"
    that the seeded part uses for minimal histories of an open class which the enumerated part does not contain"""
    out = {}
    for r in results:
        for f in r["failures"]:
            out.setdefault(f["key"], set()).add(f["witness"])
    for k in list(out):
        out[k].add("random:" + k)
    return {k: sorted(v) for k, v in sorted(out.items())}


if __name__ == "__main__":
    # python -m bcc.drivers.C03 run <tier> <seed> <out.json> | replay <case.json -> overwritten with the result>
    #                           known <out.json> <result.json> ...
    if sys.argv[1] == "run":
        res = _run(sys.argv[2], int(sys.argv[3]))
    elif sys.argv[1] == "known":
        res = known_witnesses(*[json.load(open(f)) for f in sys.argv[3:]])
        with open(sys.argv[2], "w") as fh:
            json.dump(res, fh, indent=1)
        sys.exit(0)
    else:
        with open(sys.argv[-1]) as fh:
            res = {"failure": _execute_in_child(json.load(fh))}
    with open(sys.argv[-1], "w") as fh:
        json.dump(res, fh)
