"""Bounded driver for C02 - model edits do exactly what they document; cross-references stay consistent.

Same histories as C01 (bcc.histories_c01c02).  After EVERY step: (a) `bcc.views.check_xref(model)` must be empty and
(b) the content of the model (reactions -> stoichiometry, bounds, Boolean function and gene set of the rule; metabolites
and genes with their reactions, functional flags, groups, compartments, reported objective and direction) must equal
the content of `Ref`, an executable reference description of the documented semantics on plain dict / set data; a step
the reference says must raise has to raise (with the documented exception type) and leave the content unchanged, a step
the documentation lets succeed must not raise.  Leaving a `with model:` block re-synchronises the reference (whether
the entry state comes back is property C03); the cross-references are still checked there.
"""
from bcc import histories_c01c02 as H

# failures: {"key": class, "witness": "<base>|<solver>|<canonical JSON of the minimal history>" (or "random:<class>"),
#            "source": "deterministic" | "random", "failure": text, "replay": {...}} - see NOTES_C02.md / KNOWN_C02.json

KNOWN_KEYS = set()


def run(tier: str, seed: int) -> dict:
    return H.explore("C02", tier, seed)


def replay(payload_replay: dict):
    p = dict(payload_replay)
    p.setdefault("mode", "C02")
    return H.replay(p)
