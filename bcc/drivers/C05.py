"""C05 (bounded tier) — flux variability analysis reports the true flux ranges.

Real code under test: cobra.flux_analysis.flux_variability_analysis (plain, pfba_factor, loopless, processes 1 and 2).
Oracle: bcc.c05_oracle — the *documented* problem rebuilt from (S, lb, ub, c, direction):
    P(phi, k) = {v | S v = 0, lb <= v <= ub, c.v >= phi*opt (max) / c.v <= phi*opt (min),
                     and if k is given: sum|v| <= k * min{sum|v| over the constraints before the cap}},
solved exactly over the rationals; loopless: brute force over the sign patterns of the reactions that lie on an
internal cycle (a pattern is admissible iff no non-zero internal cycle vector is sign-compatible with it; exact LPs).

One evaluation = one call of flux_variability_analysis, configuration
    (model, direction, fraction_of_optimum, pfba_factor, reaction_list as None | objects | ids, processes, loopless).
Domain (the statement's quantifier): exact FBA optimum exists; fraction 1 always, 0 and 0.5 only when the optimum has the
sign of the direction; pfba_factor in {None, 1.0, 1.5}; processes in {1, 2}.
Checks                                                                                          [failure key]
 * the frame is indexed by exactly the requested ids (any order)                              [fva-index]
 * minimum / maximum == exact min / max of v_r over P(phi, k)                                   [fva-range]
 * minimum <= maximum                                                                           [fva-min-gt-max]
 * (k None) the fluxes of model.optimize() and the oracle's exact optimal vertex lie inside the ranges [fva-optimum-outside]
 * an exact range that is infinite: FVA may raise OptimizationError (there is no extreme to report); it must not
   return a finite number                                                                       [fva-range]
 * FVA raises although every requested range is finite                                          [fva-raises]
   - the special case: pfba_factor given, fraction 1 and an optimum of the "wrong" sign (max problem with opt < 0, min
     problem with opt > 0) raises Infeasible                                                    [fva-pfba-sign-infeasible]
 * loopless=True: ranges inside the exact plain ranges [loopless-outside-plain], min <= max, and — on models whose
   internal bounds all contain zero (no forced loops, where the notion is unambiguous) and with at most
   `max_cycle_reactions` reactions on internal cycles — each reported extreme equal to the brute-force cycle-free extreme
   [loopless-fva-too-narrow: the reported extreme lies strictly inside the true cycle-free range; loopless-fva-too-wide: it
    lies beyond it (needs a cycle); both with the suffix -objective-on-cycle when an objective reaction lies on an internal
    cycle, the case cobrapy's documentation sets aside];
   any other exception than OptimizationError from the loopless sweep                           [loopless-fva-crash]

Structure (known-finding protocol)
 * seed-dependent part (models and configurations drawn from the `seed` argument): all plain-FVA checks; loopless calls only
   on models without forced internal fluxes and only for containment in the exact plain ranges (on those inputs none of the
   open finding classes can fire: the ValueError of `_add_cycle_free` needs a forced internal bound).  Clean on the current
   tree for every seed.
 * fixed part (constant internal seed FIXED_SEED_LOOPLESS, independent of `seed`; quick list = prefix of the thorough list;
   thorough additionally one loopless call on `textbook`): per model the four calls direction x fraction in {1, 0} with
   loopless=True, reaction_list=None, processes=1 (serial sweep over all reactions in model order, so every LP warm start is
   reproducible).  All loopless checks run here: exactness against brute force, min <= max, containment, crash.
   witness id  "loopless-fixed#<index>:<direction>:fraction=<f>:<reaction>:<minimum|maximum>"  (…":crash" for an exception);
   every failing witness is reported (no cap).  Comparisons within a factor 100 of the tolerance are listed in
   bounds["fixed_borderline_comparisons"] (none on the current tree).
"""
import math
import random
import time

from bcc import gen, oracle_lp
from bcc import c04_util as U
from bcc import c05_oracle as O
from bcc import c19_gen as G

KNOWN_KEYS = set()
FIXED_SEED_LOOPLESS = 5005
INF = float("inf")
TOL = 1e-6
LOOP_BOUNDS = [(0.0, 1000.0), (-1000.0, 1000.0), (0.0, 10.0), (-10.0, 10.0), (-1000.0, 0.0), (0.0, 5.0), (-5.0, 1000.0)]


def _finite(x):
    return x is not None and not (isinstance(x, float) and math.isinf(x))


def _isinf(x):
    return isinstance(x, float) and math.isinf(x)


def _call_fva(model, rl_kind, rids, **kw):
    from cobra.flux_analysis import flux_variability_analysis
    if rl_kind == "none":
        rl = None
    elif rl_kind == "objects":
        rl = [model.reactions.get_by_id(r) for r in rids]
    else:
        rl = list(rids)
    return flux_variability_analysis(model, reaction_list=rl, **kw)


def check_config(model, cfg, cache=None):
    """cfg: dict(direction, fraction, pfba, rl ('none'|'objects'|'ids'), rids (list or None), processes, loopless,
    brute (bool), loopless_checks ('all' | 'containment')).  -> (list of (key, text, detail), info)"""
    from cobra.exceptions import Infeasible, OptimizationError
    U.quiet()
    cache = {} if cache is None else cache
    out = []
    tag = (f"fva(fraction_of_optimum={cfg['fraction']}, pfba_factor={cfg['pfba']}, reaction_list={cfg['rl']}"
           f"{'' if cfg['rids'] is None else cfg['rids']}, processes={cfg['processes']}, loopless={cfg['loopless']}) "
           f"[{cfg['direction']}]")

    def bad(key, text, detail=""):
        out.append((key, f"{tag}: {text}", detail))

    model.objective_direction = cfg["direction"]
    all_ids = [r.id for r in model.reactions]
    rids = all_ids if cfg["rids"] is None else list(cfg["rids"])
    ck = (cfg["direction"], cfg["fraction"], cfg["pfba"])
    if ck not in cache:
        try:
            lp, info = O.base_problem(model, cfg["fraction"], cfg["pfba"])
            cache[ck] = (lp, info, {})
        except O.NoOptimum as e:
            cache[ck] = (None, {"status": str(e)}, None)
    lp, info, exact = cache[ck]
    if lp is None:
        return out, {"domain": False}
    for r in rids:
        if r not in exact:
            exact[r] = lp.range_of(r)
    opt = info["opt"]
    sign_ok = opt >= 0 if cfg["direction"] == "max" else opt <= 0
    if cfg["fraction"] != 1.0 and not sign_ok:
        return out, {"domain": False}
    unbounded_requested = any(_isinf(x) for r in rids for x in exact[r])
    res_info = {"domain": True, "nontrivial": any(exact[r][0] != exact[r][1] for r in rids), "raised": None}

    try:
        res = _call_fva(model, cfg["rl"], rids, fraction_of_optimum=cfg["fraction"], pfba_factor=cfg["pfba"],
                        processes=cfg["processes"], loopless=cfg["loopless"])
    except OptimizationError as e:
        res_info["raised"] = type(e).__name__
        if unbounded_requested:
            return out, res_info
        if cfg["pfba"] is not None and not sign_ok and isinstance(e, Infeasible):
            bad("fva-pfba-sign-infeasible",
                f"raised {type(e).__name__}({e}) although the documented problem is feasible: optimum {float(opt)} has the sign "
                f"opposite to the direction; exact ranges { {r: tuple(float(x) for x in exact[r]) for r in rids[:4]} }")
        else:
            bad("fva-raises", f"raised {type(e).__name__}({e}) although all requested exact ranges are finite")
        return out, res_info
    except Exception as e:  # noqa
        res_info["raised"] = type(e).__name__
        key = "loopless-fva-crash" if cfg["loopless"] else "fva-crash"
        bad(key, f"raised {type(e).__name__}: {e}", "crash")
        return out, res_info

    if sorted(res.index) != sorted(rids):
        bad("fva-index", f"frame index {list(res.index)} is not the requested set {rids}")
        return out, res_info
    got = {r: (float(res.at[r, "minimum"]), float(res.at[r, "maximum"])) for r in rids}
    for r in rids:
        lo, hi = got[r]
        if not (lo <= hi + TOL) and not (cfg["loopless"] and cfg.get("loopless_checks") == "containment"):
            bad("fva-min-gt-max", f"{r}: minimum {lo} > maximum {hi}", f"{r}:min-gt-max")
    if not cfg["loopless"]:
        for r in rids:
            elo, ehi = exact[r]
            lo, hi = got[r]
            if not (oracle_lp.close(lo, elo) and oracle_lp.close(hi, ehi)):
                bad("fva-range", f"{r}: reported [{lo}, {hi}], exact [{float(elo)}, {float(ehi)}] (FBA optimum {float(opt)})")
        if cfg["pfba"] is None:
            pts = [("exact optimal vertex", {k: float(v) for k, v in info["opt_point"].items()})]
            try:
                sol = model.optimize()
                if sol.status == "optimal":
                    pts.append(("model.optimize()", {r: float(sol.fluxes[r]) for r in rids}))
            except Exception:  # noqa
                pass
            for name, pt in pts:
                for r in rids:
                    lo, hi = got[r]
                    tol = TOL * max(1.0, abs(pt[r]))
                    if not (lo - tol <= pt[r] <= hi + tol):
                        bad("fva-optimum-outside", f"{r}: flux {pt[r]} of {name} outside reported [{lo}, {hi}]")
    else:
        for r in rids:
            elo, ehi = exact[r]
            lo, hi = got[r]
            if (not _isinf(elo) and lo < float(elo) - TOL * max(1.0, abs(float(elo)))) or \
                    (not _isinf(ehi) and hi > float(ehi) + TOL * max(1.0, abs(float(ehi)))):
                bad("loopless-outside-plain", f"{r}: loopless [{lo}, {hi}] not inside the exact plain range [{float(elo)}, {float(ehi)}]",
                    f"{r}:outside-plain")
        if cfg.get("brute"):
            bk = ck + ("ll",)
            if bk not in cache:
                cache[bk] = O.loopless_ranges(model, lp, all_ids, cfg.get("max_cycle_reactions", 4))
            ll, linfo = cache[bk]
            res_info["brute"] = linfo
            if "cyc" not in cache:
                cache["cyc"] = set(O.cycle_reactions(model))
            # the documentation of the loopless functions assumes an objective that is on no cycle: keep those cases apart
            suffix = "-objective-on-cycle" if cache["cyc"] & set(info["objective"]) else ""
            if ll is not None:
                for r in rids:
                    blo, bhi = ll[r]
                    if blo is None or bhi is None:
                        res_info["brute"] = dict(linfo, empty=True)
                        break
                    lo, hi = got[r]
                    txt = (f"{r}: loopless FVA reports [{lo}, {hi}], brute-force cycle-free extremes [{float(blo)}, {float(bhi)}] "
                           f"(plain [{float(exact[r][0])}, {float(exact[r][1])}]; {linfo})")
                    for side, g, b, sgn in (("minimum", lo, float(blo), 1.0), ("maximum", hi, float(bhi), -1.0)):
                        tol = TOL * max(1.0, abs(b))
                        diff = (g - b) * sgn          # > 0: reported extreme lies inside the true one (narrow), < 0: beyond it (wide)
                        if tol / 100 < abs(diff) < tol * 100:
                            res_info["borderline"] = True
                        if diff > tol:
                            bad("loopless-fva-too-narrow" + suffix, f"{side} of " + txt, f"{r}:{side}")
                        elif diff < -tol:
                            bad("loopless-fva-too-wide" + suffix, f"{side} of " + txt, f"{r}:{side}")
    return out, res_info


# ----------------------------------------------------------------------------------------------------------------------
# case generation
# ----------------------------------------------------------------------------------------------------------------------
def corner_models():
    lc = gen.linear_chain
    yield lc(2)
    yield lc(3, cyc=True)
    yield lc(3, cyc=True, bounds={"CYC": (0.0, 1000.0)})
    yield lc(2, reverse_exchange=True)
    yield lc(2, bounds={"R1": (1.0, 5.0)}, objective="R1")          # min problem with positive optimum (in direction min)
    yield lc(2, bounds={"EX_out": (-10.0, -1.0), "EX_m0": (-1000.0, 1000.0), "R0": (-1000.0, 1000.0), "R1": (-1000.0, 1000.0)})
    yield lc(2, objective="EX_m0")
    yield G.figure1_like()


def _plans(rng, model, tier):
    """configurations for one model (both directions)"""
    all_ids = [r.id for r in model.reactions]
    plans = []
    for direction in ("max", "min"):
        for fraction in (1.0, 0.0, 0.5):
            for pfba in (None, 1.0, 1.5):
                if pfba is not None and fraction == 0.5 and rng.random() < 0.5:
                    continue
                plans.append(dict(direction=direction, fraction=fraction, pfba=pfba, rl="none", rids=None,
                                  processes=rng.choice([1, 1, 2]) if tier == "thorough" else 1, loopless=False))
                if rng.random() < (0.7 if tier == "thorough" else 0.45):
                    k = rng.randint(1, len(all_ids))
                    sub = rng.sample(all_ids, k)
                    plans.append(dict(direction=direction, fraction=fraction, pfba=pfba, rl=rng.choice(["objects", "ids"]),
                                      rids=sub, processes=rng.choice([1, 2, 2]), loopless=False))
    return plans


def _zero_ok(model):
    """no forced internal flux: every internal bound pair contains zero (then _add_cycle_free cannot produce lb > ub)"""
    return all(r._lower_bound <= 0 <= r._upper_bound for r in model.reactions if len(r._metabolites) != 1)


def _loopless_plans(rng, model, tier, max_cyc):
    """seed-dependent loopless calls: containment in the exact plain ranges only (the exactness comparison, min <= max and
    the forced-flux models, on which the open finding classes fire, run on the fixed list)"""
    if not _zero_ok(model):
        return []
    all_ids = [r.id for r in model.reactions]
    plans = []
    for direction in ("max", "min"):
        for fraction in (1.0, 0.0):
            sub = None if rng.random() < 0.6 else rng.sample(all_ids, rng.randint(1, len(all_ids)))
            plans.append(dict(direction=direction, fraction=fraction, pfba=None, rl="none" if sub is None else rng.choice(["objects", "ids"]),
                              rids=sub, processes=rng.choice([1, 1, 2]), loopless=True, brute=False, loopless_checks="containment"))
    return plans


def _loop_model(rng):
    if rng.random() < 0.6:
        feats = [f for f in ["duplicate", "antiparallel", "cycle"] if rng.random() < 0.5]
        return G.structured_model(rng, n_core=rng.randint(2, 3), n_conv=rng.randint(1, 3), with_rules=False, features=feats,
                                  bounds=LOOP_BOUNDS)
    return gen.random_model(rng, n_mets=rng.randint(2, 3), n_rxns=rng.randint(2, 4), with_genes=False,
                            bounds=LOOP_BOUNDS + [(1.0, 10.0), (2.0, 2.0), (0.0, INF)])


def fixed_loopless_cases(n):
    """seed-independent list of model descriptions: the corner models, then loop-family models from a constant seed
    (a prefix for smaller n)"""
    U.quiet()
    rng = random.Random(FIXED_SEED_LOOPLESS)
    out = [U.describe(m) for m in corner_models()]
    while len(out) < n:
        out.append(U.describe(_loop_model(rng)))
    return out[:n]


def _fixed_cfgs(model, max_cyc):
    z = _zero_ok(model)
    return [dict(direction=d, fraction=f, pfba=None, rl="none", rids=None, processes=1, loopless=True, brute=z,
                 max_cycle_reactions=max_cyc) for d in ("max", "min") for f in (1.0, 0.0)]


def _new_res():
    return {"evals": 0, "skipped": 0, "sigs": {}, "fails": [], "samples": [], "raised": {}, "brute": 0, "brute_empty": 0,
            "loopless": 0, "borderline": []}


def _account(res, cfg, info):
    res["evals"] += 1
    if cfg["loopless"]:
        res["loopless"] += 1
        b = info.get("brute")
        if b and "acyclic_patterns" in b:
            res["brute" if not b.get("empty") else "brute_empty"] += 1
    if info.get("raised"):
        res["raised"][info["raised"]] = res["raised"].get(info["raised"], 0) + 1


def _fixed_task(task):
    """one fixed case = one model, four loopless calls (serial, all reactions: deterministic warm starts);
    every failure carries its witness id and is kept"""
    i, desc, max_cyc = task
    U.quiet()
    res = _new_res()
    tagi = f"{i:03d}" if isinstance(i, int) else i
    if "shipped" in desc:
        m0 = _build(desc)
        ids = [r.id for r in m0.reactions if len(r._metabolites) != 1]
        sub = random.Random(FIXED_SEED_LOOPLESS).sample(ids, 12)
        cfgs = [dict(direction="max", fraction=1.0, pfba=None, rl="ids", rids=sub, processes=1, loopless=True, brute=False)]
    else:
        cfgs = _fixed_cfgs(_build(desc), max_cyc)
    cache = {}
    for cfg in cfgs:
        try:
            fails, info = check_config(_build(desc), cfg, cache)
        except Exception as e:  # noqa
            import traceback
            fails, info = [("driver-error", f"check raised {e!r}: {traceback.format_exc()[-500:]}", "error")], {"domain": True}
        if not info.get("domain"):
            res["skipped"] += 1
            continue
        _account(res, cfg, info)
        wbase = f"loopless-fixed#{tagi}:{cfg['direction']}:fraction={cfg['fraction']}"
        if info.get("borderline"):
            res["borderline"].append(wbase)
        res["sigs"][wbase] = bool(info.get("nontrivial")) and not info.get("raised")
        for k, text, detail in fails:
            w = f"{wbase}:{detail}"
            res["fails"].append((k, text, {"model": desc, "cfg": cfg, "key": k, "detail": detail, "witness": w}, 0, w, True))
    return res


def _build(desc):
    if "shipped" in desc:
        from cobra.io import load_model
        return load_model(desc["shipped"])
    if desc.get("how"):
        return U.build_via(desc, desc["how"])
    return U.rebuild(desc)


def _shipped_plans(rng, idx):
    from cobra.io import load_model
    ids = [r.id for r in load_model("textbook").reactions]
    sub = lambda k: rng.sample(ids, k)  # noqa
    return [dict(direction="max", fraction=1.0, pfba=None, rl="ids", rids=sub(30), processes=2, loopless=False),
            dict(direction="max", fraction=0.5, pfba=1.5, rl="ids", rids=sub(20), processes=1, loopless=False),
            dict(direction="max", fraction=0.0, pfba=None, rl="objects", rids=sub(30), processes=2, loopless=False),
            dict(direction="min", fraction=1.0, pfba=None, rl="objects", rids=sub(30), processes=1, loopless=False),
            dict(direction="max", fraction=1.0, pfba=1.0, rl="none", rids=None, processes=2, loopless=False)][idx]


def _task(task):
    """seed-dependent part"""
    kind, seed, idx, n, tier, max_cyc = task
    U.quiet()
    rng = random.Random(seed * 1000003 + idx * 7 + {"plain": 1, "loop": 2, "corner": 3, "net": 4, "shipped": 5, "finf": 6}[kind])
    if kind == "shipped":
        ms = [({"shipped": "textbook"}, [_shipped_plans(rng, idx)])]
    elif kind == "finf":      # one-sided infinite forced bounds, set through constructor / .bounds / .lower_bound+.upper_bound
        ms = [(U.forced_inf_model(rng), "plain") for _ in range(n)]
    elif kind == "corner":
        ms = [(m, "both") for m in corner_models()]
    elif kind == "plain":
        ms = [(gen.random_model(rng, with_genes=False), "plain") for _ in range(n)]
    elif kind == "net":
        ms = []
        while len(ms) < n:
            big = tier == "thorough" and rng.random() < 0.3
            mm = G.structured_model(rng, n_core=rng.randint(2, 4 if big else 3), n_conv=rng.randint(1, 4 if big else 3), with_rules=False,
                                    features=[f for f in ["dead_end", "cycle", "duplicate", "antiparallel", "sink", "branch"]
                                              if rng.random() < 0.2], bounds=G.ZERO_BOUNDS + [(1.0, 10.0), (-10.0, -1.0), (2.0, 2.0)])
            if len(mm.reactions) <= (14 if big else 9):
                ms.append((mm, "plain"))
    else:
        ms = [(_loop_model(rng), "loop") for _ in range(n)]
    res = _new_res()
    for j, (m, what) in enumerate(ms):
        if isinstance(m, dict):
            desc, sig, plans = m, hash(m["shipped"]), what
        else:
            desc = U.describe(m)
            if kind == "finf":
                desc["how"] = U.HOWS[(idx + j) % 3]
            sig = hash(U.signature(m))
            plans = []
            if what in ("plain", "both"):
                plans += _plans(rng, m, tier)
            if what in ("loop", "both"):
                plans += _loopless_plans(rng, m, tier, max_cyc)
        cache = {}
        for c, cfg in enumerate(plans):
            mm = _build(desc)
            try:
                fails, info = check_config(mm, cfg, cache)
            except Exception as e:  # noqa
                import traceback
                fails, info = [("driver-error", f"check raised {e!r}: {traceback.format_exc()[-500:]}", "error")], {"domain": True}
            if not info.get("domain"):
                res["skipped"] += 1
                continue
            _account(res, cfg, info)
            key = (sig, cfg["direction"], cfg["fraction"], cfg["pfba"], cfg["rl"], tuple(cfg["rids"] or ()), cfg["processes"], cfg["loopless"])
            res["sigs"][key] = bool(info.get("nontrivial")) and not info.get("raised")
            for k, text, detail in fails:
                w = f"seed{seed}:{kind}#{idx}.{j}.{c}:{detail}"
                res["fails"].append((k, text, {"model": desc, "cfg": cfg, "key": k, "detail": detail, "witness": w},
                                     U.size_of(desc) if "reactions" in desc else 10**6, w, False))
            if not res["samples"] and info.get("nontrivial") and not fails and cfg["pfba"] is not None and "reactions" in desc:
                res["samples"].append({"model": desc, "cfg": cfg})
    return res


def _dispatch(t):
    return _fixed_task(t[1]) if t[0] == "fixed" else _task(t[1])


TIERS = {
    "quick": {"finf_chunks": 20, "finf_n": 1, "plain_chunks": 72, "plain_n": 1, "net_chunks": 24, "net_n": 1, "loop_chunks": 40, "loop_n": 2, "max_cyc": 4,
              "fixed_loopless": 108},
    "thorough": {"finf_chunks": 96, "finf_n": 2, "plain_chunks": 256, "plain_n": 3, "net_chunks": 128, "net_n": 2, "loop_chunks": 128, "loop_n": 4, "max_cyc": 6,
                 "shipped": 5, "fixed_loopless": 308, "fixed_shipped": True},
}


def run(tier, seed):
    t0 = time.time()
    U.quiet()
    cfg = TIERS[tier]
    ftasks = [(i, d, cfg["max_cyc"]) for i, d in enumerate(fixed_loopless_cases(cfg["fixed_loopless"]))]
    if cfg.get("fixed_shipped"):
        ftasks.insert(0, ("textbook", {"shipped": "textbook"}, cfg["max_cyc"]))
    tasks = [("shipped", seed, i, 1, tier, cfg["max_cyc"]) for i in range(cfg.get("shipped", 0))]         # heaviest first
    tasks += [("corner", seed, 0, 0, tier, cfg["max_cyc"])]
    tasks += [("loop", seed, i, cfg["loop_n"], tier, cfg["max_cyc"]) for i in range(cfg["loop_chunks"])]
    tasks += [("finf", seed, i, cfg["finf_n"], tier, cfg["max_cyc"]) for i in range(cfg.get("finf_chunks", 0))]
    tasks += [("plain", seed, i, cfg["plain_n"], tier, cfg["max_cyc"]) for i in range(cfg["plain_chunks"])]
    tasks += [("net", seed, i, cfg["net_n"], tier, cfg["max_cyc"]) for i in range(cfg["net_chunks"])]
    n_fixed = len(ftasks)
    order = [("seed", t) for t in tasks[:cfg.get("shipped", 0)]] + [("fixed", t) for t in ftasks] + \
            [("seed", t) for t in tasks[cfg.get("shipped", 0):]]
    results = U.run_pool(_dispatch, order, nested=True)
    F = U.Failures(per_key=2)
    sigs, samples, raised, borderline = {}, [], {}, []
    tot = {k: 0 for k in ("evals", "skipped", "brute", "brute_empty", "loopless")}
    fixed_calls = 0
    for (what, _), r in zip(order, results):
        for k in tot:
            tot[k] += r[k]
        if what == "fixed":
            fixed_calls += r["evals"]
        borderline += r["borderline"]
        for k, v in r["sigs"].items():
            sigs[k] = sigs.get(k, False) or v
        for k, v in r["raised"].items():
            raised[k] = raised.get(k, 0) + v
        F.merge(r["fails"])
        samples += r["samples"]
    n_models = 8 + cfg.get("finf_chunks", 0) * cfg.get("finf_n", 0) + cfg["plain_chunks"] * cfg["plain_n"] + cfg["net_chunks"] * cfg["net_n"] + cfg["loop_chunks"] * cfg["loop_n"]
    return {
        "evaluations": tot["evals"],
        "distinct_nontrivial": sum(1 for v in sigs.values() if v),
        "rule": "evaluation = one flux_variability_analysis call, configuration (model, direction, fraction_of_optimum, pfba_factor, "
                "reaction_list None/objects/ids, processes, loopless) inside the statement's domain (exact FBA optimum exists; "
                "fraction < 1 only when the optimum has the sign of the direction); every reported number is compared with the exact "
                "rational optimum of the documented problem. Loopless exactness (brute force over sign patterns of cycle reactions), "
                "loopless min <= max and loopless on forced-flux models run on a fixed, seed-independent case list (witness ids); the "
                "seed-dependent part checks loopless calls for containment in the exact plain ranges. "
                "distinct = distinct (model structure, configuration) resp. fixed call; non-trivial = FVA returned and at least one "
                "requested exact range is not a single point",
        "bounds": {"tier": tier, "seed": seed, "seed_models_generated": n_models, "fixed_loopless_models": n_fixed,
                   "fixed_loopless_calls": fixed_calls, "fixed_borderline_comparisons": sorted(borderline),
                   "fractions": [0.0, 0.5, 1.0], "pfba_factors": [None, 1.0, 1.5],
                   "processes": [1, 2], "random_models": "bcc.gen.random_model (<=4 metabolites, <=5 internal reactions, full BOUNDS), "
                   "bcc.c19_gen.structured_model (<=4 core metabolites), 8 corner models, bcc.c04_util.forced_inf_model "
                   "(one-sided infinite forced bounds (-inf,-5) (-inf,-1) (2,inf) (5,inf), set via constructor / .bounds / sides)",
                   "shipped_model_calls": ("textbook x %d configurations" % cfg.get("shipped", 0)),
                   "loopless_calls": tot["loopless"], "loopless_calls_compared_with_brute_force": tot["brute"],
                   "loopless_calls_without_cycle_free_point": tot["brute_empty"], "max_cycle_reactions_brute_force": cfg["max_cyc"],
                   "configurations_outside_domain_skipped": tot["skipped"], "calls_that_raised": raised,
                   "wall_seconds": round(time.time() - t0, 1)},
        "exhaustive": False,
        "samples": samples[:2],
        "failures": F.as_list(),
        "witnesses": F.witnesses(),
    }


def replay(payload_replay):
    U.quiet()
    m = _build(payload_replay["model"])
    fails, _ = check_config(m, payload_replay["cfg"])
    key, detail = payload_replay.get("key"), payload_replay.get("detail")
    hits = [t for k, t, d in fails if (key is None or k == key) and (detail is None or d == detail)]
    return "; ".join(hits[:5]) if hits else None
