"""C20 (bounded tier) - summaries report the fluxes of the solution they describe.

case = (model, solution kind, fva kind)
  model     generated feasible bounded models (exchanges written both ways, non-unit and negative boundary coefficients,
            sinks / demands, forced fluxes, blocked boundary reactions, min direction, two-reaction objectives) and
            hand-made chains; every metabolite and every reaction of the model is summarised
  solution  'fba' (model.optimize() passed in) | 'default' (None: the summary computes pFBA itself; the driver wraps the
            name `pfba` inside cobra.summary.* in its own process to see WHICH solution the summary describes)
  fva       None | 0.9 (float: the summary runs FVA itself) | 'frame' (a precomputed FVA frame at fraction 0.8)

checks (numbers compared with bcc.oracle_lp.close)
  model summary       every boundary reaction (exactly one metabolite) exactly once in uptake_flux U secretion_flux; under
                      uptake iff solution flux x coefficient > 0 (secretion iff < 0; the side of a zero is not stated and not
                      checked); flux == solution flux x coefficient; the metabolite column names the reaction's metabolite;
                      the objective value printed by to_string() == sum of objective coefficient x solution flux
  metabolite summary  every reaction of the metabolite exactly once in producing_flux U consuming_flux, side by sign,
                      flux == solution flux x coefficient, sum(producing) == sum(|consuming|), percentages of a non-empty
                      non-zero side sum to one and each is |flux| / side total
  ranges              with fva: (minimum, maximum) == (f x min, f x max) for f > 0 and (f x max, f x min) for f < 0 where
                      (min, max) is the FVA range (own FVA call at the same fraction, resp. the frame passed in); reaction
                      summary: flux and unscaled range
  rendering           to_string(), to_html(), to_frame() (default arguments, names=True, and a large threshold) of every
                      model / metabolite / reaction summary do not raise
  frame               to_frame() carries the same fluxes
"""
import math
import random
import time

from .. import gen
from ..c12_common import quiet, run_tasks, collect_failures
from ..oracle_lp import close

KNOWN_KEYS = set()
HAND = ("chain", "chain_rev", "chain_min", "cycle", "forced", "blocked")
BIG = 1e-6   # |value| above which the sign of a flux is taken as decided (model tolerance is 1e-7)


# ------------------------------------------------------------------------------------------------ models
def build(spec):
    quiet()
    import cobra
    kind, k = spec
    rng = random.Random(f"C20-model-{kind}-{k}")
    if kind == "shipped":
        from cobra.io import load_model
        return load_model(k)
    if kind == "hand":
        if k == "chain":
            m = gen.linear_chain(2)
        elif k == "chain_rev":
            m = gen.linear_chain(2, reverse_exchange=True)
        elif k == "chain_min":
            m = gen.linear_chain(2, bounds={"EX_out": (2.0, 1000.0)}, direction="min")
        elif k == "cycle":
            m = gen.linear_chain(3, cyc=True)
        elif k == "forced":
            m = gen.linear_chain(3, bounds={"R1": (2.0, 5.0)}, objective="R2")
        elif k == "blocked":
            m = gen.linear_chain(2, bounds={"EX_out": (0.0, 0.0)})
        else:
            raise ValueError(k)
        for i, x in enumerate(m.metabolites):
            x.formula = "C%dH4" % (i + 1)
            x.name = f"metabolite {i}"
        return m
    m = gen.random_model(rng, n_mets=rng.randint(2, 4), n_rxns=rng.randint(2, 5),
                         bounds=gen.SAFE_BOUNDS + [(1.0, 10.0), (-10.0, -1.0), (0.0, 0.0), (2.0, 2.0)], with_genes=False)
    # non-unit / reversed boundary coefficients and extra sinks / demands
    for r in list(m.reactions):
        if len(r.metabolites) == 1 and rng.random() < 0.4:
            met = next(iter(r.metabolites))
            r.add_metabolites({met: float(rng.choice([-2, 2, 3, -1, 1]))}, combine=False)
    if rng.random() < 0.5:
        m.add_boundary(m.metabolites[rng.randrange(len(m.metabolites))], type="demand")
    if rng.random() < 0.4:
        m.add_boundary(m.metabolites[rng.randrange(len(m.metabolites))], type="sink", lb=-3, ub=4)
    return m


def model_specs(tier, seed):
    n = 60 if tier == "quick" else 400
    specs = [["hand", h] for h in HAND]
    if tier != "quick":
        specs += [["shipped", "textbook"]]
    k = seed * 10000
    got = 0
    while got < n and k < seed * 10000 + 5000:
        m = build(["rnd", k])
        m.slim_optimize()
        if m.solver.status == "optimal":
            specs.append(["rnd", k])
            got += 1
        k += 1
    return specs


# ------------------------------------------------------------------------------------------------ monitors
class Capture:
    """wrap the name `pfba` inside the three cobra.summary modules (in this process only) to see the solution used"""

    def __init__(self):
        import importlib
        self.mods = [importlib.import_module(f"cobra.summary.{n}") for n in
                     ("model_summary", "metabolite_summary", "reaction_summary")]
        self.last = None

    def __enter__(self):
        self.saved = [mod.pfba for mod in self.mods]

        def wrapped(*a, **k):
            self.last = self.saved[0](*a, **k)
            return self.last
        for mod in self.mods:
            mod.pfba = wrapped
        return self

    def __exit__(self, *exc):
        for mod, f in zip(self.mods, self.saved):
            mod.pfba = f


# ------------------------------------------------------------------------------------------------ the case
def _scaled(rng_min, rng_max, f):
    a, b = f * rng_min, f * rng_max
    return (a, b) if f > 0 else (b, a)


def _render(summary, label, fails, kind, what):
    for meth, kw in (("to_string", {}), ("to_html", {}), ("to_frame", {}), ("to_string", {"names": True}),
                     ("to_html", {"names": True}), ("to_string", {"threshold": 0.75}), ("to_html", {"threshold": 0.75}),
                     ("__str__", {}), ("_repr_html_", {})):
        try:
            getattr(summary, meth)(**kw)
        except Exception as e:  # noqa
            if kind == "reaction" and isinstance(e, KeyError) and meth != "to_frame":
                key = "reaction-summary:render-small-flux"
            else:
                key = f"{kind}-summary:render:{meth}"
            fails.setdefault(key, f"{what}: {label}.{meth}({kw}) raised {type(e).__name__}: {e}")


def run_case(spec, sol_kind, fva_kind):
    """-> ({key: text}, info)"""
    quiet()
    from cobra.flux_analysis import flux_variability_analysis
    from cobra.util.solver import linear_reaction_coefficients
    import cobra
    cobra.Configuration().processes = 1   # the summaries call FVA with the configured default; no pool per summary here
    fails = {}
    m = build(spec)
    what = f"model {spec}, solution={sol_kind}, fva={fva_kind}"
    info = {"summaries": 0, "rows": 0}
    given = m.optimize() if sol_kind == "fba" else None
    if given is not None and given.status != "optimal":
        return fails, info
    # FVA constrains the objective to `>= fraction x optimum` (max) resp. `<= fraction x optimum` (min); for a negative
    # maximum resp. a positive minimum and fraction < 1 that is infeasible, and FVA then returns numbers that are not ranges
    # and differ from call to call (the business of C05, see NOTES_C20.md); such models are summarised at fraction 1.0 so
    # that the ranges are well defined
    opt = m.slim_optimize()
    ill = (m.objective_direction == "min" and opt > 0) or (m.objective_direction == "max" and opt < 0)
    if fva_kind is None:
        fva_arg, ranges = None, None
    elif fva_kind == "frame":
        fva_arg = flux_variability_analysis(m, fraction_of_optimum=1.0 if ill else 0.8, processes=1)
        ranges = {rid: (float(row["minimum"]), float(row["maximum"])) for rid, row in fva_arg.iterrows()}
    else:
        fva_arg = 1.0 if ill else float(fva_kind)
        own = flux_variability_analysis(m, fraction_of_optimum=fva_arg, processes=1)
        ranges = {rid: (float(row["minimum"]), float(row["maximum"])) for rid, row in own.iterrows()}
    tol = m.tolerance

    def fail(key, text):
        fails.setdefault(key, f"{what}: {text}")

    def z(x):   # the summaries set |x| < tolerance to zero
        return 0.0 if abs(x) < tol else x

    def summarise(f):
        """call a summary constructor -> (summary, the solution it describes)"""
        with Capture() as cap:
            s = f()
        if given is not None:
            if cap.last is not None:
                fail("summary:ignores-given-solution", "a solution was passed in but the summary computed pFBA")
            return s, given
        if cap.last is None:
            # documented: "If None, the summary method will generate a parsimonious flux distribution"; without seeing that
            # call the driver cannot know which solution is described - reported instead of silently skipping the checks
            fail("summary:default-solution-not-observed", "no solution was passed in and the summary did not call pfba "
                 "through the name imported into cobra.summary.*")
        return s, cap.last

    def side_rows(frame):
        return [(idx, row) for idx, row in frame.iterrows()]

    # ---------------------------------------------------------------- model summary
    try:
        ms, sol = summarise(lambda: m.summary(solution=given, fva=fva_arg))
    except Exception as e:  # noqa
        fail("model-summary:raised", f"model.summary raised {type(e).__name__}: {e}")
        ms = None
    if ms is not None and sol is not None:
        info["summaries"] += 1
        boundary = [r for r in m.reactions if len(r.metabolites) == 1]
        up, sec = side_rows(ms.uptake_flux), side_rows(ms.secretion_flux)
        listed = [row["reaction"] for _, row in up] + [row["reaction"] for _, row in sec]
        for r in boundary:
            met, f = next(iter(r.metabolites.items()))
            exp = sol[r.id] * f
            n = listed.count(r.id)
            info["rows"] += 1
            if n != 1:
                fail("model-summary:listed-once", f"boundary reaction {r.id} is listed {n} times under uptake/secretion")
                continue
            in_up = any(row["reaction"] == r.id for _, row in up)
            row = [row for _, row in up + sec if row["reaction"] == r.id][0]
            if abs(exp) >= BIG and in_up != (exp > 0):
                fail("model-summary:side", f"boundary reaction {r.id} ({r.reaction}, flux {sol[r.id]}): net exchange of {met.id} "
                     f"is {exp} but it is listed under {'uptake' if in_up else 'secretion'}")
            if not close(row["flux"], z(exp)):
                fail("model-summary:flux", f"boundary reaction {r.id} ({r.reaction}): flux {row['flux']} shown, solution flux x "
                     f"coefficient = {sol[r.id]} x {f} = {exp}")
            if row["metabolite"] != met.id:
                fail("model-summary:metabolite", f"boundary reaction {r.id}: metabolite column {row['metabolite']}, not {met.id}")
            if ranges is not None:
                lo, hi = _scaled(z(ranges[r.id][0]), z(ranges[r.id][1]), f)
                if not (close(row["minimum"], lo) and close(row["maximum"], hi)):
                    fail("model-summary:range", f"boundary reaction {r.id} (coefficient {f}): range [{row['minimum']}; "
                         f"{row['maximum']}] shown, FVA range {ranges[r.id]} scaled gives [{lo}; {hi}]")
        extra = set(listed) - {r.id for r in boundary}
        if extra:
            fail("model-summary:listed-once", f"non-boundary reactions listed: {sorted(extra)}")
        coefs = linear_reaction_coefficients(m)
        if coefs:
            exp_obj = sum(c * sol[r.id] for r, c in coefs.items())
            try:
                line = ms.to_string().split("\n")[2]
                shown = float(line.rsplit("=", 1)[1])
                if not close(shown, exp_obj):
                    fail("model-summary:objective-value", f"objective line {line!r}, the solution's objective value is {exp_obj}")
            except Exception as e:  # noqa
                fail("model-summary:render:to_string", f"objective line not readable: {type(e).__name__}: {e}")
        fr = ms.to_frame()
        for r in boundary:
            f = next(iter(r.metabolites.values()))
            if r.id not in fr.index or not close(fr.at[r.id, "flux"], z(sol[r.id] * f)):
                fail("model-summary:to_frame", f"to_frame() row of {r.id}: {fr.loc[r.id].to_dict() if r.id in fr.index else None}, "
                     f"expected flux {sol[r.id] * f}")
        _render(ms, "model.summary", fails, "model", what)

    # ---------------------------------------------------------------- metabolite summaries
    for met in m.metabolites:
        try:
            s, sol = summarise(lambda: met.summary(solution=given, fva=fva_arg))
        except Exception as e:  # noqa
            fail("metabolite-summary:raised", f"{met.id}.summary raised {type(e).__name__}: {e}")
            continue
        if sol is None:
            continue
        info["summaries"] += 1
        pro, con = side_rows(s.producing_flux), side_rows(s.consuming_flux)
        listed = [row["reaction"] for _, row in pro] + [row["reaction"] for _, row in con]
        for r in sorted(met.reactions, key=lambda x: x.id):
            f = r.metabolites[met]
            exp = sol[r.id] * f
            info["rows"] += 1
            n = listed.count(r.id)
            if n != 1:
                fail("metabolite-summary:listed-once", f"{met.id}: reaction {r.id} is listed {n} times under producing/consuming")
                continue
            in_pro = any(row["reaction"] == r.id for _, row in pro)
            row = [row for _, row in pro + con if row["reaction"] == r.id][0]
            if abs(exp) >= BIG and in_pro != (exp > 0):
                fail("metabolite-summary:side", f"{met.id}: reaction {r.id} ({r.reaction}, flux {sol[r.id]}) changes it by {exp} "
                     f"but is listed under {'producing' if in_pro else 'consuming'}")
            if not close(row["flux"], z(exp)):
                fail("metabolite-summary:flux", f"{met.id}: reaction {r.id}: flux {row['flux']} shown, solution flux x coefficient "
                     f"= {sol[r.id]} x {f} = {exp}")
            if ranges is not None:
                lo, hi = _scaled(z(ranges[r.id][0]), z(ranges[r.id][1]), f)
                if not (close(row["minimum"], lo) and close(row["maximum"], hi)):
                    fail("metabolite-summary:range", f"{met.id}: reaction {r.id} (coefficient {f}): range [{row['minimum']}; "
                         f"{row['maximum']}] shown, FVA range {ranges[r.id]} scaled gives [{lo}; {hi}]")
        if set(listed) - {r.id for r in met.reactions}:
            fail("metabolite-summary:listed-once", f"{met.id}: foreign reactions listed {sorted(set(listed) - {r.id for r in met.reactions})}")
        tp = sum(row["flux"] for _, row in pro)
        tc = sum(-row["flux"] for _, row in con)
        if not close(tp, tc):
            fail("metabolite-summary:balance", f"{met.id}: producing total {tp} != consuming total {tc}")
        for nm, rows, tot in (("producing", pro, tp), ("consuming", con, tc)):
            if rows and abs(tot) >= BIG:
                ps = [row["percent"] for _, row in rows]
                if not close(sum(ps), 1.0):
                    fail("metabolite-summary:percent", f"{met.id}: {nm} percentages sum to {sum(ps)}")
                for _, row in rows:
                    if not close(row["percent"], abs(row["flux"]) / tot):
                        fail("metabolite-summary:percent", f"{met.id}: {nm} reaction {row['reaction']}: percent {row['percent']}, "
                             f"|flux| / side total = {abs(row['flux']) / tot}")
        fr = s.to_frame()
        for r in met.reactions:
            if r.id not in fr.index or not close(fr.at[r.id, "flux"], z(sol[r.id] * r.metabolites[met])):
                fail("metabolite-summary:to_frame", f"{met.id}: to_frame() row of {r.id} does not carry the flux")
        _render(s, f"{met.id}.summary", fails, "metabolite", what)

    # ---------------------------------------------------------------- reaction summaries
    for r in m.reactions:
        try:
            s, sol = summarise(lambda: r.summary(solution=given, fva=fva_arg))
        except Exception as e:  # noqa
            fail("reaction-summary:raised", f"{r.id}.summary raised {type(e).__name__}: {e}")
            continue
        if sol is None:
            continue
        info["summaries"] += 1
        info["rows"] += 1
        fr = s.to_frame()
        if r.id not in fr.index or len(fr) != 1 or not close(fr.at[r.id, "flux"], sol[r.id]):
            fail("reaction-summary:flux", f"{r.id}: to_frame() {fr.to_dict()} does not carry the solution's flux {sol[r.id]}")
        elif ranges is not None and not (close(fr.at[r.id, "minimum"], ranges[r.id][0]) and close(fr.at[r.id, "maximum"], ranges[r.id][1])):
            fail("reaction-summary:range", f"{r.id}: range [{fr.at[r.id, 'minimum']}; {fr.at[r.id, 'maximum']}], FVA range {ranges[r.id]}")
        _render(s, f"{r.id}.summary [flux {sol[r.id]}]", fails, "reaction", what)
    return fails, info


def _run_task(task):
    f, info = run_case(task["model"], task["solution"], task["fva"])
    return task, f, info


def tasks_for(tier, seed):
    specs = model_specs(tier, seed)
    tasks = []
    for spec in specs:
        for sk in ("fba", "default"):
            for fk in (None, 0.9, "frame"):
                tasks.append({"model": spec, "solution": sk, "fva": fk})
    return tasks, specs


def is_fixed(task):
    """hand-made and shipped models are the FIXED part (the same for every seed), random models the SEEDED part"""
    return task["model"][0] != "rnd"


def witness(task):
    return f"{task['model'][0]}:{task['model'][1]}|solution={task['solution']}|fva={task['fva']}"


def execute(tasks, tier="quick", seed=0):
    order = list(range(len(tasks)))
    random.Random(seed).shuffle(order)
    shuffled = [tasks[i] for i in order]
    res = run_tasks(_run_task, shuffled, nproc=16, task_timeout=240 if tier == "quick" else 900)
    items = []
    summaries = rows = nontrivial = 0
    for task, (status, val) in zip(shuffled, res):
        if status != "ok":
            f = {f"summary:{status}": f"task {task} ended with {status}: {val}"}
        else:
            _, f, info = val
            summaries += info["summaries"]
            rows += info["rows"]
            nontrivial += info["summaries"] > 0
        items.append((is_fixed(task), witness(task), task, f))
    return collect_failures(items), len(res), nontrivial, {"summaries_checked": summaries, "rows_checked": rows}


def run(tier="quick", seed=0):
    quiet()
    import cobra  # noqa: F401
    t0 = time.time()
    tasks, specs = tasks_for(tier, seed)
    out_f, n, nontrivial, extra = execute(tasks, tier, seed)
    return {
        "evaluations": n,
        "distinct_nontrivial": nontrivial,
        "rule": "case = (model, solution given (FBA) or defaulted (pFBA), fva None / 0.9 / frame); each case builds the model "
                "summary and the summary of every metabolite and every reaction and renders each 9 ways; distinct by "
                "construction; non-trivial = at least one summary was produced and checked (models pre-selected: optimal). "
                "Fixed part: hand-made (thorough: + shipped textbook) models - every failing witness reported; seeded part: "
                "random models drawn from the seed - one entry per class, witness random:<class>",
        "bounds": dict({"models": len(specs), "hand_made": len(HAND), "metabolites": "2-4", "reactions": "2-5 + boundaries",
                        "solutions": ["fba", "default"], "fva": [None, 0.9, "frame"], "seconds": round(time.time() - t0, 1)}, **extra),
        "exhaustive": False,
        "samples": [tasks[0], tasks[len(tasks) // 2], tasks[-1]],
        "failures": out_f,
    }


def replay(payload):
    quiet()
    f, _ = run_case(payload["model"], payload["solution"], payload["fva"])
    key = payload.get("key")
    if key is None:
        return "; ".join(f"{k}: {v}" for k, v in f.items()) or None
    return f.get(key)
