"""C07 — knocking out genes disables exactly the reactions whose rule becomes false (bounded stand-in driver).

Space (EXHAUSTIVE in both tiers): every and/or rule tree with <= 4 leaves over <= 4 genes (16 548 trees: 1/1/3/11 shapes
for 1..4 leaves x every and/or labelling of the internal nodes x every gene labelling of the leaves), packed `PACK` at a
time as the rules of the reactions of one small model, so that the four genes are shared between many reactions; for
every model every subset G of the four genes (16) and every order of G (quick: all orders of the subsets of size <= 3 = 41 sequences
plus 6 seeded of the 24 orders of the full set; thorough: all 65 sequences), knocked out through
  * "gene"  : Gene.knock_out(), one gene at a time in that order,
  * "model" : cobra.manipulation.knock_out_model_genes(model, <G in that order>) (genes given as objects / ids / ints / mixed / with a repeat),
  * "rxn"   : Reaction.knock_out() on every reaction of the intact model, and on one reaction after the genes,
outside a context, inside `with model:` and inside two nested contexts (first half of the knock-outs in the outer one;
the nested form alternates between the two gene entry points).

Oracle: `bcc.c07_rules.holds` — an independent recursive evaluator on the generator's own tree (never cobra's parser or
GPR.eval).  After knocking out G:
  bounds(r) == (0, 0)  <=>  r has a rule and the rule is false with G absent      (original bounds are never (0, 0))
  every other reaction (also every reaction without a rule) keeps its original bounds,
  gene.functional == (gene not in G), reaction.functional == value of the rule,
  the solver holds exactly the bounds the reactions report (column bounds read back from GLPK after every sequence,
  the complete bcc.views.check_lp_reported on every third one and on all Reaction.knock_out cases),
  knock_out_model_genes returns exactly (as a set, no repeats) the reactions that are off,
  Reaction.knock_out() zeroes that reaction's bounds and nothing else.
Integrity (needed to reuse a model for the next sequence, reported under the key "restore"): leaving the context(s)
returns bounds / functional flags / solver bounds to the initial state.

The thorough tier repeats the exhaustive part under three packings / identifier assignments / bound assignments and adds
seeded random trees with 5-6 leaves over 5 genes (all 32 subsets, all orders of subsets of size <= 3).
"""
import itertools
import os
import random
import time
import warnings

from bcc import c07_rules as R

KNOWN_KEYS = set()

INF = float("inf")
PACK = 24
# original bounds are never (0, 0) so that "(0, 0) iff the rule is false" is meaningful
BOUNDS = [(-1000.0, 1000.0), (0.0, 1000.0), (-1000.0, 0.0), (1.0, 10.0), (-10.0, -1.0), (2.0, 2.0), (-5.0, 1000.0),
          (0.0, INF), (-INF, INF), (-INF, 0.0), (-3.0, -3.0), (0.0, 0.5)]
# identifiers that are substrings of each other (a membership test on a string instead of a set would go wrong)
NAMESETS = [["g1", "g11", "ab", "b"], ["b", "ab", "g11", "g1"], ["G_1", "g_1", "x", "xx"], ["a", "aa", "aaa", "b0001"],
            ["s0001", "s00010", "STM1", "STM11"]]
NAMES5 = ["g1", "g11", "ab", "b", "g"]


def _quiet():
    warnings.filterwarnings("ignore")
    import logging
    logging.getLogger("cobra").setLevel(logging.CRITICAL)
    logging.getLogger("optlang").setLevel(logging.CRITICAL)


# ----------------------------------------------------------------------------------------------------------------------
# model construction
# ----------------------------------------------------------------------------------------------------------------------
def build(spec):
    """spec: {"names": [...], "rules": [tree json | None, ...], "bounds": [[lb, ub], ...]} -> (model, trees)"""
    import cobra
    names = spec["names"]
    trees = [None if j is None else R.from_json(j) for j in spec["rules"]]
    m = cobra.Model("c07")
    mets = [cobra.Metabolite(f"m{i}_c", compartment="c") for i in range(3)]
    rxns = []
    for i, (tree, b) in enumerate(zip(trees, spec["bounds"])):
        r = cobra.Reaction(f"R{i}" if tree is not None else f"N{i}")
        r.add_metabolites({mets[i % 3]: -1.0, mets[(i + 1) % 3]: 1.0} if i % 4 else {mets[i % 3]: -1.0})
        r.bounds = (float(b[0]), float(b[1]))
        if tree is not None:
            r.gene_reaction_rule = R.render(tree, names)
        rxns.append(r)
    m.add_reactions(rxns)
    m.objective = rxns[0]
    return m, trees


def _jb(b):
    return [("inf" if x == INF else "-inf" if x == -INF else x) for x in b]


def _ub(b):
    return [float(x) for x in b]


# ----------------------------------------------------------------------------------------------------------------------
# one scenario
# ----------------------------------------------------------------------------------------------------------------------
class Case:
    """A model under test with its oracle tables and its initial state."""

    def __init__(self, spec):
        self.spec = spec
        self.model, self.trees = build(spec)
        self.names = spec["names"]
        self.ng = len(self.names)
        self.tables = [None if t is None else R.table(t, self.ng) for t in self.trees]
        self.orig = [tuple(float(x) for x in b) for b in spec["bounds"]]
        self.rxns = list(self.model.reactions)
        self._cols = None
        self.genes = {}
        for i, nm in enumerate(self.names):
            if nm in self.model.genes:
                self.genes[i] = self.model.genes.get_by_id(nm)

    def solver_bounds(self):
        """column bounds read back from GLPK only (cheap form of Inv_LP used for the restore check)"""
        import swiglpk as g
        from bcc.views import var_bounds_for
        solver = self.model.solver
        solver.update()
        p = solver.problem
        if self._cols is None:
            idx = {g.glp_get_col_name(p, j): j for j in range(1, g.glp_get_num_cols(p) + 1)}
            self._cols = [(idx[r.id], idx[r.reverse_id]) for r in self.rxns]
        out = []
        for r, (jf, jr) in zip(self.rxns, self._cols):
            exp = var_bounds_for(float(r.lower_bound), float(r.upper_bound))
            for j, (lb, ub) in zip((jf, jr), exp):
                t = g.glp_get_col_type(p, j)
                glb = -INF if t in (g.GLP_FR, g.GLP_UP) else g.glp_get_col_lb(p, j)
                gub = INF if t in (g.GLP_FR, g.GLP_LO) else (g.glp_get_col_ub(p, j) if t != g.GLP_FX else glb)
                if (glb, gub) != (lb, ub):
                    out.append(f"variable {g.glp_get_col_name(p, j)}: solver bounds ({glb},{gub}) expected ({lb},{ub})")
        return out

    def check(self, G, K=(), full=True):
        """-> list of (kind, text): the state expected after knocking out the genes G (indices) and the reactions K"""
        from bcc.views import check_lp_reported
        out = []
        mask = 0
        for i in G:
            mask |= 1 << i
        for k, r in enumerate(self.rxns):
            tab = self.tables[k]
            val = True if tab is None else tab[mask]
            off = (not val) or (k in K)
            got = (float(r.lower_bound), float(r.upper_bound))
            if off and got != (0.0, 0.0):
                out.append(("not-zeroed", f"{r.id} rule '{r.gene_reaction_rule}' is false with "
                                          f"{[self.names[i] for i in G]} absent but bounds are {got}"
                            if k not in K else f"{r.id}.knock_out() left bounds {got}"))
            if not off and got != self.orig[k]:
                kind = "no-rule-affected" if tab is None else "wrongly-changed"
                out.append((kind, f"{r.id} rule '{r.gene_reaction_rule}' holds with {[self.names[i] for i in G]} absent "
                                  f"(knocked-out reactions {[self.rxns[j].id for j in K]}) but bounds went "
                                  f"{self.orig[k]} -> {got}"))
            f = r.functional
            if bool(f) != val:
                out.append(("reaction-functional", f"{r.id}.functional is {f}, rule '{r.gene_reaction_rule}' evaluates to "
                                                   f"{val} with {[self.names[i] for i in G]} absent"))
        for i, g in self.genes.items():
            if bool(g.functional) != (i not in G):
                out.append(("gene-functional", f"gene {g.id}.functional is {g.functional} after knocking out "
                                               f"{[self.names[j] for j in G]}"))
        lp = check_lp_reported(self.model) if full else self.solver_bounds()
        if lp:
            out.append(("lp", "solver does not hold the reported bounds: " + "; ".join(lp[:3])))
        return out

    def pristine(self):
        return not self.check(())

    def restore_by_hand(self):
        for g in self.model.genes:
            g._functional = True
        for r, b in zip(self.rxns, self.orig):
            r._lower_bound, r._upper_bound = b
            r.update_variable_bounds()


def _as_form(case, order, form):
    if form == "obj":
        return [case.genes[i] for i in order]
    if form == "id":
        return [case.names[i] for i in order]
    if form == "int":
        return [case.model.genes.index(case.names[i]) for i in order]
    if form == "mixed":
        return [case.genes[i] if k % 2 else case.names[i] for k, i in enumerate(order)]
    if form == "dup":  # the first gene is named twice
        return [case.names[i] for i in order] + [case.genes[i] for i in order[:1]]
    raise ValueError(form)


def scenario(case, sc):
    """sc: {"entry": gene|model|rxn, "order": [gene idx...], "ctx": 0|1|2, "form": ..., "rxn": idx|None}
    -> list of (kind, text)"""
    from cobra.manipulation import knock_out_model_genes
    import contextlib
    model = case.model
    order = [i for i in sc["order"] if i in case.genes]
    absent_order = list(order)
    out = []
    ctx = sc["ctx"]
    entry = sc["entry"]
    split = len(order) // 2 if ctx == 2 else 0

    def do(sub):
        if not sub and entry != "model":
            return
        if entry == "gene":
            for i in sub:
                case.genes[i].knock_out()
        elif entry == "model":
            before = [i for i, g in case.genes.items() if not g.functional]
            ret = knock_out_model_genes(model, _as_form(case, sub, sc.get("form", "obj")))
            if before:
                return  # the return value is only specified here for a call that starts from the intact model
            mask = 0
            for i in sub:
                mask |= 1 << i
            exp = sorted(r.id for k, r in enumerate(case.rxns) if case.tables[k] is not None and not case.tables[k][mask])
            ok = isinstance(ret, list) and all(hasattr(x, "id") for x in ret)
            got = sorted(x.id for x in ret) if ok else repr(ret)
            if not ok or got != exp or any(x is not model.reactions.get_by_id(x.id) for x in ret):
                out.append(("return-value", f"knock_out_model_genes({[case.names[i] for i in sub]}) returned "
                                            f"{got}, reactions turned off: {exp}"))

    with contextlib.ExitStack() as stack:
        if ctx >= 1:
            stack.enter_context(model)
        do(order[:split]) if split else None
        if ctx == 2:
            stack.enter_context(model)
        do(order[split:])
        K = ()
        if sc.get("rxn") is not None:
            case.rxns[sc["rxn"]].knock_out()
            K = (sc["rxn"],)
        # solver side: column bounds read back from GLPK every time, the complete Inv_LP (rows, objective, stray
        # variables as well) on every third sequence
        out += case.check(absent_order, K, full=sc.get("full", True))
    if ctx >= 1:
        back = case.check((), full=False)
        if back:
            out.append(("restore", "after leaving the context: " + back[0][1]))
            case.restore_by_hand()
    else:
        case.restore_by_hand()
    return out


# ----------------------------------------------------------------------------------------------------------------------
# enumeration of the scenarios of one model
# ----------------------------------------------------------------------------------------------------------------------
def scenarios_for(case, rng, all_orders_upto, rxn_all=True):
    forms = ["obj", "id", "int", "mixed", "dup"]
    k = rng.randrange(1000)
    nr = len(case.rxns)
    for G in R.subsets(case.ng):
        if len(G) <= all_orders_upto:
            perms = R.orders(G, all_orders_upto)
        else:  # larger subsets: six seeded orders
            perms = [list(p) for p in rng.sample(list(itertools.permutations(G)), 6)]
        for order in perms:
            for ctx in (0, 1, 2):
                if ctx == 2 and len(order) < 2:
                    continue
                k += 1
                if ctx < 2 or k % 2 == 0:
                    yield {"entry": "gene", "order": order, "ctx": ctx, "rxn": (k % nr) if k % 5 == 0 else None,
                           "full": k % 3 == 0}
                if ctx < 2 or k % 2 == 1:
                    yield {"entry": "model", "order": order, "ctx": ctx, "form": forms[k % 5], "rxn": None,
                           "full": k % 3 == 1}
    if rxn_all:
        for j in range(nr):
            for ctx in (0, 1):
                yield {"entry": "rxn", "order": [], "ctx": ctx, "rxn": j}


def _single_rule_spec(spec, k):
    """the model reduced to reaction k and the rule-less reactions (for a small replay)"""
    keep = [i for i, r in enumerate(spec["rules"]) if i == k or r is None]
    return {"names": spec["names"], "rules": [spec["rules"][i] for i in keep], "bounds": [spec["bounds"][i] for i in keep]}, keep


def _run_model(args):
    spec, seed, all_orders_upto = args
    _quiet()
    rng = random.Random(seed)
    spec = dict(spec, bounds=[_ub(b) for b in spec["bounds"]])
    case = Case(spec)
    n_scen = 0
    fails = {}
    nontrivial = 0
    rule_cases = 0
    if not case.pristine():
        fails["setup"] = {"key": "setup", "failure": "freshly built model is not in the expected initial state: "
                          + case.check(())[0][1], "replay": {"spec": _jspec(spec), "sc": None}, "count": 1}
        return 0, 0, 0, list(fails.values()), None
    n_rules = sum(1 for t in case.trees if t is not None)
    gsets = [R.genes_of(t) if t is not None else set() for t in case.trees]
    sample = None
    for sc in scenarios_for(case, rng, all_orders_upto):
        try:
            res = scenario(case, sc)
        except Exception as e:  # noqa: a raising knock-out is a violation; the model state is unknown afterwards
            res = [("raises", f"{sc} raised {e!r}")]
            case = Case(spec)
        n_scen += 1
        rule_cases += n_rules
        G = set(sc["order"])
        nontrivial += sum(1 for gs in gsets if gs & G) + (1 if sc.get("rxn") is not None else 0)
        if sample is None and len(sc["order"]) == 3 and sc["entry"] == "model":
            mask = sum(1 << i for i in G)
            sample = {"genes": spec["names"], "order": [spec["names"][i] for i in sc["order"]], "entry": sc["entry"],
                      "ctx": sc["ctx"], "form": sc.get("form"),
                      "rules_false": [case.rxns[k].gene_reaction_rule for k in range(len(case.rxns))
                                      if case.tables[k] is not None and not case.tables[k][mask]][:4],
                      "rules_true": [case.rxns[k].gene_reaction_rule for k in range(len(case.rxns))
                                     if case.tables[k] is not None and case.tables[k][mask]][:4]}
        for kind, text in res:
            key = f"{sc['entry']}:{kind}"
            rid = text.split(" ")[0].split(".")[0]
            leaves = [R.n_leaves(case.trees[k]) for k, r in enumerate(case.rxns) if r.id == rid and case.trees[k] is not None]
            size = (len(sc["order"]), leaves[0] if leaves else 9, sc["ctx"])
            if key in fails:
                fails[key]["count"] += 1
                if fails[key]["_size"] <= size:
                    continue
            cnt = fails[key]["count"] if key in fails else 1
            fails[key] = {"key": key, "failure": text, "replay": {"spec": _jspec(spec), "sc": sc, "key": key}, "count": cnt,
                          "_size": size}
    # shrink the witnesses to a single-rule model where that still fails
    for f in fails.values():
        f.pop("_size", None)
        txt = f["failure"]
        rid = txt.split(" ")[0].split(".")[0]
        ks = [k for k, r in enumerate(case.rxns) if r.id == rid and case.trees[k] is not None]
        if ks and f["replay"]["sc"] is not None:
            small, keep = _single_rule_spec(spec, ks[0])
            sc = dict(f["replay"]["sc"])
            if sc.get("rxn") is not None:
                sc["rxn"] = keep.index(sc["rxn"]) if sc["rxn"] in keep else None
            try:
                c2 = Case(small)
                r2 = scenario(c2, sc)
                if any(f"{sc['entry']}:{kind}" == f["key"] for kind, _ in r2):
                    f["replay"] = {"spec": _jspec(small), "sc": sc, "key": f["key"]}
                    f["failure"] = [t for kind, t in r2 if f"{sc['entry']}:{kind}" == f["key"]][0]
            except Exception:  # noqa
                pass
    return n_scen, rule_cases, nontrivial, list(fails.values()), sample


def _jspec(spec):
    return {"names": spec["names"], "rules": spec["rules"], "bounds": [_jb(b) for b in spec["bounds"]]}


def _specs(trees, rng, names_list, pack):
    """pack the trees into models: `pack` rules + 2 rule-less reactions each"""
    trees = list(trees)
    rng.shuffle(trees)
    for a in range(0, len(trees), pack):
        chunk = trees[a:a + pack]
        rules = [R.to_json(t) for t in chunk]
        # rule-less reactions at seeded positions
        for _ in range(2):
            rules.insert(rng.randrange(len(rules) + 1), None)
        off = rng.randrange(len(BOUNDS))
        bounds = [BOUNDS[(off + i) % len(BOUNDS)] for i in range(len(rules))]
        yield {"names": rng.choice(names_list), "rules": rules, "bounds": [_jb(b) for b in bounds]}


def run(tier, seed):
    _quiet()
    import multiprocessing as mp
    import cobra  # noqa: imported before the fork so that the workers inherit it
    t0 = time.time()
    rng = random.Random(seed)
    tasks = []
    rounds = 1 if tier == "quick" else 3
    n_trees = 0
    for rd in range(rounds):
        trees = list(R.all_trees(4, 4))
        n_trees = len(trees)
        for spec in _specs(trees, rng, NAMESETS, (PACK, 8, 40)[rd]):
            tasks.append((spec, rng.randrange(10 ** 9), 3 if tier == "quick" else 4))
    n_random = 0
    if tier != "quick":
        big = [R.random_tree(rng, 6, 5) for _ in range(6000)]
        big = [t for t in big if R.n_leaves(t) >= 5]
        n_random = len(big)
        for spec in _specs(big, rng, [NAMES5], 16):
            tasks.append((spec, rng.randrange(10 ** 9), 3))
    with mp.get_context("fork").Pool(min(16, os.cpu_count() or 1)) as pool:
        results = pool.map(_run_model, tasks, chunksize=4)
    n_scen = sum(r[0] for r in results)
    rule_cases = sum(r[1] for r in results)
    nontrivial = sum(r[2] for r in results)
    merged = {}
    for r in results:
        for f in r[3]:
            if f["key"] in merged:
                merged[f["key"]]["count"] += f["count"]
                old = merged[f["key"]]
                if len(str(f["replay"])) < len(str(old["replay"])):
                    f["count"] = old["count"]
                    merged[f["key"]] = f
            else:
                merged[f["key"]] = f
    failures = []
    for f in merged.values():
        f["failure"] = f"{f['failure']}  [{f.pop('count')} occurrences]"
        failures.append(f)
    samples = [r[4] for r in results if r[4]][:2]
    return {
        "evaluations": n_scen,
        "distinct_nontrivial": nontrivial,
        "rule_cases": rule_cases,
        "rule": "evaluation = one knock-out sequence executed on one model (entry point x ordered gene subset x context "
                "depth [x one reaction knock-out]) and checked on every reaction, gene and solver variable of that model; "
                "rule_cases = evaluations x rules in the model; distinct_nontrivial = number of (rule, sequence) pairs in "
                "which the knocked-out set meets the rule's genes (all pairs are distinct: every tree occurs once per "
                "round) plus the reaction knock-outs",
        "bounds": {"max_leaves": 4, "genes": 4, "trees": n_trees, "rounds": rounds, "rules_per_model": PACK,
                   "subsets": 16, "orders": "all orders of every subset of size <= 3 (41 sequences) + 6 seeded of the 24 orders of the "
                                               "full set" if tier == "quick" else "all (65 sequences)", "entry_points": ["Gene.knock_out", "knock_out_model_genes",
                                                                                  "Reaction.knock_out"],
                   "context_depths": [0, 1, 2], "random_trees_5_6_leaves_5_genes": n_random, "models": len(tasks),
                   "seconds": round(time.time() - t0, 1)},
        "exhaustive": True,
        "samples": samples,
        "failures": sorted(failures, key=lambda f: f["key"]),
    }


def replay(payload):
    _quiet()
    spec = dict(payload["spec"], bounds=[_ub(b) for b in payload["spec"]["bounds"]])
    case = Case(spec)
    if payload.get("sc") is None:
        res = case.check(())
        return res[0][1] if res else None
    try:
        res = scenario(case, payload["sc"])
    except Exception as e:  # noqa
        res = [("raises", f"{payload['sc']} raised {e!r}")]
    want = payload.get("key")
    for kind, text in res:
        if want is None or f"{payload['sc']['entry']}:{kind}" == want:
            return text
    return None
