"""C18 (bounded tier) — Medium get/set are inverse and a minimal medium is sufficient and minimal.

Real code under test: Model.medium getter / setter (core/model.py), Model.exchanges -> cobra.medium.find_boundary_types /
is_boundary_type / find_external_compartment, cobra.medium.minimal_medium (+ add_linear_obj, add_mip_obj, _as_medium).
Oracle: the expected bounds written down directly from the statement; bcc.oracle_lp (exact LP) for sufficiency and
minimality; exhaustive subset enumeration (<= 6 exchanges, subsets by increasing size) for minimize_components.

Models: 2-6 exchanges on external metabolites (compartment e), each written `x -->` or `--> x` (bounds mirrored), bounds
from {import+export, import only, export only, closed, forced import, forced export, fractional}; internal metabolites in
c, random internal reactions (coefficients 1/2), a demand DM_* and sometimes a sink SK_* on internal metabolites (boundary
reactions that are *not* exchanges and must never be touched), sometimes a boundary reaction on an external metabolite
that is excluded by id (DM_) or SBO term, sometimes an exchange recognised only through its SBO annotation.  The set of
exchanges expected is the one fixed by construction, not Model.exchanges.

A. medium accessors, for sub-dictionaries d of the exchanges with values from {0, 0.0, 1, 2.5, 5, 10, 1000, 1e-9}:
   getter on the untouched model == {e: import bound | import bound > 0}                                   [medium:getter]
   `model.medium = d`: listed exchange: import bound == value; unlisted exchange: import closed (x -->: lb' = max(lb, 0);
   --> x: ub' = min(ub, 0)); export bounds and every non-exchange reaction untouched                     [medium:setter-*]
   model.medium afterwards == {k: v in d | v > 0}                                                        [medium:roundtrip]
   model.medium = model.medium changes no bound                                                          [medium:idempotent]
   Crossing cases (value beyond the opposite bound, or closing an exchange with forced import): the statement does not
   require success; observed behaviour on the pinned tree: ValueError from the Reaction bound setter, the model partly
   updated.  Accepted there: ValueError, or the full postcondition.  A ValueError in a non-crossing case is a failure
   [medium:unexpected-raise].
B. minimal_medium(model, target, exports=, minimize_components=, open_exchanges=), objective direction max:
   None  <=>  no flux distribution within the (opened) bounds reaches c.v >= target                        [minimal_medium:none]
   sufficiency: the positive entries applied as the medium to the (opened) model — import bound = value, other imports
   closed, exports untouched, done on the LP directly — allow max c.v >= target - 1e-6                [minimal_medium:insufficient]
   default: sum of the positive entries == exact min of total import flux                             [minimal_medium:total]
   minimize_components=True / n: number of positive entries (per column) == exact minimum number of importing exchanges
                                                                                                      [minimal_medium:components]
   exports=False: only positive entries; keys are exchanges                                           [minimal_medium:entries]
   Targets: default 0.1, 0.5*max, max, max+1 (max under the current and under the opened bounds).  A target whose float
   lies within 1e-5 above the exact maximum is not used for the None clause.
   Every third request is repeated on the same model with objective direction "min": minimal_medium constrains the objective
   EXPRESSION to >= the requested value whatever the direction, so the oracle (is c.v >= target reachable?) is unchanged.
Not covered: infinite exchange bounds (add_mip_obj's big-M is max |bound|), non-exchange keys in the medium dict.
"""
import itertools
import math
import random
import time
from fractions import Fraction

from bcc import oracle_lp
from bcc import c09_util as U

KNOWN_KEYS = set()
INF = float("inf")
TOL = 1e-6

# (lb, ub) in the orientation `x -->` : lb = -(import cap), ub = export cap
EX_B = [(-10.0, 1000.0)] * 3 + [(-1000.0, 1000.0)] * 2 + [(0.0, 1000.0), (-5.0, 0.0), (-10.0, 10.0), (-10.0, -1.0),
                                                          (1.0, 10.0), (0.0, 0.0), (-2.5, 1000.0), (-3.0, 1000.0),
                                                          (-3000.0, 1000.0), (-2000.0, 500.0)]
IN_B = [(0.0, 3000.0), (-3000.0, 1000.0)] + [(0.0, 1000.0)] * 4 + [(-1000.0, 1000.0)] * 3 + [(0.0, 10.0), (-10.0, 10.0), (-1000.0, 0.0), (0.0, 5.0)]
VALUES = [0, 0.0, 1, 2.5, 5, 5.0, 10, 10.0, 1000, 1e-9]


# ----------------------------------------------------------------------------------------------------------------------
# models: JSON spec -> cobra model (kept separate from gen.describe because annotations matter here)
# ----------------------------------------------------------------------------------------------------------------------
def random_spec(rng):
    n_ex = rng.randint(2, 6)
    n_in = rng.randint(1, 3)
    mets = [[f"x{i}_e", "e"] for i in range(n_ex)] + [[f"y{i}_c", "c"] for i in range(n_in)]
    rxns = []          # [id, lb, ub, stoich, sbo or None]
    exchanges = []
    for i in range(n_ex):
        lb, ub = rng.choice(EX_B)
        rid = f"EX_x{i}"
        sbo = None
        if rng.random() < 0.12:
            rid, sbo = f"DM_odd{i}", "SBO:0000627"         # exchange by annotation only (the id alone would exclude it)
        elif rng.random() < 0.1:
            sbo = "SBO:0000627"
        if rng.random() < 0.35:
            rxns.append([rid, -ub, -lb, {f"x{i}_e": 1.0}, sbo])
        else:
            rxns.append([rid, lb, ub, {f"x{i}_e": -1.0}, sbo])
        exchanges.append(rid)
    ids = [m[0] for m in mets]
    n_int = rng.randint(2, 5)
    made = []
    for i in range(n_int):
        if i < n_in:
            # make every internal metabolite reachable: x_j (+ x_k) -> y_i
            a = rng.randrange(n_ex)
            st = {f"x{a}_e": -float(rng.choice([1, 1, 2])), f"y{i}_c": 1.0}
            if rng.random() < 0.4 and n_ex > 1:
                b = rng.choice([k for k in range(n_ex) if k != a])
                st[f"x{b}_e"] = -1.0 if rng.random() < 0.7 else 1.0
        elif rng.random() < 0.3 and made:
            st = {k: -v for k, v in rng.choice(made).items()}
        else:
            a, b = rng.sample(ids, 2)
            st = {a: -float(rng.choice([1, 1, 2])), b: float(rng.choice([1, 1, 2]))}
        made.append(st)
        lb, ub = rng.choice(IN_B)
        rxns.append([f"R{i}", lb, ub, st, None])
    # demand on an internal metabolite: boundary, not an exchange
    tgt = f"y{rng.randrange(n_in)}_c"
    rxns.append(["DM_b", 0.0, 1000.0, {tgt: -1.0}, None])
    if rng.random() < 0.3:
        rxns.append(["SK_s", -3.0, 1000.0, {f"y{rng.randrange(n_in)}_c": -1.0}, None])
    if rng.random() < 0.2:
        rxns.append(["DM_x0", -2.0, 5.0, {"x0_e": -1.0}, None])                       # excluded by id
    if rng.random() < 0.15:
        rxns.append(["EX_fake", -4.0, 1000.0, {f"x{n_ex - 1}_e": -1.0}, "SBO:0000628"])    # excluded by annotation (demand)
    cand = ["DM_b"] * 3 + [r[0] for r in rxns if r[0].startswith("R")] + exchanges[-1:]
    obj = {rng.choice(cand): float(rng.choice([1, 1, 2]))}
    if obj.keys() == {exchanges[-1]}:
        # "more export" whatever way it is written
        r = next(r for r in rxns if r[0] == exchanges[-1])
        obj = {exchanges[-1]: -1.0 if list(r[3].values())[0] > 0 else 1.0}
    return {"id": f"c18_{rng.randint(0, 10**6)}", "metabolites": mets, "reactions": rxns, "objective": obj,
            "exchanges": exchanges}


def corner_specs():
    # textbook shape: two substrates, one by-product, biomass needs both or a lot of one
    yield {"id": "corner1", "metabolites": [["a_e", "e"], ["b_e", "e"], ["w_e", "e"], ["p_c", "c"]],
           "reactions": [["EX_a", -10.0, 1000.0, {"a_e": -1.0}, None], ["EX_b", -1000.0, 5.0, {"b_e": 1.0}, None],
                         ["EX_w", 0.0, 1000.0, {"w_e": -1.0}, None],
                         ["R1", 0.0, 1000.0, {"a_e": -1.0, "b_e": -1.0, "p_c": 1.0, "w_e": 1.0}, None],
                         ["R2", 0.0, 1000.0, {"a_e": -3.0, "p_c": 1.0}, None], ["DM_b", 0.0, 1000.0, {"p_c": -1.0}, None]],
           "objective": {"DM_b": 1.0}, "exchanges": ["EX_a", "EX_b", "EX_w"]}
    yield {"id": "corner2", "metabolites": [["a_e", "e"], ["b_e", "e"], ["p_c", "c"]],
           "reactions": [["EX_a", -1000.0, 10.0, {"a_e": 1.0}, None], ["EX_b", -10.0, -1.0, {"b_e": -1.0}, None],
                         ["R1", 0.0, 1000.0, {"a_e": -1.0, "p_c": 1.0}, None], ["R2", 0.0, 1000.0, {"b_e": -2.0, "p_c": 1.0}, None],
                         ["DM_b", 0.0, 1000.0, {"p_c": -1.0}, None], ["SK_s", -3.0, 1000.0, {"p_c": -1.0}, None]],
           "objective": {"DM_b": 1.0}, "exchanges": ["EX_a", "EX_b"]}


def asym_specs():
    """the largest |bound| of the exchanges is an import bound (a lower bound for `x -->`, an upper bound for `--> x`) and the
    targets need more import than any bound on the other side allows (big-M of add_mip_obj, open_exchanges numbers)"""
    for rev in (False, True):
        for big, other in ((3000.0, 1000.0), (3000.0, 10.0)):
            ex_a = ["EX_a", -other, big, {"a_e": 1.0}, None] if rev else ["EX_a", -big, other, {"a_e": -1.0}, None]
            yield {"id": f"asym{int(rev)}_{int(other)}", "metabolites": [["a_e", "e"], ["b_e", "e"], ["p_c", "c"]],
                   "reactions": [ex_a, ["EX_b", -5.0, other, {"b_e": -1.0}, None],
                                 ["R1", 0.0, 3000.0, {"a_e": -1.0, "p_c": 1.0}, None],
                                 ["R2", 0.0, 3000.0, {"b_e": -1.0, "p_c": 2.0}, None],
                                 ["DM_b", 0.0, 3000.0, {"p_c": -1.0}, None]],
                   "objective": {"DM_b": 1.0}, "exchanges": ["EX_a", "EX_b"]}


def build(spec):
    import cobra
    m = cobra.Model(spec["id"])
    mets = {mid: cobra.Metabolite(mid, compartment=c) for mid, c in spec["metabolites"]}
    m.add_metabolites(list(mets.values()))
    rs = []
    for rid, lb, ub, st, sbo in spec["reactions"]:
        r = cobra.Reaction(rid)
        r.bounds = (float(lb), float(ub))
        r.add_metabolites({mets[k]: v for k, v in st.items()})
        if sbo:
            r.annotation["sbo"] = sbo
        rs.append(r)
    m.add_reactions(rs)
    from cobra.util.solver import set_objective
    set_objective(m, {m.reactions.get_by_id(k): v for k, v in spec["objective"].items()})
    m.objective_direction = "max"
    return m


def orientation(spec):
    """{exchange id: +1 if written `--> x` (flux > 0 imports), -1 if written `x -->`}"""
    out = {}
    for rid, lb, ub, st, sbo in spec["reactions"]:
        if rid in spec["exchanges"]:
            out[rid] = 1 if list(st.values())[0] > 0 else -1
    return out


def import_bound(ori, lb, ub):
    return ub if ori > 0 else -lb


def lp_of(spec, bounds):
    lp = oracle_lp.LP()
    rows = {mid: {} for mid, _ in spec["metabolites"]}
    for rid, _, _, st, _ in spec["reactions"]:
        lp.var(rid, *bounds[rid])
        for k, v in st.items():
            rows[k][rid] = rows[k].get(rid, 0.0) + v
    for mid, coefs in rows.items():
        lp.con(coefs, 0.0, 0.0)
    return lp


def base_bounds(spec, open_exchanges):
    b = {rid: (float(lb), float(ub)) for rid, lb, ub, _, _ in spec["reactions"]}
    if open_exchanges:
        ob = 1000.0 if isinstance(open_exchanges, bool) else float(open_exchanges)
        for e in spec["exchanges"]:
            b[e] = (-ob, ob)
    return b


def close_imports(spec, bounds, allowed):
    """bounds with import closed on every exchange outside `allowed` ({id: import cap or None to keep})"""
    ori = orientation(spec)
    out = dict(bounds)
    for e in spec["exchanges"]:
        lb, ub = bounds[e]
        if e in allowed:
            cap = allowed[e]
            if cap is not None:
                lb, ub = (lb, cap) if ori[e] > 0 else (-cap, ub)
        else:
            lb, ub = (lb, min(ub, 0.0)) if ori[e] > 0 else (max(lb, 0.0), ub)
        out[e] = (lb, ub)
    return out


# ----------------------------------------------------------------------------------------------------------------------
# cases
# ----------------------------------------------------------------------------------------------------------------------
def build_cases(tier, seed):
    rng = random.Random(seed * 15485863 + 5)
    specs = list(corner_specs()) + list(asym_specs())
    n = 70 if tier == "quick" else 600
    for _ in range(n):
        specs.append(random_spec(rng))
    cases = []
    for spec in specs:
        ex = spec["exchanges"]
        # A. accessors
        dicts = [{}, {e: 10 for e in ex}]
        for _ in range(4 if tier == "quick" else 10):
            k = rng.randint(0, len(ex))
            dicts.append({e: rng.choice(VALUES) for e in rng.sample(ex, k)})
        cases.append({"task": "medium", "spec": spec, "dicts": dicts})
        # B. minimal_medium
        b0 = base_bounds(spec, False)
        b1 = base_bounds(spec, True)
        mx0 = lp_of(spec, b0).solve(spec["objective"], "max")
        mx1 = lp_of(spec, b1).solve(spec["objective"], "max")
        targets = {0.1}
        for st, val, _ in (mx0, mx1):
            if st == "optimal" and val > 0:
                targets |= {float(val) / 2, float(val), float(val) + 1.0}
        targets = sorted(t for t in targets if t > 0)
        flagsets = []
        for t in targets:
            for oe in (False, True):
                flagsets.append((t, False, False, oe))
                flagsets.append((t, rng.random() < 0.5, True, oe))
            flagsets.append((t, rng.random() < 0.5, rng.choice([2, 3]), rng.random() < 0.5))
            flagsets.append((t, True, False, rng.choice([False, 5, 50])))
        if tier == "quick" and len(flagsets) > 14:
            keep = flagsets[:]
            rng.shuffle(keep)
            flagsets = keep[:14]
        for j, (t, exports, mc, oe) in enumerate(flagsets):
            cases.append({"task": "minimal_medium", "spec": spec, "target": t, "exports": exports,
                          "minimize_components": mc, "open_exchanges": oe})
            if j % 3 == 0:
                # the same request on a model whose objective direction is "min": the documented constraint is `objective
                # expression >= min_objective_value` whatever the direction, so the oracle (is c.v >= target reachable?) is the same
                cases.append(dict(cases[-1], direction="min"))
    return cases


# ----------------------------------------------------------------------------------------------------------------------
# checks
# ----------------------------------------------------------------------------------------------------------------------
def check_medium(case):
    spec = case["spec"]
    ori = orientation(spec)
    ex = spec["exchanges"]
    fails = []
    n_eval = 0
    sigs = []
    model = build(spec)
    b0 = {r.id: (r.lower_bound, r.upper_bound) for r in model.reactions}
    found = sorted(r.id for r in model.exchanges)
    if found != sorted(ex):
        fails.append(("medium:exchange-set", f"Model.exchanges = {found}, expected by construction {sorted(ex)}"))
    exp_get = {e: import_bound(ori[e], *b0[e]) for e in ex if import_bound(ori[e], *b0[e]) > 0}
    got = model.medium
    if got != exp_get:
        fails.append(("medium:getter", f"model.medium = {got} expected {exp_get} for bounds { {e: b0[e] for e in ex} } "
                                       f"orientation {ori}"))
    # idempotence
    try:
        model.medium = model.medium
        b = {r.id: (r.lower_bound, r.upper_bound) for r in model.reactions}
        if b != b0:
            fails.append(("medium:idempotent", f"model.medium = model.medium changed bounds: "
                                               f"{ {k: (b0[k], b[k]) for k in b if b[k] != b0[k]} }"))
    except Exception as e:  # noqa
        fails.append(("medium:idempotent", f"model.medium = model.medium raised {e!r}"))
    n_eval += 2
    for d in case["dicts"]:
        model = build(spec)
        n_eval += 1
        exp = dict(b0)
        crossing = False
        for e in ex:
            lb, ub = b0[e]
            if e in d:
                x = d[e]
                nb = (lb, x) if ori[e] > 0 else (-x, ub)
            else:
                nb = (lb, min(ub, 0.0)) if ori[e] > 0 else (max(lb, 0.0), ub)
            if nb[0] > nb[1]:
                crossing = True
            exp[e] = nb
        sigs.append(U.case_sig([U.case_sig(spec["reactions"]), sorted(d.items()), crossing]))
        raised = None
        try:
            model.medium = dict(d)
        except ValueError as e:
            raised = e
        except Exception as e:  # noqa
            fails.append(("medium:unexpected-raise", f"medium = {d}: raised {e!r}"))
            continue
        if raised is not None:
            if not crossing:
                fails.append(("medium:unexpected-raise", f"medium = {d} crosses no opposite bound but raised {raised!r}; "
                                                         f"bounds { {e: b0[e] for e in ex} } orientation {ori}"))
            continue
        b = {r.id: (r.lower_bound, r.upper_bound) for r in model.reactions}
        bad = {k: {"before": b0[k], "after": b[k], "expected": exp[k]} for k in b
               if not (b[k][0] == exp[k][0] and b[k][1] == exp[k][1])}
        if bad:
            for k, v in list(bad.items())[:2]:
                if k not in ex:
                    key = "medium:setter-non-exchange"
                elif k in d:
                    key = "medium:setter-listed"
                else:
                    key = "medium:setter-unlisted"
                # which side is wrong: import or export?
                fails.append((key, f"medium = {d}: {k} (written {'--> x' if ori.get(k, 0) > 0 else 'x -->'}) {v}"))
            continue
        got = model.medium
        want = {k: v for k, v in d.items() if v > 0}
        if got != want:
            fails.append(("medium:roundtrip", f"after medium = {d}: model.medium = {got} expected {want}"))
    return {"failures": fails, "nontrivial": True, "evaluations": n_eval, "sigs": sigs, "info": {"exchanges": ex, "orientation": ori}}


def min_components(spec, bounds, target):
    ex = spec["exchanges"]
    for k in range(len(ex) + 1):
        for sub in itertools.combinations(ex, k):
            b = close_imports(spec, bounds, {e: None for e in sub})
            if any(lo > hi for lo, hi in b.values()):
                continue
            lp = lp_of(spec, b)
            U.con_exact(lp, spec["objective"], target, INF)
            if lp.feasible():
                return k
    return None


def check_minimal_medium(case):
    from cobra.medium import minimal_medium
    import pandas as pd
    spec = case["spec"]
    ori = orientation(spec)
    ex = spec["exchanges"]
    t = case["target"]
    tq = Fraction(t)
    oe = case["open_exchanges"]
    mc = case["minimize_components"]
    fails = []
    bounds = base_bounds(spec, oe)
    c = spec["objective"]
    lp = lp_of(spec, bounds)
    st, mx, _ = lp.solve(c, "max")
    if st == "optimal":
        gap = mx - tq
        expect = "some" if gap >= 0 else ("none" if gap < -Fraction(1, 10**5) else "undecided")
    else:
        expect = "none"          # infeasible model: no medium suffices
    model = build(spec)
    if case.get("direction") == "min":
        model.objective_direction = "min"
    try:
        res = minimal_medium(model, t, exports=case["exports"], minimize_components=mc, open_exchanges=oe)
    except Exception as e:  # noqa
        return {"failures": [("minimal_medium:exception", f"raised {e!r}")], "nontrivial": True}
    info = {"max": None if mx is None else float(mx), "expect": expect, "result": None if res is None else U.jsonable(res.to_dict())}
    if res is None:
        if expect == "some":
            fails.append(("minimal_medium:none", f"returned None but the target {t} is reachable (exact maximum {float(mx)})"))
        return {"failures": fails, "nontrivial": expect != "none" or st == "optimal", "info": info}
    if expect == "none":
        fails.append(("minimal_medium:none", f"returned {res.to_dict()} but no medium suffices (exact maximum "
                                             f"{None if mx is None else float(mx)} < target {t})"))
        return {"failures": fails, "nontrivial": True, "info": info}
    cols = [res[col] for col in res.columns] if isinstance(res, pd.DataFrame) else [res]
    # exact minima
    lpm = lp.copy()
    U.con_exact(lpm, c, tq - (Fraction(1, 10**9) if expect == "undecided" else 0), INF)
    names = []
    for e in ex:
        nm = "imp__" + e
        lpm.var(nm, 0.0, INF)
        lpm.con({nm: 1.0, e: -float(ori[e])}, 0.0, INF)       # imp >= ori * v  (import flux of the exchange)
        names.append(nm)
    stt, min_total, _ = lpm.solve({n: 1.0 for n in names}, "min")
    # a subset can sit exactly on the target (e.g. target = float(10/3)): the count is then decided by the solver's
    # feasibility tolerance, so the exact minimum is computed for the target and for target - 1e-7 and both are accepted
    min_k = min_k_relaxed = None
    if mc:
        min_k = min_components(spec, bounds, tq)
        min_k_relaxed = min_components(spec, bounds, tq - Fraction(1, 10**7) * max(1, abs(tq)))
        if min_k is None:
            min_k = min_k_relaxed
    info["min_total"] = None if min_total is None else float(min_total)
    info["min_components"] = min_k
    for col in cols:
        med = {str(k): float(v) for k, v in col.items()}
        pos = {k: v for k, v in med.items() if v > 0}
        if set(med) - set(ex):
            fails.append(("minimal_medium:entries", f"entries for non-exchanges {sorted(set(med) - set(ex))}"))
            continue
        if not case["exports"] and not isinstance(res, pd.DataFrame) and len(pos) != len(med):
            fails.append(("minimal_medium:entries", f"exports=False but non-positive entries in {med}"))
        # sufficiency, on the LP directly
        b = close_imports(spec, bounds, pos)
        if any(lo > hi + 1e-9 for lo, hi in b.values()):
            reach = None
        else:
            b = {k: (lo, max(lo, hi)) for k, (lo, hi) in b.items()}
            s2, reach, _ = lp_of(spec, b).solve(c, "max")
        if reach is None or float(reach) < t - TOL * max(1.0, abs(t)):
            fails.append(("minimal_medium:insufficient", f"medium {pos} applied to the model reaches "
                                                         f"{None if reach is None else float(reach)} < target {t}"))
        if mc:
            if not (min_k_relaxed <= len(pos) <= min_k):
                fails.append(("minimal_medium:components", f"{len(pos)} components {sorted(pos)} but the exact minimum number "
                                                           f"is {min_k}"))
        else:
            tot = sum(pos.values())
            if not oracle_lp.close(tot, min_total):
                fails.append(("minimal_medium:total", f"total import {tot!r} of {pos} but the exact minimum is "
                                                      f"{float(min_total)!r}"))
    nontrivial = bool(min_total is not None and min_total > 0)
    return {"failures": fails, "nontrivial": nontrivial, "info": info}


def run_case(case):
    U.silence()
    res = check_medium(case) if case["task"] == "medium" else check_minimal_medium(case)
    res.setdefault("evaluations", 1)
    light = {k: v for k, v in case.items() if k not in ("spec", "dicts")}
    if "sigs" not in res:
        res["sig"] = U.case_sig([U.case_sig(case["spec"]["reactions"]), case["spec"]["objective"], light])
    res["failures"] = [{"key": k, "failure": f"{case['spec']['id']} {light}: {msg}", "replay": case}
                       for k, msg in res["failures"]]
    res["sample"] = {"case": light, "spec": case["spec"], "info": res.get("info")}
    return res


def run(tier: str, seed: int) -> dict:
    t0 = time.time()
    U.silence()
    cases = build_cases(tier, seed)
    cases.sort(key=lambda c: 0 if (c["task"] == "minimal_medium" and c["minimize_components"]) else 1)
    t_gen = time.time() - t0
    deadline = (55 if tier == "quick" else 840) - t_gen
    results = U.run_pool(run_case, cases, deadline=max(10, deadline), chunksize=4)
    n_models = len({U.case_sig(c["spec"]["reactions"]) for c in cases})
    rule = ("2 corner + seeded random models (2-6 exchanges written either way with import/export/closed/forced bounds, "
            "demand/sink/id- or SBO-excluded boundary reactions, SBO-only exchanges, 1-3 internal metabolites, 2-5 internal "
            "reactions); A: getter, idempotence and 6 (thorough 12) sub-dictionaries per model with values from "
            "{0, 0.0, 1, 2.5, 5, 10, 1000, 1e-9}; B: minimal_medium x targets {0.1, max/2, max, max+1 under current and opened "
            "bounds} x exports x minimize_components {False, True, 2|3} x open_exchanges {False, True, 5|50}, every third request also with objective direction min; distinct = "
            "distinct (model structure, dictionary | target and flags); non-trivial: every accessor case; minimal_medium "
            "cases whose exact minimum total import is > 0")
    bounds = {"models": n_models, "max_exchanges": 6, "subset_enumeration": "2^n, n <= 6", "seed": seed, "tier": tier,
              "cases_generated": len(cases)}
    return U.assemble(cases, results, rule, bounds, exhaustive=False, t0=t0)


def replay(payload_replay: dict):
    U.silence()
    res = run_case(payload_replay)
    if res.get("failures"):
        return "; ".join(f"[{f['key']}] {f['failure']}" for f in res["failures"])
    return None
