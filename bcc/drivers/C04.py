"""C04 (bounded tier) — FBA returns a true optimum, or a true verdict that none exists.

Real code under test: Model.optimize / Model.slim_optimize / get_solution / Reaction.flux / Reaction.reduced_cost /
Metabolite.shadow_price on both optlang interfaces available here (glpk, glpk_exact).
Oracle: bcc.oracle_lp (exact rational LP, z3 Optimize) on the flux-balance problem rebuilt from the Python objects.

What is checked for one case = (model, interface)                                            [failure key]
 a. slim_optimize(error_value=E): exact optimum exists <=> solver status 'optimal'; then the value equals the exact
    optimum, otherwise the call returns E itself (default: nan)                              [status-*, slim-*]
 b. slim_optimize(error_value=None): value as in a., or raises cobra.exceptions.Infeasible / Unbounded according to the
    exact verdict, which is also the class OPTLANG_TO_EXCEPTIONS_DICT gives for the solver status   [slim-raise-*]
 c. optimize(): optimal iff the exact problem has an optimum; objective_value = exact optimum; |S v| <= 1e-6 per row,
    lb-1e-6 <= v <= ub+1e-6; objective_value = c.v                                           [optimize-*, primal-*]
 d. shadow prices are an optimal LP dual (the certificate).  Formulation: for any price vector pi put
    d_r = c_r - sum_m S_mr pi_m.  Weak duality for max: c.v = d.v + pi.(S v) = d.v <= D(pi) := sum_r max(d_r lb_r, d_r ub_r)
    for every feasible v (D = +inf if d_r > 0 meets ub = +inf or d_r < 0 meets lb = -inf); for min the mirror image with
    min / -inf.  By strong duality D(pi) = optimum iff pi is an optimal dual (dual feasible and complementary slack with
    every optimal v).  So the check is D(shadow prices) == exact optimum, evaluated in exact rational arithmetic from
    the reported floats; it uses nothing but S, bounds, c, the direction and the reported shadow prices, and it is
    indifferent to which optimal dual the solver picks (degenerate models).  |d_r| <= 1e-9 counts as 0 against an
    infinite bound.                                                                          [dual-certificate]
 e. reduced_costs[r] == c_r - sum_m S_mr * shadow_prices[m] (the statement's formula, on the reported shadow prices).
    If the reported value is exactly twice that: key 'reduced-cost-factor' (DESIGN section 9 #10), anything else:
    'reduced-cost-mismatch'.
 f. accessors right after optimize(): r.flux, r.reduced_cost, met.shadow_price == the Solution's entries   [accessor-*];
    on a problem without optimum they return a number or raise OptimizationError, no other exception class [accessor-raise-class]
 g. optimize(objective_sense in {None, maximize, minimize}, raise_error in {False, True}): verdict/value against the
    exact problem in that direction, and model.objective_direction afterwards == before, on every exit including the
    raising ones                       [optimize-direction-leak (raising exit), optimize-direction-not-restored (return)]
 h. snapshot: a returned Solution is bit-identical after bound edits, objective edits, optimize() and slim_optimize()
    on the model                                                                             [snapshot]
Model families: hand-made corner models; bcc.gen.random_model over the full gen.BOUNDS list; and (bcc.c04_util.forced_inf_model)
networks and chains whose reactions mix the one-sided infinite FORCED bounds (-inf,-5), (-inf,-1), (2,+inf), (5,+inf) with
the usual ones — gen.BOUNDS has no such pair, and Reaction.update_variable_bounds treats them in branches of their own.  In
that family the bounds reach the solver through three API paths in turn: Reaction(id, lower_bound=, upper_bound=),
reaction.bounds = (lb, ub) and reaction.lower_bound / reaction.upper_bound on the reaction inside the model (replay field "how").
Not demanded (the statement is silent): what the accessors do for a non-optimal status, and that optimize() returns
rather than raises for a non-optimal status.
"""
import math
import random
import time
from fractions import Fraction

from bcc import gen, oracle_lp
from bcc import c04_util as U

KNOWN_KEYS = set()
INF = float("inf")
SENT = -98765.4321
SOLVERS = ("glpk", "glpk_exact")
FEAS_TOL = 1e-6
DUAL_ZERO = 1e-9


# ----------------------------------------------------------------------------------------------------------------------
# hand-made corner models (every one is also run in the quick tier)
# ----------------------------------------------------------------------------------------------------------------------
def corner_models():
    lc = gen.linear_chain
    yield lc(2)
    yield lc(2, direction="min")
    yield lc(3, cyc=True)
    yield lc(3, cyc=True, direction="min")
    yield lc(2, reverse_exchange=True)
    yield lc(2, reverse_exchange=True, direction="min")
    yield lc(2, bounds={"R0": (2.0, 2.0)})
    yield lc(2, bounds={"R1": (1.0, 5.0)}, direction="min")
    yield lc(2, bounds={"EX_m0": (0.0, 0.0), "R0": (1.0, 10.0)})                       # infeasible (forced, no supply)
    yield lc(2, bounds={"EX_m0": (0.0, 0.0), "R0": (1.0, 10.0)}, direction="min")
    yield lc(1, bounds={"EX_m0": (-INF, 1000.0), "R0": (0.0, INF), "EX_out": (0.0, INF)})  # unbounded for max
    yield lc(1, bounds={"EX_m0": (-INF, 1000.0), "R0": (0.0, INF), "EX_out": (0.0, INF)}, direction="min")
    yield lc(1, bounds={"EX_m0": (-INF, INF), "R0": (-INF, INF), "EX_out": (-INF, INF)}, direction="min")
    yield lc(3, cyc=True, bounds={"CYC": (-INF, INF), "R0": (0.0, INF), "R1": (0.0, INF)}, objective="R0")  # ray in a cycle
    yield lc(2, bounds={"EX_m0": (-10.0, -1.0), "EX_out": (0.0, 0.0)})                 # infeasible (forced uptake, closed)
    yield lc(2, bounds={"R0": (-10.0, -1.0)})                                          # infeasible (forced backwards)
    yield lc(2, objective="EX_m0", direction="min")
    yield lc(2, objective="R1", bounds={"R1": (0.0, INF), "EX_m0": (-5.0, 1000.0)})
    # two parallel routes of equal yield (degenerate: many optimal primal and dual solutions)
    import cobra
    m = cobra.Model("par")
    a, b = cobra.Metabolite("a_c", compartment="c"), cobra.Metabolite("b_c", compartment="c")
    rx = []
    for rid, st, bd in [("EX_a", {a: -1.0}, (-10.0, 0.0)), ("P1", {a: -1.0, b: 1.0}, (0.0, 10.0)),
                        ("P2", {a: -2.0, b: 2.0}, (0.0, 1000.0)), ("EX_b", {b: -1.0}, (0.0, 1000.0))]:
        r = cobra.Reaction(rid)
        r.add_metabolites(st)
        r.bounds = bd
        rx.append(r)
    m.add_reactions(rx)
    m.objective = "EX_b"
    yield m
    m2 = m.copy()
    from cobra.util.solver import set_objective
    set_objective(m2, {m2.reactions.P1: 2.0, m2.reactions.P2: -1.0})
    yield m2
    m3 = m.copy()
    set_objective(m3, {m3.reactions.EX_b: 1.0, m3.reactions.EX_a: 1.0})
    m3.objective_direction = "min"
    yield m3


def shipped_models():
    from cobra.io import load_model
    for name in ("textbook",):
        yield load_model(name)


# ----------------------------------------------------------------------------------------------------------------------
# the checks
# ----------------------------------------------------------------------------------------------------------------------
def _objective(model):
    from cobra.util.solver import linear_reaction_coefficients
    return {r.id: float(v) for r, v in linear_reaction_coefficients(model).items() if v != 0}


def dual_bound(model, prices, direction, c=None):
    """D(pi) of the module docstring, exact (Fraction or +-inf), and the exact d_r"""
    c = _objective(model) if c is None else c
    total, inf_hit, ds = Fraction(0), 0, {}
    for r in model.reactions:
        d = Fraction(c.get(r.id, 0.0))
        for met, k in r._metabolites.items():
            d -= Fraction(float(k)) * Fraction(float(prices[met.id]))
        ds[r.id] = d
        cands = []
        for bnd in (float(r._lower_bound), float(r._upper_bound)):
            if math.isinf(bnd):
                if abs(d) <= DUAL_ZERO:
                    cands.append(Fraction(0))
                else:
                    cands.append(INF if (d > 0) == (bnd > 0) else -INF)
            else:
                cands.append(d * Fraction(bnd))
        best = max(cands) if direction == "max" else min(cands)
        if isinstance(best, float):
            inf_hit = 1 if best > 0 else -1
        else:
            total += best
    if inf_hit:
        return (INF if inf_hit > 0 else -INF), ds
    return total, ds


def _same(a, b):
    import numpy as np
    return bool(np.array_equal(np.asarray(a, dtype=float), np.asarray(b, dtype=float), equal_nan=True))


def check_model(model, solver):
    """-> (list of (key, text), info dict).  The model is modified (solver switch, final edits)."""
    import cobra
    from cobra.exceptions import OPTLANG_TO_EXCEPTIONS_DICT, Infeasible, OptimizationError, Unbounded
    U.quiet()
    out = []

    def bad(key, text):
        out.append((key, f"[{solver}] {text}"))

    # the order of the model's lists is not the order of the solver's columns / rows: on every other model the lists are reversed
    # (a public list operation) before anything is solved - values must be attached to identifiers, never to positions
    if (len(model.reactions) + len(model.metabolites)) % 2 == 0:
        model.reactions.reverse()
        model.metabolites.reverse()
    if solver is not None:
        model.solver = solver
    lp, c, direction = oracle_lp.fba_lp(model)
    exact = {d: lp.solve(c, d) for d in ("max", "min")}
    st, val, pt = exact[direction]
    info = {"exact": st, "value": None if val is None else float(val),
            "nonzero": bool(pt and any(v != 0 for v in pt.values()))}
    if any(e[0] == "unknown" for e in exact.values()):
        info["exact"] = "unknown"
        return out, info
    expected_exc = {"infeasible": Infeasible, "unbounded": Unbounded}

    # a. slim_optimize with an error value
    for ev in (SENT, None):
        got = model.slim_optimize(error_value=SENT) if ev is SENT else model.slim_optimize()
        status = model.solver.status
        if (st == "optimal") != (status == "optimal"):
            bad("status-" + st, f"solver status {status!r} but the exact problem is {st}")
        if st == "optimal":
            if not oracle_lp.close(got, val):
                bad("slim-value", f"slim_optimize returned {got!r}, exact optimum {float(val)!r} ({direction})")
        elif ev is SENT:
            if not (isinstance(got, float) and got == SENT):
                bad("slim-error-value", f"slim_optimize(error_value={SENT}) returned {got!r} on an {st} problem")
        else:
            if not (isinstance(got, float) and math.isnan(got)):
                bad("slim-error-value", f"slim_optimize() returned {got!r} on an {st} problem (default error value is nan)")

    # b. slim_optimize(error_value=None)
    try:
        got = model.slim_optimize(error_value=None)
        if st != "optimal":
            bad("slim-raise-missing", f"slim_optimize(error_value=None) returned {got!r} on an {st} problem")
        elif not oracle_lp.close(got, val):
            bad("slim-value", f"slim_optimize(error_value=None) returned {got!r}, exact optimum {float(val)!r}")
    except Exception as e:  # noqa
        if st == "optimal":
            bad("slim-raise-spurious", f"slim_optimize(error_value=None) raised {type(e).__name__} but the optimum is {float(val)!r}")
        else:
            want = expected_exc[st]
            mapped = OPTLANG_TO_EXCEPTIONS_DICT.get(model.solver.status, OptimizationError)
            if type(e) is not want:
                bad("slim-raise-class", f"slim_optimize(error_value=None) raised {type(e).__name__} on an {st} problem, expected {want.__name__}")
            if type(e) is not mapped:
                bad("slim-raise-class", f"raised {type(e).__name__}, status {model.solver.status!r} maps to {mapped.__name__}")

    # c.-f. optimize()
    sol = None
    try:
        sol = model.optimize()
    except OptimizationError as e:
        if st == "optimal":
            bad("optimize-raise-spurious", f"optimize() raised {e!r} but the optimum is {float(val)!r}")
    except Exception as e:  # noqa
        bad("optimize-raise-class", f"optimize() raised {type(e).__name__}: {e}")
    # accessors when no optimum exists: the documented outcomes are a number (statuses that still carry primal values: a warning is
    # issued) or OptimizationError / its subclasses - never another exception class (Metabolite.shadow_price raised TypeError from
    # `raise err.with_traceback()` for every status on which the status check raises; repaired in /repo)
    if st != "optimal":
        for what, objs in (("flux", model.reactions), ("reduced_cost", model.reactions), ("shadow_price", model.metabolites)):
            for o in list(objs)[:2]:
                try:
                    getattr(o, what)
                except OptimizationError:
                    pass
                except Exception as e:  # noqa
                    bad("accessor-raise-class", f"{o.id}.{what} raised {type(e).__name__} ({e}) on an {st} problem, "
                                                f"documented: OptimizationError")
    if sol is not None:
        if (st == "optimal") != (sol.status == "optimal"):
            bad("status-" + st, f"optimize() status {sol.status!r} but the exact problem is {st}")
        if st == "optimal" and sol.status == "optimal":
            if not oracle_lp.close(sol.objective_value, val):
                bad("optimize-value", f"objective_value {sol.objective_value!r}, exact optimum {float(val)!r} ({direction})")
            v = {r.id: float(sol.fluxes[r.id]) for r in model.reactions}
            for r in model.reactions:
                if not (r._lower_bound - FEAS_TOL <= v[r.id] <= r._upper_bound + FEAS_TOL):
                    bad("primal-bounds", f"flux {r.id}={v[r.id]!r} outside [{r._lower_bound},{r._upper_bound}]")
            for met in model.metabolites:
                res = sum(float(r._metabolites[met]) * v[r.id] for r in met._reaction)
                if abs(res) > FEAS_TOL:
                    bad("primal-steady-state", f"row {met.id}: S v = {res!r}")
            cv = sum(k * v[rid] for rid, k in c.items())
            if not oracle_lp.close(sol.objective_value, cv):
                bad("objective-is-cv", f"objective_value {sol.objective_value!r} but c.v = {cv!r}")
            # d. certificate
            D, ds = dual_bound(model, sol.shadow_prices, direction, c)
            if isinstance(D, float) or not oracle_lp.close(D, val):
                bad("dual-certificate", f"shadow prices {dict(sol.shadow_prices)} bound the objective by {float(D)!r}, "
                                        f"not by the optimum {float(val)!r}: not an optimal dual ({direction})")
            # e. reduced costs
            for r in model.reactions:
                exp, got = float(ds[r.id]), float(sol.reduced_costs[r.id])
                if oracle_lp.close(got, exp):
                    continue
                if oracle_lp.close(got, 2 * exp):
                    bad("reduced-cost-factor", f"reduced_costs[{r.id}] = {got!r} = 2 x (c_r - sum_m S_mr pi_m) = 2 x {exp!r}")
                else:
                    bad("reduced-cost-mismatch", f"reduced_costs[{r.id}] = {got!r}, c_r - sum_m S_mr pi_m = {exp!r}")
            # f. accessors
            for r in model.reactions:
                try:
                    fx, rc = r.flux, r.reduced_cost
                except Exception as e:  # noqa
                    bad("accessor-raise", f"{r.id}.flux/.reduced_cost raised {e!r} after an optimal optimize()")
                    continue
                if not oracle_lp.close(fx, sol.fluxes[r.id], 1e-9, 1e-9):
                    bad("accessor-flux", f"{r.id}.flux = {fx!r}, solution has {sol.fluxes[r.id]!r}")
                if not oracle_lp.close(rc, sol.reduced_costs[r.id], 1e-9, 1e-9):
                    bad("accessor-reduced-cost", f"{r.id}.reduced_cost = {rc!r}, solution has {sol.reduced_costs[r.id]!r}")
            for met in model.metabolites:
                try:
                    sp = met.shadow_price
                except Exception as e:  # noqa
                    bad("accessor-raise", f"{met.id}.shadow_price raised {e!r} after an optimal optimize()")
                    continue
                if not oracle_lp.close(sp, sol.shadow_prices[met.id], 1e-9, 1e-9):
                    bad("accessor-shadow-price", f"{met.id}.shadow_price = {sp!r}, solution has {sol.shadow_prices[met.id]!r}")

    # g. objective_sense / raise_error, direction restored on every exit
    for sense in (None, "maximize", "minimize"):
        for raise_error in (False, True):
            before = model.objective_direction
            d = {"maximize": "max", "minimize": "min"}.get(sense, before)
            est, eval_, _ = exact[d]
            call = f"optimize(objective_sense={sense!r}, raise_error={raise_error})"
            try:
                s = model.optimize(objective_sense=sense, raise_error=raise_error)
                how = f"returned status {s.status!r}"
                if (est == "optimal") != (s.status == "optimal"):
                    bad("status-" + est, f"{call} status {s.status!r} but the exact {d} problem is {est}")
                elif est == "optimal" and not oracle_lp.close(s.objective_value, eval_):
                    bad("optimize-value", f"{call} objective_value {s.objective_value!r}, exact optimum {float(eval_)!r}")
            except OptimizationError as e:
                how = f"raised {type(e).__name__}({e})"
                if est == "optimal":
                    bad("optimize-raise-spurious", f"{call} raised {e!r} but the exact {d} optimum is {float(eval_)!r}")
            except Exception as e:  # noqa
                how = f"raised {type(e).__name__}"
                bad("optimize-raise-class", f"{call} raised {type(e).__name__}: {e}")
            after = model.objective_direction
            if after != before:
                key = "optimize-direction-leak" if how.startswith("raised") else "optimize-direction-not-restored"
                bad(key, f"{call} on an {est} problem {how} and left objective_direction {after!r} (was {before!r})")
                model.objective_direction = before

    # h. snapshot
    sol = None
    try:
        sol = model.optimize()
    except Exception:  # noqa
        pass
    if sol is not None:
        keep = (sol.status, sol.objective_value, sol.fluxes.copy(deep=True), sol.reduced_costs.copy(deep=True),
                sol.shadow_prices.copy(deep=True), list(sol.fluxes.index), list(sol.shadow_prices.index))
        steps = []
        try:
            r0, r1 = model.reactions[0], model.reactions[-1]
            r0.bounds = (0.0, 0.0) if r0.bounds != (0.0, 0.0) else (-1.0, 1.0)
            steps.append("bounds")
            model.slim_optimize()
            r1.bounds = (-3.0, 7.0)
            model.objective = r1
            model.objective_direction = "min" if direction == "max" else "max"
            steps.append("objective")
            try:
                model.optimize()
            except OptimizationError:
                pass
            model.slim_optimize()
            for r in model.reactions:
                r.bounds = (-1.0, 1.0)
            try:
                model.optimize()
            except OptimizationError:
                pass
        except Exception as e:  # noqa
            bad("snapshot-edit-raise", f"editing after {steps} raised {e!r}")
        now = (sol.status, sol.objective_value, sol.fluxes, sol.reduced_costs, sol.shadow_prices,
               list(sol.fluxes.index), list(sol.shadow_prices.index))
        names = ("status", "objective_value", "fluxes", "reduced_costs", "shadow_prices", "flux index", "price index")
        for nm, a, b in zip(names, keep, now):
            same = _same(a, b) if nm in ("objective_value", "fluxes", "reduced_costs", "shadow_prices") else a == b
            if not same:
                bad("snapshot", f"Solution.{nm} changed after later edits and optimisations: {a!r} -> {b!r}"[:600])
    return out, info


# ----------------------------------------------------------------------------------------------------------------------
# driver
# ----------------------------------------------------------------------------------------------------------------------
def _usable_solvers():
    import cobra
    ok = []
    for s in SOLVERS:
        try:
            m = gen.linear_chain(1)
            m.solver = s
            if oracle_lp.close(m.slim_optimize(), 10.0):
                ok.append(s)
        except Exception:  # noqa
            pass
    return ok


def _chunk(task):
    kind, seed, idx, n, sizes, solvers = task
    U.quiet()
    if kind == "corner":
        ms = list(corner_models())
    elif kind == "shipped":
        ms = list(shipped_models())
    elif kind == "forcedinf":
        rng = random.Random(seed * 1000003 + 500009 + idx)
        ms = [U.forced_inf_model(rng) for _ in range(n)]
    else:
        rng = random.Random(seed * 1000003 + idx)
        ms = []
        for _ in range(n):
            nm, nr = rng.choice(sizes)
            ms.append(gen.random_model(rng, n_mets=rng.randint(1, nm), n_rxns=rng.randint(1, nr), with_genes=False))
    res = {"evals": 0, "sigs": {}, "fails": [], "verdicts": {}, "samples": [], "unknown": 0}
    for j, m in enumerate(ms):
        desc = U.describe(m)
        sig = hash(U.signature(m))
        # the forced-infinite family sets its bounds through the constructor / .bounds / .lower_bound+.upper_bound in turn
        how = U.HOWS[(idx + j) % 3] if kind == "forcedinf" else None
        for solver in solvers:
            mm = m.copy() if kind == "shipped" else (U.build_via(desc, how) if how else U.rebuild(desc))
            try:
                fails, info = check_model(mm, solver)
            except Exception as e:  # noqa
                import traceback
                fails, info = [("driver-error", f"[{solver}] check raised {e!r}: {traceback.format_exc()[-400:]}")], {"exact": "error", "nonzero": False}
            if info["exact"] == "unknown":
                res["unknown"] += 1
                continue
            res["evals"] += 1
            res["verdicts"][info["exact"]] = res["verdicts"].get(info["exact"], 0) + 1
            nontrivial = info["exact"] in ("infeasible", "unbounded") or info.get("nonzero")
            res["sigs"][(sig, solver)] = bool(nontrivial) or res["sigs"].get((sig, solver), False)
            payload_desc = desc if kind != "shipped" else {"shipped": m.id}
            for key, text in fails:
                w = f"seed{seed}:{kind}#{idx}.{j}:{solver}:{key}"
                res["fails"].append((key, text, {"model": payload_desc, "solver": solver, "key": key, "witness": w, "how": how}, U.size_of(desc), w))
            if len(res["samples"]) < 1 and nontrivial and kind == "random":
                res["samples"].append({"model": desc, "solver": solver, "exact": info["exact"], "value": info.get("value")})
    return res


TIERS = {
    "quick": {"forcedinf_chunks": 32, "forcedinf_per_chunk": 30, "chunks": 128, "per_chunk": 64, "sizes": [(3, 3), (3, 5), (4, 5)], "shipped": False},
    "thorough": {"forcedinf_chunks": 128, "forcedinf_per_chunk": 60, "chunks": 256, "per_chunk": 120, "sizes": [(3, 3), (3, 5), (4, 5), (5, 7), (6, 8)], "shipped": True},
}


def run(tier, seed):
    t0 = time.time()
    U.quiet()
    cfg = TIERS[tier]
    solvers = _usable_solvers()
    tasks = [("corner", seed, 0, 0, None, solvers)]
    if cfg["shipped"]:
        tasks.append(("shipped", seed, 0, 0, None, solvers))
    tasks += [("forcedinf", seed, i, cfg["forcedinf_per_chunk"], None, solvers) for i in range(cfg["forcedinf_chunks"])]
    tasks += [("random", seed, i, cfg["per_chunk"], cfg["sizes"], solvers) for i in range(cfg["chunks"])]
    results = U.run_pool(_chunk, tasks)
    F = U.Failures(per_key=2)
    sigs, verdicts, samples, evals, unknown = {}, {}, [], 0, 0
    for r in results:
        evals += r["evals"]
        unknown += r["unknown"]
        for k, v in r["sigs"].items():
            sigs[k] = sigs.get(k, False) or v
        for k, v in r["verdicts"].items():
            verdicts[k] = verdicts.get(k, 0) + v
        F.merge(r["fails"])
        samples += r["samples"]
    return {
        "evaluations": evals,
        "distinct_nontrivial": sum(1 for v in sigs.values() if v),
        "rule": "case = (model, solver interface); models: hand-made corner models + bcc.gen.random_model with the full BOUNDS list "
                "(fixed, forced, one-sided, infinite), 1-2 objective reactions, max and min + a family with one-sided infinite FORCED "
                "bounds (-inf,-5) (-inf,-1) (2,inf) (5,inf) mixed with the usual ones (random networks and chains with forced uptake and "
                "a capacity below / above it), bounds set through the constructor, .bounds or .lower_bound/.upper_bound; each case runs checks a-h of the module "
                "docstring (slim_optimize x3, optimize x7, certificate, reduced costs, accessors, snapshot). distinct = distinct "
                "(columns with bounds/objective/stoichiometry, direction, interface); non-trivial = exact verdict infeasible or "
                "unbounded, or the exact optimum is attained at a non-zero flux vector",
        "bounds": {"tier": tier, "seed": seed, "solvers": solvers, "random_models": cfg["chunks"] * cfg["per_chunk"],
                   "forced_infinite_bound_models": cfg["forcedinf_chunks"] * cfg["forcedinf_per_chunk"],
                   "forced_infinite_bounds": [list(map(str, b)) for b in U.FORCED_INF], "bound_setting_paths": list(U.HOWS),
                   "max_metabolites_x_internal_reactions": cfg["sizes"], "corner_models": len(list(corner_models())),
                   "shipped_models": ["textbook"] if cfg["shipped"] else [], "exact_verdicts": verdicts,
                   "oracle_unknown_skipped": unknown, "wall_seconds": round(time.time() - t0, 1)},
        "exhaustive": False,
        "samples": samples[:2],
        "failures": F.as_list(),
    }


def replay(payload_replay):
    U.quiet()
    md = payload_replay["model"]
    if "shipped" in md:
        from cobra.io import load_model
        m = load_model(md["shipped"])
    else:
        m = U.build_via(md, payload_replay["how"]) if payload_replay.get("how") else U.rebuild(md)
    fails, _ = check_model(m, payload_replay.get("solver"))
    key = payload_replay.get("key")
    hits = [t for k, t in fails if key is None or k == key]
    return "; ".join(hits[:5]) if hits else None
