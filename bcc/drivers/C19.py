"""C19 (bounded tier) — blocked-reaction and consistency analyses agree with the true flux ranges.

Real code under test: cobra.flux_analysis.find_blocked_reactions (open_exchanges on/off, reaction_list None / objects / ids,
processes 1 / 2, default thresholds) and cobra.flux_analysis.fastcc (default thresholds).
Oracle: exact rational LPs (bcc.oracle_lp) on the flux polytope {v | S v = 0, lb <= v <= ub} rebuilt from the Python
objects; with open_exchanges the bounds of the model's exchange reactions are first widened to
(min(lb, -1000), max(ub, 1000)) (which reactions count as exchanges is taken from model.exchanges — that classification
belongs to another property).  A reaction is blocked iff its exact range over that polytope is [0, 0].  The objective plays
no role in the statement ("carry zero flux in every steady-state distribution within the bounds").

Checks                                                                                              [failure key]
 find_blocked_reactions
  * returned ids == {r in reaction_list | r blocked}                                                [blocked-set]
    - if the returned set is instead exactly the set of reactions that are zero on the half space c.v >= 0 (max) /
      c.v <= 0 (min) that flux_variability_analysis(fraction_of_optimum=0) adds                     [blocked-objective-halfspace]
  * no exception; an OptimizationError on a model with an unbounded flux ray (infinite bounds)      [blocked-raises-unbounded]
    AttributeError for a reaction_list of identifiers                                               [blocked-reaction-list-ids]
    any other exception                                                                             [blocked-raises]
 fastcc
  * reactions of the returned model == the non-blocked reactions of the input
      [fastcc-keeps-blocked; fastcc-drops-reversible when every wrongly removed reaction has lb < 0 < ub, else fastcc-drops-unblocked]
  * every kept reaction has the input's stoichiometry, bounds and gene rule                         [fastcc-changed-reaction]
  * no reaction of the returned model is blocked in the returned model (exact)                      [fastcc-result-has-blocked]
  * no exception                                                                                    [fastcc-raises]
Domain: every bound pair contains zero (the statement's quantifier); dead ends, blocked branches, isolated cycles
(feasible and orientation-blocked), duplicates, antiparallel pairs, sinks, reversible / irreversible mixes, (0,0) bounds,
small capacities (|bound| = 1), a minority of models with infinite bounds.
"""
import math
import random
import time

from bcc import gen, oracle_lp
from bcc import c04_util as U
from bcc import c05_oracle as O
from bcc import c19_gen as G

KNOWN_KEYS = set()
INF = float("inf")


def _ids(xs):
    return [getattr(x, "id", x) for x in xs]


def exact_blocked(model, open_exchanges=False, halfspace=False):
    """-> (set of blocked ids, has_unbounded_ray, ranges)"""
    lp, c, direction = oracle_lp.fba_lp(model)
    if open_exchanges:
        for r in model.exchanges:
            lb, ub = lp.vars[r.id]
            lp.vars[r.id] = (min(lb, -1000.0), max(ub, 1000.0))
    if halfspace and c:
        if direction == "max":
            lp.con(c, 0.0, INF)
        else:
            lp.con(c, -INF, 0.0)
    rng_ = {r.id: lp.range_of(r.id) for r in model.reactions}
    blocked = {rid for rid, (lo, hi) in rng_.items() if lo == 0 and hi == 0}
    ray = any(isinstance(x, float) and math.isinf(x) for v in rng_.values() for x in v)
    return blocked, ray, rng_


def check_blocked(model, cfg, cache=None):
    """cfg: dict(open_exchanges, rl ('none'|'objects'|'ids'), rids, processes)"""
    from cobra.exceptions import OptimizationError
    from cobra.flux_analysis import find_blocked_reactions
    U.quiet()
    cache = {} if cache is None else cache
    out = []
    tag = (f"find_blocked_reactions(open_exchanges={cfg['open_exchanges']}, reaction_list={cfg['rl']}"
           f"{'' if cfg['rids'] is None else cfg['rids']}, processes={cfg['processes']})")

    def bad(key, text):
        out.append((key, f"{tag}: {text}"))

    oe = cfg["open_exchanges"]
    if ("pure", oe) not in cache:
        cache[("pure", oe)] = exact_blocked(model, oe, False)
    blocked, ray, ranges = cache[("pure", oe)]
    all_ids = [r.id for r in model.reactions]
    rids = all_ids if cfg["rids"] is None else list(cfg["rids"])
    want = {r for r in rids if r in blocked}
    info = {"nontrivial": 0 < len(want) < len(rids), "n_blocked": len(want), "ray": ray}
    rl = None if cfg["rl"] == "none" else ([model.reactions.get_by_id(r) for r in rids] if cfg["rl"] == "objects" else list(rids))
    try:
        got = find_blocked_reactions(model, reaction_list=rl, open_exchanges=oe, processes=cfg["processes"])
    except OptimizationError as e:
        if ray:
            bad("blocked-raises-unbounded", f"raised {type(e).__name__}({e}); the model has an unbounded flux ray, the blocked set "
                                           f"{sorted(want)} is nevertheless well defined")
        else:
            bad("blocked-raises", f"raised {type(e).__name__}({e})")
        info["raised"] = True
        return out, info
    except Exception as e:  # noqa
        if cfg["rl"] == "ids" and isinstance(e, AttributeError):
            bad("blocked-reaction-list-ids", f"raised {type(e).__name__}: {e} — a reaction_list of identifiers (documented: "
                                             f"'list of cobra.Reaction or str') is not accepted; expected result {sorted(want)}")
        else:
            bad("blocked-raises", f"raised {type(e).__name__}: {e}")
        info["raised"] = True
        return out, info
    got_ids = _ids(got)
    if len(set(got_ids)) != len(got_ids):
        bad("blocked-set", f"duplicates in the result {got_ids}")
    if set(got_ids) != want:
        if ("half", oe) not in cache:
            cache[("half", oe)] = exact_blocked(model, oe, True)
        hb = {r for r in rids if r in cache[("half", oe)][0]}
        extra, missing = sorted(set(got_ids) - want), sorted(want - set(got_ids))
        detail = {r: tuple(float(x) for x in ranges[r]) for r in (extra + missing)[:4]}
        if set(got_ids) == hb:
            from cobra.util.solver import linear_reaction_coefficients
            obj = {r.id: v for r, v in linear_reaction_coefficients(model).items()}
            bad("blocked-objective-halfspace",
                f"returned {sorted(got_ids)}, exactly blocked {sorted(want)}; {extra} can carry flux (exact ranges {detail}) but only "
                f"where the objective {obj} ({model.objective_direction}) is on the wrong side of 0, which FVA at fraction 0 excludes")
        else:
            bad("blocked-set", f"returned {sorted(got_ids)}, exactly blocked {sorted(want)}: wrongly listed {extra}, missed {missing}; "
                               f"exact ranges {detail}")
    return out, info


def check_fastcc(model, cache=None):
    from cobra.flux_analysis import fastcc
    U.quiet()
    cache = {} if cache is None else cache
    out = []

    def bad(key, text):
        out.append((key, f"fastcc: {text}"))

    if ("pure", False) not in cache:
        cache[("pure", False)] = exact_blocked(model, False, False)
    blocked, ray, ranges = cache[("pure", False)]
    all_ids = [r.id for r in model.reactions]
    want = [r for r in all_ids if r not in blocked]
    before = {r.id: ({m.id: float(k) for m, k in r._metabolites.items()}, (float(r._lower_bound), float(r._upper_bound)),
                     r.gene_reaction_rule) for r in model.reactions}
    info = {"nontrivial": 0 < len(want) < len(all_ids), "n_blocked": len(blocked), "ray": ray}
    try:
        cm = fastcc(model)
    except Exception as e:  # noqa
        bad("fastcc-raises", f"raised {type(e).__name__}: {e}")
        info["raised"] = True
        return out, info
    got = [r.id for r in cm.reactions]
    kept_blocked = sorted(set(got) & blocked)
    dropped = sorted(set(want) - set(got))
    if kept_blocked:
        bad("fastcc-keeps-blocked", f"the returned model contains {kept_blocked}, blocked in the input (exact range [0,0]); "
                                    f"kept {sorted(got)}, non-blocked {sorted(want)}")
    if dropped:
        all_rev = all(before[r][1][0] < 0 < before[r][1][1] for r in dropped)
        bad("fastcc-drops-reversible" if all_rev else "fastcc-drops-unblocked", f"the returned model lacks {dropped}, which can carry flux in the input: exact ranges "
                                      f"{ {r: tuple(float(x) for x in ranges[r]) for r in dropped[:4]} }; kept {sorted(got)}")
    unknown = sorted(set(got) - set(all_ids))
    if unknown:
        bad("fastcc-changed-reaction", f"the returned model has reactions {unknown} that the input does not have")
    for r in cm.reactions:
        if r.id not in before:
            continue
        now = ({m.id: float(k) for m, k in r._metabolites.items()}, (float(r._lower_bound), float(r._upper_bound)), r.gene_reaction_rule)
        if now != before[r.id]:
            bad("fastcc-changed-reaction", f"{r.id}: {before[r.id]} -> {now}")
    if len(cm.reactions):
        b2, _, _ = exact_blocked(cm, False, False)
        if b2:
            bad("fastcc-result-has-blocked", f"in the returned model (reactions {sorted(got)}) {sorted(b2)} are blocked")
    return out, info


# ----------------------------------------------------------------------------------------------------------------------
def corner_models():
    lc = gen.linear_chain
    yield G.figure1_like()
    yield lc(2)
    yield lc(3, cyc=True)
    yield lc(2, bounds={"EX_m0": (0.0, 1000.0)})                          # no uptake: everything blocked
    yield lc(2, bounds={"R1": (0.0, 0.0)})
    yield lc(2, bounds={"EX_m0": (0.0, 0.0)})                             # opened by open_exchanges? (metabolite is in c: no)
    yield lc(3, cyc=True, bounds={"EX_m0": (0.0, 0.0), "EX_out": (0.0, 0.0)})  # only the internal cycle can run
    yield lc(2, objective="EX_m0", direction="max")                      # reversible objective reaction: half space matters
    yield lc(2, reverse_exchange=True)
    yield lc(2, bounds={"R0": (0.0, 1.0)})
    yield lc(2, bounds={"EX_m0": (-INF, 1000.0), "R0": (0.0, INF), "R1": (0.0, INF), "EX_out": (0.0, INF)})


def _make_models(kind, rng, n, tier):
    if kind == "corner":
        return list(corner_models())
    ms = []
    for _ in range(n):
        x = rng.random()
        if kind == "inf":
            if x < 0.5:
                ms.append(G.structured_model(rng, n_core=rng.randint(2, 3), n_conv=rng.randint(1, 3), bounds=G.ZERO_BOUNDS_INF))
            else:
                ms.append(gen.random_model(rng, bounds=G.ZERO_BOUNDS_INF, with_genes=True))
        elif x < 0.65:
            big = tier == "thorough" and rng.random() < 0.3
            ms.append(G.structured_model(rng, n_core=rng.randint(2, 4 if big else 3), n_conv=rng.randint(1, 4 if big else 3)))
        else:
            ms.append(gen.random_model(rng, bounds=G.ZERO_BOUNDS, with_genes=True))
    return ms


def _task(task):
    kind, seed, idx, n, tier = task
    U.quiet()
    rng = random.Random(seed * 1000003 + idx * 11 + {"corner": 1, "zero": 2, "inf": 3}[kind])
    res = {"evals": 0, "sigs": {}, "fails": [], "samples": [], "fastcc": 0, "blocked_calls": 0, "features": {}}
    for m in _make_models(kind, rng, n, tier):
        desc = U.describe(m)
        sig = hash((U.signature(m), tuple(sorted(e.id for e in m.exchanges))))
        all_ids = [r.id for r in m.reactions]
        cfgs = []
        for oe in (False, True):
            cfgs.append(dict(open_exchanges=oe, rl="none", rids=None, processes=1))
            sub = rng.sample(all_ids, rng.randint(1, len(all_ids)))
            cfgs.append(dict(open_exchanges=oe, rl=rng.choice(["objects", "ids"]), rids=sub, processes=rng.choice([1, 1, 2])))
        if rng.random() < 0.3:
            cfgs.append(dict(open_exchanges=rng.random() < 0.5, rl="none", rids=None, processes=2))
        cache = {}
        for cfg in cfgs + ["fastcc"]:
            mm = U.rebuild(desc)
            try:
                if cfg == "fastcc":
                    fails, info = check_fastcc(mm, cache)
                    res["fastcc"] += 1
                    payload = {"model": desc, "what": "fastcc"}
                    key = (sig, "fastcc")
                else:
                    fails, info = check_blocked(mm, cfg, cache)
                    res["blocked_calls"] += 1
                    payload = {"model": desc, "what": "blocked", "cfg": cfg}
                    key = (sig, cfg["open_exchanges"], cfg["rl"], tuple(cfg["rids"] or ()), cfg["processes"])
            except Exception as e:  # noqa
                import traceback
                fails, info = [("driver-error", f"check raised {e!r}: {traceback.format_exc()[-500:]}")], {}
                payload, key = {"model": desc, "what": "fastcc" if cfg == "fastcc" else "blocked", "cfg": None if cfg == "fastcc" else cfg}, (sig, "err")
            res["evals"] += 1
            res["sigs"][key] = bool(info.get("nontrivial")) and not info.get("raised")
            for k, text in fails:
                res["fails"].append((k, text, dict(payload, key=k), U.size_of(desc)))
            if not res["samples"] and info.get("nontrivial") and not fails and cfg != "fastcc":
                res["samples"].append(dict(payload, blocked=info.get("n_blocked")))
    return res


TIERS = {
    "quick": {"zero_chunks": 110, "zero_n": 2, "inf_chunks": 16, "inf_n": 2},
    "thorough": {"zero_chunks": 400, "zero_n": 8, "inf_chunks": 80, "inf_n": 5},
}


def run(tier, seed):
    t0 = time.time()
    U.quiet()
    cfg = TIERS[tier]
    tasks = [("corner", seed, 0, 0, tier)]
    tasks += [("zero", seed, i, cfg["zero_n"], tier) for i in range(cfg["zero_chunks"])]
    tasks += [("inf", seed, i, cfg["inf_n"], tier) for i in range(cfg["inf_chunks"])]
    results = U.run_pool(_task, tasks, nested=True)
    F = U.Failures(per_key=2)
    sigs, samples, evals, fastcc_n, blocked_n = {}, [], 0, 0, 0
    for r in results:
        evals += r["evals"]
        fastcc_n += r["fastcc"]
        blocked_n += r["blocked_calls"]
        for k, v in r["sigs"].items():
            sigs[k] = sigs.get(k, False) or v
        F.merge(r["fails"])
        samples += r["samples"]
    return {
        "evaluations": evals,
        "distinct_nontrivial": sum(1 for v in sigs.values() if v),
        "rule": "evaluation = one find_blocked_reactions call (model, open_exchanges, reaction_list None/objects/ids, processes) or one "
                "fastcc call (model), compared with the exact set {r | exact range of v_r over {S v = 0, lb <= v <= ub} is [0,0]}. "
                "distinct = distinct (model structure incl. exchange set, call configuration); non-trivial = the call returned and the "
                "requested reactions contain both blocked and non-blocked ones",
        "bounds": {"tier": tier, "seed": seed, "models": 11 + cfg["zero_chunks"] * cfg["zero_n"] + cfg["inf_chunks"] * cfg["inf_n"],
                   "models_with_infinite_bounds_family": cfg["inf_chunks"] * cfg["inf_n"], "find_blocked_reactions_calls": blocked_n,
                   "fastcc_calls": fastcc_n, "generators": "bcc.c19_gen.structured_model (<=4 core metabolites, planted dead ends / "
                   "branches / cycles / duplicates / antiparallel pairs / sinks), bcc.gen.random_model (<=4 metabolites, <=5 internal "
                   "reactions) with zero-containing bounds, 11 corner models", "processes": [1, 2],
                   "wall_seconds": round(time.time() - t0, 1)},
        "exhaustive": False,
        "samples": samples[:2],
        "failures": F.as_list(),
    }


def replay(payload_replay):
    U.quiet()
    m = U.rebuild(payload_replay["model"])
    if payload_replay["what"] == "fastcc":
        fails, _ = check_fastcc(m)
    else:
        fails, _ = check_blocked(m, payload_replay["cfg"])
    key = payload_replay.get("key")
    hits = [t for k, t in fails if key is None or k == key]
    return "; ".join(hits[:5]) if hits else None
