"""C19 (bounded tier) — blocked-reaction and consistency analyses agree with the true flux ranges.

Real code under test: cobra.flux_analysis.find_blocked_reactions (open_exchanges on/off, reaction_list None / objects / ids,
processes 1 / 2, default thresholds) and cobra.flux_analysis.fastcc (default thresholds).
Oracle: exact rational LPs (bcc.oracle_lp) on the flux polytope {v | S v = 0, lb <= v <= ub} rebuilt from the Python
objects; with open_exchanges the bounds of the model's exchange reactions are first widened to
(min(lb, -1000), max(ub, 1000)) (which reactions count as exchanges is taken from model.exchanges — that classification
belongs to another property).  A reaction is blocked iff its exact range over that polytope is [0, 0].  The objective plays
no role in the statement ("carry zero flux in every steady-state distribution within the bounds").

Checks                                                                                              [failure key]
 find_blocked_reactions
  * returned ids == {r in reaction_list | r blocked}                                                [blocked-set]
    - if the returned set is instead exactly the set of reactions that are zero on the half space c.v >= 0 (max) /
      c.v <= 0 (min) that flux_variability_analysis(fraction_of_optimum=0) adds                     [blocked-objective-halfspace]
  * no exception; an OptimizationError on a model with an unbounded flux ray (infinite bounds)      [blocked-raises-unbounded]
    AttributeError for a reaction_list of identifiers                                               [blocked-reaction-list-ids]
    any other exception                                                                             [blocked-raises]
 fastcc
  * reactions of the returned model == the non-blocked reactions of the input
      [per reaction: fastcc-keeps-blocked; fastcc-drops-reversible when the wrongly removed reaction has lb < 0 < ub, else
       fastcc-drops-unblocked]
  * every kept reaction has the input's stoichiometry, bounds and gene rule                         [fastcc-changed-reaction]
  * no reaction of the returned model is blocked in the returned model (exact)                      [fastcc-result-has-blocked]
  * no exception                                                                                    [fastcc-raises]
Structure (known-finding protocol)
 * seed-dependent part (models drawn from the `seed` argument): find_blocked_reactions in every configuration on models
   without an unbounded flux ray; fastcc with every check except "a reversible reaction that can carry flux was removed".
   This part is clean on the current tree for every seed.
 * fixed part (constant internal seeds, independent of `seed`; quick = prefix of thorough): the two sub-checks in which the
   open finding classes can fire —
     fastcc exactness on FASTCC-fixed models           witness  "fastcc-fixed#<index>:<reaction id>"
     find_blocked_reactions on infinite-bound models   witness  "blocked-fixed#<index>:open_exchanges=<bool>"
   every failing witness is reported (no cap).
   Determinism of the fixed fastcc sub-check: fastcc builds its LPs in `list(set(reactions))` order; Reaction objects hash by
   identity, so CPython derives that order from memory addresses and the outcome of fastcc changes from run to run on
   about 0.6 % of the cases (5 of 800 over 26 runs, see NOTES_C19.md).  Python leaves the order unspecified, so every order
   is one the real code may take; the fixed sub-check pins one of them by giving cobra.Reaction a deterministic __hash__
   (crc32 of the id) in the check's own process for the duration of the fastcc call (`_pinned_set_order`).  Nothing else is
   patched, /repo is untouched, and the seed-dependent part runs unpatched.
Domain: every bound pair contains zero (the statement's quantifier); dead ends, blocked branches, isolated cycles
(feasible and orientation-blocked), duplicates, antiparallel pairs, sinks, reversible / irreversible mixes, (0,0) bounds,
small capacities (|bound| = 1), a minority of models with infinite bounds.
"""
import math
import random
import time

from bcc import gen, oracle_lp
from bcc import c04_util as U
from bcc import c05_oracle as O
from bcc import c19_gen as G

KNOWN_KEYS = set()
INF = float("inf")
FIXED_SEED_FASTCC = 19001
FIXED_SEED_BLOCKED = 19002


def _pinned_set_order():
    """context manager: sets of Reaction objects iterate in an order that depends on the ids only (see module docstring)"""
    import zlib
    import cobra
    return U.patched(cobra.Reaction, "__hash__", lambda self: zlib.crc32(self.id.encode()))


def _ids(xs):
    return [getattr(x, "id", x) for x in xs]


def exact_blocked(model, open_exchanges=False, halfspace=False):
    """-> (set of blocked ids, has_unbounded_ray, ranges)"""
    lp, c, direction = oracle_lp.fba_lp(model)
    if open_exchanges:
        for r in model.exchanges:
            lb, ub = lp.vars[r.id]
            lp.vars[r.id] = (min(lb, -1000.0), max(ub, 1000.0))
    if halfspace and c:
        if direction == "max":
            lp.con(c, 0.0, INF)
        else:
            lp.con(c, -INF, 0.0)
    rng_ = {r.id: lp.range_of(r.id) for r in model.reactions}
    blocked = {rid for rid, (lo, hi) in rng_.items() if lo == 0 and hi == 0}
    ray = any(isinstance(x, float) and math.isinf(x) for v in rng_.values() for x in v)
    return blocked, ray, rng_


def check_blocked(model, cfg, cache=None):
    """cfg: dict(open_exchanges, rl ('none'|'objects'|'ids'), rids, processes) -> (list of (key, text, detail), info)"""
    from cobra.exceptions import OptimizationError
    from cobra.flux_analysis import find_blocked_reactions
    U.quiet()
    cache = {} if cache is None else cache
    out = []
    tag = (f"find_blocked_reactions(open_exchanges={cfg['open_exchanges']}, reaction_list={cfg['rl']}"
           f"{'' if cfg['rids'] is None else cfg['rids']}, processes={cfg['processes']})")

    def bad(key, text, detail=""):
        out.append((key, f"{tag}: {text}", detail))

    oe = cfg["open_exchanges"]
    if ("pure", oe) not in cache:
        cache[("pure", oe)] = exact_blocked(model, oe, False)
    blocked, ray, ranges = cache[("pure", oe)]
    all_ids = [r.id for r in model.reactions]
    rids = all_ids if cfg["rids"] is None else list(cfg["rids"])
    want = {r for r in rids if r in blocked}
    info = {"nontrivial": 0 < len(want) < len(rids), "n_blocked": len(want), "ray": ray}
    rl = None if cfg["rl"] == "none" else ([model.reactions.get_by_id(r) for r in rids] if cfg["rl"] == "objects" else list(rids))
    try:
        got = find_blocked_reactions(model, reaction_list=rl, open_exchanges=oe, processes=cfg["processes"])
    except OptimizationError as e:
        if ray:
            bad("blocked-raises-unbounded", f"raised {type(e).__name__}({e}); the model has an unbounded flux ray, the blocked set "
                                           f"{sorted(want)} is nevertheless well defined")
        else:
            bad("blocked-raises", f"raised {type(e).__name__}({e})", "raises")
        info["raised"] = True
        return out, info
    except Exception as e:  # noqa
        if cfg["rl"] == "ids" and isinstance(e, AttributeError):
            bad("blocked-reaction-list-ids", f"raised {type(e).__name__}: {e} — a reaction_list of identifiers (documented: "
                                             f"'list of cobra.Reaction or str') is not accepted; expected result {sorted(want)}", "ids")
        else:
            bad("blocked-raises", f"raised {type(e).__name__}: {e}", "raises")
        info["raised"] = True
        return out, info
    got_ids = _ids(got)
    if len(set(got_ids)) != len(got_ids):
        bad("blocked-set", f"duplicates in the result {got_ids}", "duplicates")
    if set(got_ids) != want:
        if ("half", oe) not in cache:
            cache[("half", oe)] = exact_blocked(model, oe, True)
        hb = {r for r in rids if r in cache[("half", oe)][0]}
        extra, missing = sorted(set(got_ids) - want), sorted(want - set(got_ids))
        detail = {r: tuple(float(x) for x in ranges[r]) for r in (extra + missing)[:4]}
        if set(got_ids) == hb:
            from cobra.util.solver import linear_reaction_coefficients
            obj = {r.id: v for r, v in linear_reaction_coefficients(model).items()}
            bad("blocked-objective-halfspace",
                f"returned {sorted(got_ids)}, exactly blocked {sorted(want)}; {extra} can carry flux (exact ranges {detail}) but only "
                f"where the objective {obj} ({model.objective_direction}) is on the wrong side of 0, which FVA at fraction 0 excludes",
                "set")
        else:
            bad("blocked-set", f"returned {sorted(got_ids)}, exactly blocked {sorted(want)}: wrongly listed {extra}, missed {missing}; "
                               f"exact ranges {detail}", "set")
    return out, info


def check_fastcc(model, cache=None, mode="exact"):
    """mode 'exact': every check; 'residual': everything except removed reversible reactions (the open finding class
    fastcc-drops-reversible, which is matched witness by witness on the fixed list only).
    -> (list of (key, text, detail), info)"""
    from cobra.flux_analysis import fastcc
    U.quiet()
    cache = {} if cache is None else cache
    out = []

    def bad(key, text, detail=""):
        out.append((key, f"fastcc: {text}", detail))

    if ("pure", False) not in cache:
        cache[("pure", False)] = exact_blocked(model, False, False)
    blocked, ray, ranges = cache[("pure", False)]
    all_ids = [r.id for r in model.reactions]
    want = [r for r in all_ids if r not in blocked]
    before = {r.id: ({m.id: float(k) for m, k in r._metabolites.items()}, (float(r._lower_bound), float(r._upper_bound)),
                     r.gene_reaction_rule) for r in model.reactions}
    info = {"nontrivial": 0 < len(want) < len(all_ids), "n_blocked": len(blocked), "ray": ray}
    try:
        cm = fastcc(model)
    except Exception as e:  # noqa
        bad("fastcc-raises", f"raised {type(e).__name__}: {e}", "raises")
        info["raised"] = True
        return out, info
    got = [r.id for r in cm.reactions]
    for r in sorted(set(got) & blocked):
        bad("fastcc-keeps-blocked", f"the returned model contains {r}, blocked in the input (exact range [0,0]); "
                                    f"kept {sorted(got)}, non-blocked {sorted(want)}", r)
    for r in sorted(set(want) - set(got)):
        rev = before[r][1][0] < 0 < before[r][1][1]
        if rev and mode == "residual":
            info["reversible_dropped"] = info.get("reversible_dropped", 0) + 1
            continue
        bad("fastcc-drops-reversible" if rev else "fastcc-drops-unblocked",
            f"the returned model lacks {r} (bounds {before[r][1]}), which can carry flux in the input: exact range "
            f"{tuple(float(x) for x in ranges[r])}; kept {sorted(got)}", r)
    for r in sorted(set(got) - set(all_ids)):
        bad("fastcc-changed-reaction", f"the returned model has a reaction {r} that the input does not have", r)
    for r in cm.reactions:
        if r.id not in before:
            continue
        now = ({m.id: float(k) for m, k in r._metabolites.items()}, (float(r._lower_bound), float(r._upper_bound)), r.gene_reaction_rule)
        if now != before[r.id]:
            bad("fastcc-changed-reaction", f"{r.id}: {before[r.id]} -> {now}", r.id)
    if len(cm.reactions):
        b2, _, _ = exact_blocked(cm, False, False)
        for r in sorted(b2):
            bad("fastcc-result-has-blocked", f"in the returned model (reactions {sorted(got)}) {r} is blocked", r + ":in-result")
    return out, info


# ----------------------------------------------------------------------------------------------------------------------
def corner_models():
    lc = gen.linear_chain
    yield G.figure1_like()
    yield lc(2)
    yield lc(3, cyc=True)
    yield lc(2, bounds={"EX_m0": (0.0, 1000.0)})                          # no uptake: everything blocked
    yield lc(2, bounds={"R1": (0.0, 0.0)})
    yield lc(2, bounds={"EX_m0": (0.0, 0.0)})                             # opened by open_exchanges? (metabolite is in c: no)
    yield lc(3, cyc=True, bounds={"EX_m0": (0.0, 0.0), "EX_out": (0.0, 0.0)})  # only the internal cycle can run
    yield lc(2, objective="EX_m0", direction="max")                      # reversible objective reaction: half space matters
    yield lc(2, reverse_exchange=True)
    yield lc(2, bounds={"R0": (0.0, 1.0)})


def _zero_model(rng, big=False):
    if rng.random() < 0.65:
        return G.structured_model(rng, n_core=rng.randint(2, 4 if big else 3), n_conv=rng.randint(1, 4 if big else 3))
    return gen.random_model(rng, bounds=G.ZERO_BOUNDS, with_genes=True)


def _inf_model(rng):
    if rng.random() < 0.5:
        return G.structured_model(rng, n_core=rng.randint(2, 3), n_conv=rng.randint(1, 3), bounds=G.ZERO_BOUNDS_INF)
    return gen.random_model(rng, bounds=G.ZERO_BOUNDS_INF, with_genes=True)


def fixed_fastcc_cases(n):
    """seed-independent: the corner models, then zero-bounded models from a constant seed; a prefix for smaller n"""
    U.quiet()
    rng = random.Random(FIXED_SEED_FASTCC)
    out = [U.describe(m) for m in corner_models()]
    while len(out) < n:
        out.append(U.describe(_zero_model(rng)))
    return out[:n]


def fixed_blocked_cases(n):
    """seed-independent: models with infinite bounds from a constant seed (first: the unbounded linear chain)"""
    U.quiet()
    rng = random.Random(FIXED_SEED_BLOCKED)
    out = [U.describe(gen.linear_chain(2, bounds={"EX_m0": (-INF, 1000.0), "R0": (0.0, INF), "R1": (0.0, INF), "EX_out": (0.0, INF)}))]
    while len(out) < n:
        out.append(U.describe(_inf_model(rng)))
    return out[:n]


def _new_res():
    return {"evals": 0, "sigs": {}, "fails": [], "samples": [], "fastcc": 0, "blocked_calls": 0, "skipped_ray": 0,
            "reversible_dropped_ignored": 0}


def _fixed_task(task):
    """(kind, index, desc): one fixed case; every failure carries its witness id and is kept"""
    kind, i, desc = task
    U.quiet()
    res = _new_res()
    if kind == "fastcc":
        try:
            with _pinned_set_order():
                fails, info = check_fastcc(U.rebuild(desc), None, "exact")
        except Exception as e:  # noqa
            fails, info = [("driver-error", f"check raised {e!r}", "error")], {}
        res["evals"] += 1
        res["fastcc"] += 1
        res["sigs"][("fastcc-fixed", i)] = bool(info.get("nontrivial")) and not info.get("raised")
        for k, text, detail in fails:
            w = f"fastcc-fixed#{i:03d}:{detail}"
            res["fails"].append((k, text, {"model": desc, "what": "fastcc", "key": k, "witness": w, "detail": detail, "pinned": True}, 0, w, True))
    else:
        cache = {}
        for oe in (False, True):
            cfg = dict(open_exchanges=oe, rl="none", rids=None, processes=1)
            try:
                fails, info = check_blocked(U.rebuild(desc), cfg, cache)
            except Exception as e:  # noqa
                fails, info = [("driver-error", f"check raised {e!r}", "error")], {}
            res["evals"] += 1
            res["blocked_calls"] += 1
            res["sigs"][("blocked-fixed", i, oe)] = bool(info.get("nontrivial")) and not info.get("raised")
            for k, text, detail in fails:
                w = f"blocked-fixed#{i:03d}:open_exchanges={oe}" + (f":{detail}" if detail else "")
                res["fails"].append((k, text, {"model": desc, "what": "blocked", "cfg": cfg, "key": k, "witness": w}, 0, w, True))
    return res


def _task(task):
    """seed-dependent part"""
    kind, seed, idx, n, tier = task
    U.quiet()
    rng = random.Random(seed * 1000003 + idx * 11 + {"zero": 2, "inf": 3}[kind])
    res = _new_res()
    for j in range(n):
        m = _inf_model(rng) if kind == "inf" else _zero_model(rng, big=(tier == "thorough" and rng.random() < 0.3))
        desc = U.describe(m)
        sig = hash((U.signature(m), tuple(sorted(e.id for e in m.exchanges))))
        all_ids = [r.id for r in m.reactions]
        cfgs = []
        for oe in (False, True):
            cfgs.append(dict(open_exchanges=oe, rl="none", rids=None, processes=1))
            sub = rng.sample(all_ids, rng.randint(1, len(all_ids)))
            cfgs.append(dict(open_exchanges=oe, rl=rng.choice(["objects", "ids"]), rids=sub, processes=rng.choice([1, 1, 2])))
        if rng.random() < 0.3:
            cfgs.append(dict(open_exchanges=rng.random() < 0.5, rl="none", rids=None, processes=2))
        cache = {}
        if kind == "inf":
            # an unbounded flux ray is the input class of the open finding blocked-raises-unbounded: fixed list only
            if exact_blocked(m, False, False)[1] or exact_blocked(m, True, False)[1]:
                res["skipped_ray"] += 1
                continue
        for c, cfg in enumerate(cfgs + (["fastcc"] if kind == "zero" else [])):
            mm = U.rebuild(desc)
            w = f"seed{seed}:{kind}#{idx}.{j}.{c}"
            try:
                if cfg == "fastcc":
                    fails, info = check_fastcc(mm, cache, "residual")
                    res["fastcc"] += 1
                    res["reversible_dropped_ignored"] += info.get("reversible_dropped", 0)
                    payload = {"model": desc, "what": "fastcc", "mode": "residual"}
                    key = (sig, "fastcc")
                else:
                    fails, info = check_blocked(mm, cfg, cache)
                    res["blocked_calls"] += 1
                    payload = {"model": desc, "what": "blocked", "cfg": cfg}
                    key = (sig, cfg["open_exchanges"], cfg["rl"], tuple(cfg["rids"] or ()), cfg["processes"])
            except Exception as e:  # noqa
                import traceback
                fails, info = [("driver-error", f"check raised {e!r}: {traceback.format_exc()[-500:]}", "error")], {}
                payload, key = {"model": desc, "what": "fastcc" if cfg == "fastcc" else "blocked", "cfg": None if cfg == "fastcc" else cfg}, (sig, "err")
            res["evals"] += 1
            res["sigs"][key] = bool(info.get("nontrivial")) and not info.get("raised")
            for k, text, detail in fails:
                ww = w + (f":{detail}" if detail else "")
                res["fails"].append((k, text, dict(payload, key=k, witness=ww), U.size_of(desc), ww, False))
            if not res["samples"] and info.get("nontrivial") and not fails and cfg != "fastcc":
                res["samples"].append(dict(payload, blocked=info.get("n_blocked")))
    return res


TIERS = {
    "quick": {"zero_chunks": 90, "zero_n": 2, "inf_chunks": 12, "inf_n": 2, "fixed_fastcc": 160, "fixed_blocked": 40},
    "thorough": {"zero_chunks": 400, "zero_n": 6, "inf_chunks": 80, "inf_n": 4, "fixed_fastcc": 800, "fixed_blocked": 200},
}


def run(tier, seed):
    t0 = time.time()
    U.quiet()
    cfg = TIERS[tier]
    ftasks = [("fastcc", i, d) for i, d in enumerate(fixed_fastcc_cases(cfg["fixed_fastcc"]))]
    ftasks += [("blocked", i, d) for i, d in enumerate(fixed_blocked_cases(cfg["fixed_blocked"]))]
    tasks = [("zero", seed, i, cfg["zero_n"], tier) for i in range(cfg["zero_chunks"])]
    tasks += [("inf", seed, i, cfg["inf_n"], tier) for i in range(cfg["inf_chunks"])]
    n_fixed = len(ftasks)
    results = U.run_pool(_dispatch, [("fixed", t) for t in ftasks] + [("seed", t) for t in tasks], nested=True)
    F = U.Failures(per_key=2)
    sigs, samples = {}, []
    tot = {k: 0 for k in ("evals", "fastcc", "blocked_calls", "skipped_ray", "reversible_dropped_ignored")}
    fixed_evals = 0
    for n, r in enumerate(results):
        for k in tot:
            tot[k] += r[k]
        if n < n_fixed:
            fixed_evals += r["evals"]
        for k, v in r["sigs"].items():
            sigs[k] = sigs.get(k, False) or v
        F.merge(r["fails"])
        samples += r["samples"]
    return {
        "evaluations": tot["evals"],
        "distinct_nontrivial": sum(1 for v in sigs.values() if v),
        "rule": "evaluation = one find_blocked_reactions call (model, open_exchanges, reaction_list None/objects/ids, processes) or one "
                "fastcc call (model), compared with the exact set {r | exact range of v_r over {S v = 0, lb <= v <= ub} is [0,0]}. "
                "fixed part: seed-independent case lists (witness ids), seed-dependent part: models drawn from the seed. "
                "distinct = distinct (model structure incl. exchange set, call configuration) resp. fixed case; non-trivial = the call "
                "returned and the requested reactions contain both blocked and non-blocked ones",
        "bounds": {"tier": tier, "seed": seed, "fixed_fastcc_cases": cfg["fixed_fastcc"], "fixed_fastcc_set_order": "pinned (Reaction.__hash__ = crc32(id))",
                   "fixed_blocked_cases_infinite_bounds": cfg["fixed_blocked"], "fixed_part_calls": fixed_evals,
                   "seed_models": cfg["zero_chunks"] * cfg["zero_n"] + cfg["inf_chunks"] * cfg["inf_n"],
                   "seed_models_skipped_unbounded_ray": tot["skipped_ray"],
                   "seed_fastcc_reversible_removals_left_to_the_fixed_list": tot["reversible_dropped_ignored"],
                   "find_blocked_reactions_calls": tot["blocked_calls"], "fastcc_calls": tot["fastcc"],
                   "generators": "bcc.c19_gen.structured_model (<=4 core metabolites, planted dead ends / branches / cycles / duplicates / "
                   "antiparallel pairs / sinks), bcc.gen.random_model (<=4 metabolites, <=5 internal reactions) with zero-containing "
                   "bounds, 10 corner models", "processes": [1, 2], "wall_seconds": round(time.time() - t0, 1)},
        "exhaustive": False,
        "samples": samples[:2],
        "failures": F.as_list(),
        "witnesses": F.witnesses(),
    }


def _dispatch(t):
    return _fixed_task(t[1]) if t[0] == "fixed" else _task(t[1])


def replay(payload_replay):
    U.quiet()
    m = U.rebuild(payload_replay["model"])
    if payload_replay["what"] == "fastcc":
        import contextlib
        with (_pinned_set_order() if payload_replay.get("pinned") else contextlib.nullcontext()):
            fails, _ = check_fastcc(m, None, payload_replay.get("mode", "exact"))
    else:
        fails, _ = check_blocked(m, payload_replay["cfg"])
    key, detail = payload_replay.get("key"), payload_replay.get("detail")
    hits = [t for k, t, d in fails if (key is None or k == key) and (detail is None or d == detail)]
    return "; ".join(hits[:5]) if hits else None
