"""C14 — results do not depend on process count, scheduling or item order (bounded stand-in driver).

What is varied for every (model, analysis) group:
  processes in {1, 2, 3, 4, 8};  the requested item list: full / seeded shuffles / partial lists whose length n is not a
  multiple of `processes`, n < processes, n = 1 (so that the internally computed chunk size n // processes takes the
  values 1, 2, 3, ... and the last chunk is short);  the completion order of the workers: the worker functions
  `cobra.flux_analysis.variability._fva_step`, `cobra.flux_analysis.deletion._reaction_deletion` / `_gene_deletion` and
  `cobra.sampling.optgp._sample_chain` are replaced IN THIS PROCESS (never in /repo) by wrappers that sleep a seeded
  pseudo-random 0..`max_ms` milliseconds keyed by (delay seed, task argument) and then call the original.  cobra's
  ProcessPool uses multiprocessing.Pool with the default start method of the platform (fork on Linux — asserted), so the
  children forked by the call under test inherit the patched module; the wrappers keep __module__/__qualname__ of the
  original, which is what makes `pool.imap_unordered(_fva_step, ...)` pickle them by reference.  Sleeping only happens
  in child processes.  Originals are restored afterwards (try/finally).
What is compared (only uniquely defined quantities, tolerance bcc.oracle_lp.close):
  each variant with the baseline (processes=1, model order, no delays) item by item, keyed by identifier; the set of
  returned items with the requested set; every item asked for ALONE with its baseline row (small models: all items,
  textbook: a seeded handful).  (Truth of the values themselves is C05 / C06 / C19, not asked here.)
  Analyses: flux_variability_analysis (fraction 1.0 and 0.9, pfba_factor 1.5; not loopless=True, whose values depend on
  the vertex the solver happens to return and are not uniquely defined), find_blocked_reactions, find_essential_genes /
  find_essential_reactions, single_/double_ gene_/reaction_deletion (fba; linear moma on small models, where only rows
  whose MOMA optimum fixes the objective — decided by the exact LP — and the status are compared).
  Sampling: OptGPSampler with processes in {1, 2, 3, 4}: SEVERAL successive sample() / batch() calls on the same seeded
  sampler (3-5 calls, sizes mostly not multiples of the process count, so that state carried from call to call — running
  centre, sample counter — is exercised): no call raises (unless the same sequence with processes=1 raises too, i.e. the
  model itself is beyond the sampler), every call returns the documented number of rows (smallest multiple of `processes`
  >= n), every row satisfies S v = 0 and the bounds within 1e-6, and two fresh samplers with the same seed and process
  count return bit-for-bit the same frames over the whole sequence (different injected delays).
Models: seeded small networks (bcc.c06_models, finite bounds, feasible wild type) and the shipped `textbook` model.
"""
import functools
import math
import os
import random
import sys
import time
import warnings
import zlib

from bcc import c06_models as M

KNOWN_KEYS = set()
PROCS = [1, 2, 3, 4, 8]


def _quiet():
    warnings.filterwarnings("ignore")
    import logging
    for n in ("cobra", "optlang"):
        logging.getLogger(n).setLevel(logging.CRITICAL)


def _close(a, b):
    from bcc.oracle_lp import close
    a, b = float(a), float(b)
    if math.isnan(a) and math.isnan(b):
        return True
    return close(a, b)


# ----------------------------------------------------------------------------------------------------------------------
# seeded per-task delays
# ----------------------------------------------------------------------------------------------------------------------
_D = {"seed": None, "max_ms": 0.0, "parent": None}
_TARGETS = [("cobra.flux_analysis.variability", "_fva_step", 0), ("cobra.flux_analysis.deletion", "_reaction_deletion", 1),
            ("cobra.flux_analysis.deletion", "_gene_deletion", 1), ("cobra.sampling.optgp", "_sample_chain", 0)]


def _argkey(a):
    if isinstance(a, str):
        return a
    try:
        return "|".join(sorted(str(x) for x in a))
    except TypeError:
        return repr(a)


def _nap(arg):
    if _D["seed"] is None or os.getpid() == _D["parent"]:
        return
    h = zlib.crc32(f"{_D['seed']}:{_argkey(arg)}".encode())
    # a few tasks are made much slower than the rest so that chunks certainly overtake each other
    ms = (h % 1000) / 1000.0 * _D["max_ms"] * (4.0 if h % 7 == 0 else 1.0)
    time.sleep(ms / 1000.0)


class delays:
    """context manager: install the sleeping wrappers (before the code under test forks its pool), restore on exit"""

    def __init__(self, seed, max_ms=3.0):
        self.seed, self.max_ms, self.saved = seed, max_ms, []

    def __enter__(self):
        import multiprocessing
        import cobra.flux_analysis.variability  # noqa
        import cobra.flux_analysis.deletion  # noqa
        import cobra.sampling.optgp  # noqa
        assert multiprocessing.get_start_method() == "fork", "delay injection relies on the fork start method"
        _D.update(seed=self.seed, max_ms=self.max_ms, parent=os.getpid())
        if self.seed is None:
            return self
        for modname, fname, pos in _TARGETS:
            mod = sys.modules[modname]
            orig = getattr(mod, fname)

            def make(orig=orig, pos=pos):
                @functools.wraps(orig)
                def wrapper(*a, **k):
                    _nap(a[pos])
                    return orig(*a, **k)
                wrapper._c14_original = orig
                return wrapper
            self.saved.append((mod, fname, orig))
            setattr(mod, fname, make())
        return self

    def __exit__(self, *exc):
        for mod, fname, orig in self.saved:
            setattr(mod, fname, orig)
        _D.update(seed=None, parent=None)
        return False


# ----------------------------------------------------------------------------------------------------------------------
# models
# ----------------------------------------------------------------------------------------------------------------------
_TEXTBOOK = {}


def get_model(ref):
    """ref: 'textbook' or a spec"""
    if ref == "textbook":
        if "m" not in _TEXTBOOK:
            import cobra.io
            _TEXTBOOK["m"] = cobra.io.load_model("textbook")
        return _TEXTBOOK["m"].copy()
    return M.build(M.unjson(ref))


def small_spec(rng):
    """finite bounds, feasible wild type with a positive optimum, >= 2 genes"""
    from bcc.c06_models import fba_exact
    for _ in range(200):
        spec = M.growth_spec(rng) if rng.random() < 0.75 else M.random_spec(rng, safe=True)
        if len(M.gene_ids(spec)) < 2:
            continue
        st, v = fba_exact(spec)
        if st == "optimal" and abs(v) > 1e-3:
            return spec
    raise RuntimeError("no model")


# ----------------------------------------------------------------------------------------------------------------------
# analyses: each returns {item key: value tuple}
# ----------------------------------------------------------------------------------------------------------------------
def _items(model, fn):
    if fn in ("fva", "fva90", "fva_pf", "blocked", "blocked_open", "single_reaction", "double_reaction", "moma_reaction"):
        return [r.id for r in model.reactions]
    if fn in ("single_gene", "double_gene", "moma_gene"):
        return [g.id for g in model.genes]
    return None  # essential_*: no item list


def call(model, fn, items, processes, items2=None):
    """-> dict item -> tuple of values;  items None = the function's default (all)"""
    from cobra import flux_analysis as FA
    from cobra.flux_analysis.variability import (find_blocked_reactions, find_essential_genes, find_essential_reactions,
                                                 flux_variability_analysis)
    if fn in ("fva", "fva90", "fva_pf"):
        df = flux_variability_analysis(model, reaction_list=items, fraction_of_optimum=0.9 if fn == "fva90" else 1.0,
                                       pfba_factor=1.5 if fn == "fva_pf" else None, processes=processes)
        if len(set(df.index)) != len(df.index):
            return {"__dup__": tuple(df.index)}
        return {k: (float(df.at[k, "minimum"]), float(df.at[k, "maximum"])) for k in df.index}
    if fn in ("blocked", "blocked_open"):
        # Reaction objects: find_blocked_reactions hands the list to get_solution, which does not accept identifiers
        ret = find_blocked_reactions(model, reaction_list=None if items is None else [model.reactions.get_by_id(x) for x in items],
                                     open_exchanges=fn == "blocked_open", processes=processes)
        req = items if items is not None else [r.id for r in model.reactions]
        ret = [getattr(x, "id", x) for x in ret]
        out = {k: ("blocked" if k in ret else "open",) for k in req}
        for k in ret:
            if k not in out:
                out[k] = ("blocked-but-not-requested",)
        return out
    if fn in ("essential_genes", "essential_reactions"):
        f = find_essential_genes if fn == "essential_genes" else find_essential_reactions
        ret = {x.id for x in f(model, processes=processes)}
        allv = [g.id for g in model.genes] if fn == "essential_genes" else [r.id for r in model.reactions]
        return {k: ("essential" if k in ret else "not",) for k in allv}
    kind = "gene" if "gene" in fn else "reaction"
    method = "linear moma" if fn.startswith("moma") else "fba"
    if fn.startswith("double"):
        df = getattr(FA, f"double_{kind}_deletion")(model, items, items2, method=method, processes=processes)
    else:
        df = getattr(FA, f"single_{kind}_deletion")(model, items, method=method, processes=processes)
    out = {}
    for ids, g, s in zip(df["ids"], df["growth"], df["status"]):
        k = "|".join(sorted(ids))
        if k in out:
            return {"__dup__": (k,)}
        out[k] = (float(g), str(s))
    return out


MOMA_INFEASIBLE_KEY = "moma:infeasible-row-growth-depends-on-schedule"


def _cmp(base, got, requested, label, fn, undecided=(), infeasible=()):
    """-> list of (key, text)"""
    out = []
    if "__dup__" in got:
        return [(f"{fn}:duplicate-rows", f"{label}: item(s) {got['__dup__'][:3]} returned more than once")]
    if requested is not None and set(got) != set(requested):
        out.append((f"{fn}:items", f"{label}: returned items differ from the requested ones: missing "
                                   f"{sorted(set(requested) - set(got))[:4]}, extra {sorted(set(got) - set(requested))[:4]}"))
    for k, v in got.items():
        if k not in base or k in undecided:
            continue
        b = base[k]
        same = True
        for x, y in zip(v, b):
            if isinstance(x, float):
                same = same and _close(x, y)
            else:
                same = same and x == y
        if not same and k in infeasible and v[1:] == b[1:]:
            out.append((MOMA_INFEASIBLE_KEY, f"{label}: {k} -> {v}, baseline (processes=1, model order) {b}: the knocked-out "
                                             f"model is infeasible and the reported growth is whatever the worker's solver "
                                             f"held before (see NOTES_C06: it should be NaN)"))
        elif not same:
            out.append((f"{fn}:value", f"{label}: {k} -> {v}, baseline (processes=1, model order) {b}"))
            if len(out) > 3:
                break
    return out


# ----------------------------------------------------------------------------------------------------------------------
# one group = (model, analysis): baseline + variants + single-item calls (+ exact oracle on small models)
# ----------------------------------------------------------------------------------------------------------------------
def make_variants(rng, fn, items, n_variants, procs=None):
    """JSON-able variant descriptions"""
    out = []
    pool = list(procs or [2, 3, 4, 8])
    rng.shuffle(pool)
    for v in range(n_variants):
        p = pool[v % len(pool)]
        var = {"processes": p, "delay_seed": rng.randrange(10 ** 6), "max_ms": rng.choice([1.0, 3.0, 6.0])}
        if items is not None:
            mode = ["shuffle", "partial", "short", "shuffle"][v % 4]
            L = list(items)
            rng.shuffle(L)
            if mode == "partial":
                # a length that is not a multiple of p (and > p when possible)
                cands = [n for n in range(p + 1, len(L) + 1) if n % p] or [len(L)]
                L = L[:rng.choice(cands)]
            elif mode == "short":
                L = L[:rng.randint(1, max(1, min(p - 1, len(L))))]  # n < processes
            var["items"] = L
            if fn.startswith("double"):
                L2 = list(items)
                rng.shuffle(L2)
                var["items2"] = None if v % 3 == 0 else L2[:rng.randint(1, len(L2))]
        out.append(var)
    return out


def run_variant(ref, fn, var, base, undecided=(), infeasible=()):
    model = get_model(ref)
    items, items2 = var.get("items"), var.get("items2")
    label = (f"{fn}(processes={var['processes']}, items={_short(items)}"
             + (f", items2={_short(items2)}" if fn.startswith("double") else "") + f", delay seed {var['delay_seed']})")
    try:
        with delays(var["delay_seed"], var["max_ms"]):
            got = call(model, fn, items, var["processes"], items2)
    except Exception as e:  # noqa
        return [(f"{fn}:raises", f"{label} raised {e!r}")]
    if fn.startswith("double"):
        import itertools
        allv = _items(model, fn)
        a = items if items is not None else allv
        b = items2 if items2 is not None else a
        requested = {"|".join(sorted(set(c))) for c in itertools.product(a, b)}
    elif items is not None:
        requested = set(items)
    else:
        requested = set(base)
    return _cmp(base, got, requested, label, fn, undecided, infeasible)


def _short(L):
    if L is None:
        return None
    return L if len(L) <= 6 else L[:5] + [f"... {len(L)} items"]


def _undecided(ref, fn, base_model):
    """items whose value is not uniquely defined (not compared)"""
    und = set()
    if fn.startswith("essential"):
        # growth within tolerance of the threshold: membership is decided by rounding
        from cobra import flux_analysis as FA
        m = get_model(ref)
        thr = m.slim_optimize() * 0.01
        df = (FA.single_gene_deletion if fn == "essential_genes" else FA.single_reaction_deletion)(m, processes=1)
        for ids, g in zip(df["ids"], df["growth"]):
            if not math.isnan(g) and abs(g - thr) <= 1e-6 * max(1.0, abs(thr)):
                und |= set(ids)
    return und


def group_task(args):
    """-> (n_runs, n_items_compared, failures, sample)"""
    ref, fn, seed, n_variants, n_single = args
    _quiet()
    rng = random.Random(seed)
    fails = []
    model = get_model(ref)
    allv = _items(model, fn)
    runs = 0
    compared = 0
    try:
        base = call(get_model(ref), fn, None if not fn.startswith("double") else allv[:12], 1,
                    None if not fn.startswith("double") else allv[:12])
    except Exception as e:  # noqa
        return 1, 0, [{"key": f"{fn}:baseline-raises", "failure": f"{fn} with processes=1 raised {e!r}",
                       "replay": {"ref": ref, "fn": fn, "var": None, "key": f"{fn}:baseline-raises"}}], None
    runs += 1
    if fn.startswith("double"):
        allv = allv[:12]
    und = _undecided(ref, fn, model)
    spec = None if ref == "textbook" else M.unjson(ref)
    # moma: only rows whose growth is fixed by the MOMA optimum are comparable -> decided by the exact LP
    infeas = set()
    if fn.startswith("moma"):
        u2, infeas = _moma_undecided(spec, fn, base)
        und |= u2
    variants = make_variants(rng, fn, allv, n_variants)
    for var in variants:
        res = run_variant(ref, fn, var, base, und, infeas)
        runs += 1
        compared += len(var.get("items") or base)
        fails += [_mk(ref, fn, var, k, t) for k, t in res]
    # every item alone
    if allv is not None and n_single:
        singles = list(allv)
        rng.shuffle(singles)
        for x in singles[:n_single]:
            if fn.startswith("double"):
                y = rng.choice(allv)
                var = {"processes": rng.choice([1, 2, 4]), "delay_seed": None, "max_ms": 0, "items": [x], "items2": [y]}
            else:
                var = {"processes": rng.choice([1, 2, 4]), "delay_seed": None, "max_ms": 0, "items": [x]}
            res = run_variant(ref, fn, var, base, und, infeas)
            runs += 1
            compared += 1
            fails += [_mk(ref, fn, var, k.replace(":value", ":alone"), t) for k, t in res]
    sample = {"model": ref if ref == "textbook" else f"{len(spec['rxns'])} reactions / {len(M.gene_ids(spec))} genes",
              "analysis": fn, "variant": {k: (_short(v) if isinstance(v, list) else v) for k, v in variants[0].items()}
              if variants else None, "baseline_items": len(base)}
    return runs, compared, fails, sample


def _mk(ref, fn, var, key, text):
    return {"key": key, "failure": text, "replay": {"ref": ref, "fn": fn, "var": var, "key": key}}


def _moma_undecided(spec, fn, base):
    """-> (undecided, infeasible): rows of a linear-moma deletion whose growth is not fixed by the problem (MOMA optimum
    not unique in the objective, or the pFBA reference itself not unique) and rows whose knocked-out model is infeasible"""
    from cobra import flux_analysis as FA
    from bcc.oracle_lp import close
    ref = {r[0]: float(FA.pfba(M.build(spec)).fluxes[r[0]]) for r in spec["rxns"]}
    kind = "gene" if "gene" in fn else "reaction"
    und, inf = set(), set()
    ref_unique = _pfba_unique(spec)
    for k in base:
        ids = k.split("|")
        off = M.reactions_off(spec, ids) if kind == "gene" else frozenset(ids)
        st, dist, rg = M.moma_exact(spec, off, ref)
        if st == "infeasible":
            inf.add(k)
        elif not ref_unique or st != "optimal" or rg[0] is None or rg[1] is None or not close(rg[0], rg[1]):
            und.add(k)
    return und, inf


def _pfba_unique(spec):
    """is the pFBA optimum of the wild type a single point? (exact)"""
    st, opt, tot = M.pfba_exact(spec)
    if st != "optimal":
        return False
    lp = M.base_lp(spec)
    lp.con(spec["objective"], opt, opt)
    totc = {}
    for rid, *_ in spec["rxns"]:
        lp.var("abs_" + rid, 0.0, float("inf"))
        lp.con({rid: 1.0, "abs_" + rid: -1.0}, -float("inf"), 0.0)
        lp.con({rid: 1.0, "abs_" + rid: 1.0}, 0.0, float("inf"))
        totc["abs_" + rid] = 1.0
    lp.con(totc, -float("inf"), tot)
    for rid, *_ in spec["rxns"]:
        lo, hi = lp.range_of(rid)
        if lo is None or hi is None or lo != hi:
            return False
    return True


# ----------------------------------------------------------------------------------------------------------------------
# sampling
# ----------------------------------------------------------------------------------------------------------------------
def _seq_label(seq):
    return " ; ".join(f"sample({st[1]})" if st[0] == "s" else f"batch({st[1]}, {st[2]})" for st in seq)


def _run_sampler(ref, seed, processes, seq, thinning, delay_seed):
    """one fresh seeded sampler, the whole call sequence -> (frames [(requested n, DataFrame)], error text | None, model)"""
    from cobra.sampling import OptGPSampler
    model = get_model(ref)
    frames = []
    try:
        with delays(delay_seed, 4.0):
            s = OptGPSampler(model, processes=processes, thinning=thinning, seed=seed % 1000)
            for st in seq:
                if st[0] == "s":
                    frames.append((st[1], s.sample(st[1])))
                else:
                    for df in s.batch(st[1], st[2]):
                        frames.append((st[1], df))
    except Exception as e:  # noqa
        return frames, f"call #{len(frames) + 1} raised {e!r}"[:260], model
    return frames, None, model


def sampling_task(args):
    """args: (model ref, seed, processes, seq, thinning); seq = [["s", n] | ["b", batch_size, batch_num], ...] — SEVERAL
    successive calls on the SAME sampler (the running centre and sample counter carry over from call to call)"""
    ref, seed, processes, seq, thinning = args
    if isinstance(seq, int):  # old replay payloads
        seq = [["s", seq], ["s", seq + 1]]
    _quiet()
    import numpy as np
    fails = []
    label = f"OptGPSampler(processes={processes}, seed={seed % 1000}, thinning={thinning}): {_seq_label(seq)}"
    var = {"seed": seed, "processes": processes, "seq": seq, "thinning": thinning}
    runs = [_run_sampler(ref, seed, processes, seq, thinning, seed * 7 + rep) for rep in range(2)]
    n_runs = 2
    (f1, e1, model), (f2, e2, _) = runs
    # ---- no exception (unless the single-process sampler cannot handle this model / sequence either)
    if e1 is not None or e2 is not None:
        if (e1 is None) != (e2 is None) or len(f1) != len(f2):
            fails.append(("sampling:reproducible", f"{label}: two identical runs ended differently: {e1} / {e2}"))
        elif processes > 1:
            _, e0, _ = _run_sampler(ref, seed, 1, seq, thinning, None)
            n_runs += 1
            if e0 is None:
                fails.append(("sampling:raises", f"{label}: {e1} (after {len(f1)} successful calls); the same sequence "
                                                 f"with processes=1 works"))
    # ---- every returned frame: documented row count, S v = 0, bounds
    S = np.zeros((len(model.metabolites), len(model.reactions)))
    for j, r in enumerate(model.reactions):
        for m_, c in r.metabolites.items():
            S[model.metabolites.index(m_), j] = c
    lb = np.array([r.lower_bound for r in model.reactions])
    ub = np.array([r.upper_bound for r in model.reactions])
    rows = 0
    for k, (nn, df) in enumerate(f1):
        which = f"call #{k + 1} (n={nn})"
        want = int(math.ceil(nn / processes)) * processes
        if len(df) != want or list(df.columns) != [r.id for r in model.reactions]:
            fails.append(("sampling:shape", f"{label}: {which} returned {len(df)} rows, documented {want} (smallest multiple "
                                            f"of processes >= {nn})"))
        v = df.values
        rows += len(df)
        if not v.size:
            continue
        scale = max(1.0, float(np.abs(v).max()))
        res = float(np.abs(S.dot(v.T)).max())
        if not np.isfinite(v).all() or res > 1e-6 * scale:
            fails.append(("sampling:steady-state", f"{label}: {which} violates S v = 0 by {res}"))
        viol = max(float((lb - v).max()), float((v - ub).max()))
        if viol > 1e-6 * scale:
            fails.append(("sampling:bounds", f"{label}: {which} violates the bounds by {viol}"))
    # ---- reproducible over the whole sequence
    for k, ((_, a), (_, b)) in enumerate(zip(f1, f2)):
        if a.shape != b.shape or a.values.tobytes() != b.values.tobytes():
            d = float(np.abs(a.values - b.values).max()) if a.shape == b.shape else "shape"
            fails.append(("sampling:reproducible", f"{label}: two fresh samplers with the same seed and process count differ "
                                                   f"in call #{k + 1} (max difference {d})"))
            break
    sample = {"model": "textbook" if ref == "textbook" else "small", "analysis": "sampling", "processes": processes,
              "sequence": _seq_label(seq), "rows": [len(df) for _, df in f1], "skipped": e1} if True else None
    return n_runs, rows, [_mk(ref, "sampling", var, k, t) for k, t in fails], sample


def make_seq(rng, processes, n_calls):
    """call sequence whose sizes are mostly NOT multiples of the process count"""
    sizes = [n for n in (2, 3, 4, 5, 7, 10) if n % processes] or [3, 5]
    seq = []
    for k in range(n_calls):
        n = rng.choice(sizes) if k != 2 else rng.choice([processes, 2 * processes])  # one exact multiple in between
        if k == 1:
            seq.append(["b", n, 2])
        else:
            seq.append(["s", n])
    return seq


def _dispatch(task):
    kind, args = task
    try:
        return (sampling_task if kind == "sampling" else group_task)(args)
    except Exception as e:  # noqa
        import traceback
        return 0, 0, [{"key": "driver-error", "failure": f"{kind} {str(args)[-200:]}: {e!r} {traceback.format_exc()[-500:]}",
                       "replay": {"ref": None, "fn": None, "var": None}}], None


# fixed hand-sized model in every run: uptake -> R0 -> R1 -> forced output (three of the four single knock-outs infeasible)
CHAIN = {"mets": ["m0_c", "m1_c", "m2_c"],
         "rxns": [["EX_m0", -10.0, 1000.0, {"m0_c": -1.0}, None], ["R0", 0.0, 1000.0, {"m0_c": -1.0, "m1_c": 1.0}, 0],
                  ["R1", 0.0, 1000.0, {"m1_c": -1.0, "m2_c": 1.0}, ["or", [0, 1]]],
                  ["EX_out", 1.0, 1000.0, {"m2_c": -1.0}, ["and", [1, 2]]]],
         "objective": {"EX_out": 1.0}, "direction": "max", "genes": ["g1", "g11", "ab"]}
SMALL_FNS = ["fva", "fva90", "fva_pf", "blocked", "essential_genes", "essential_reactions", "single_gene", "single_reaction",
             "double_gene", "double_reaction", "moma_gene", "moma_reaction"]


def run(tier, seed):
    _quiet()
    import multiprocessing as mp
    from concurrent.futures import ProcessPoolExecutor
    import cobra.io  # noqa
    t0 = time.time()
    rng = random.Random(seed)
    quick = tier == "quick"
    tasks = []
    n_small = 16 if quick else 120
    for i in range(n_small):
        spec = M.jsonable(small_spec(rng)) if i else CHAIN
        for fn in SMALL_FNS:
            tasks.append(("group", (spec, fn, rng.randrange(10 ** 9), 4 if quick else 8, 99)))
        if i < (6 if quick else 40):
            for p in ([2, 3], [4, 2], [3, 4])[i % 3]:
                tasks.append(("sampling", (spec, rng.randrange(10 ** 6), p, make_seq(rng, p, 4), rng.choice([2, 3]))))
            if i % 3 == 0:
                tasks.append(("sampling", (spec, rng.randrange(10 ** 6), 1, make_seq(rng, 1, 3), 3)))
    tb = [("fva", 3, 4), ("fva90", 2, 2), ("fva_pf", 1, 1), ("blocked", 2, 3), ("blocked_open", 1, 0), ("essential_genes", 2, 0),
          ("essential_reactions", 2, 0), ("single_gene", 3, 5), ("single_reaction", 2, 4), ("double_gene", 2, 2),
          ("double_reaction", 2, 2)]
    for fn, nv, ns in tb:
        tasks.append(("group", ("textbook", fn, rng.randrange(10 ** 9), nv if quick else nv * 4, ns if quick else ns * 4)))
    for p, seq in ((2, [["s", 5], ["b", 3, 2], ["s", 4], ["s", 7]]), (3, [["s", 4], ["b", 5, 2], ["s", 3], ["s", 10]]),
                   (4, [["s", 10], ["b", 3, 2], ["s", 4]]), (1, [["s", 4], ["b", 3, 2]])):
        tasks.append(("sampling", ("textbook", rng.randrange(10 ** 6), p, seq, 3)))
    # heavy tasks first
    tasks.sort(key=lambda t: 0 if t[1][0] == "textbook" else 1)
    get_model("textbook")  # loaded once, inherited by the workers
    with ProcessPoolExecutor(min(16, os.cpu_count() or 1), mp_context=mp.get_context("fork")) as ex:
        results = list(ex.map(_dispatch, tasks))
    runs = sum(r[0] for r in results)
    compared = sum(r[1] for r in results)
    merged = {}
    for r in results:
        for f in r[2]:
            if f["key"] in merged:
                merged[f["key"]]["_n"] += 1
                if len(str(f["replay"])) < len(str(merged[f["key"]]["replay"])):
                    f["_n"] = merged[f["key"]]["_n"]
                    merged[f["key"]] = f
            else:
                f["_n"] = 1
                merged[f["key"]] = f
    failures = []
    for f in merged.values():
        f["failure"] += f"  [{f.pop('_n')} occurrences]"
        failures.append(f)
    par = sum(1 for t in tasks if t[0] == "group" for _ in range(t[1][3]))
    return {
        "evaluations": runs,
        "distinct_nontrivial": par + sum(2 for t in tasks if t[0] == "sampling" and t[1][2] > 1),
        "sampler_calls": sum(2 * sum(1 if st[0] == "s" else st[2] for st in t[1][3]) for t in tasks if t[0] == "sampling"),
        "rule": "evaluation = one call of an analysis (baseline, parallel variant, single-item call, or one sampler "
                "construction + two batches); non-trivial = calls that really ran in a worker pool (processes > 1 and more "
                "than one item) under a seeded shuffle / partial list / delay seed — all distinct by construction "
                "(model x analysis x processes x list x delay seed)",
        "bounds": {"processes": PROCS, "small_models": n_small, "textbook_groups": len(tb), "analyses": SMALL_FNS + ["sampling"],
                   "items_compared": compared, "max_delay_ms": 6.0 * 4, "seconds": round(time.time() - t0, 1),
                   "tasks": len(tasks)},
        "exhaustive": False,
        "samples": [r[3] for r in results if r[3]][:3],
        "failures": sorted(failures, key=lambda f: f["key"]),
    }


def replay(payload):
    _quiet()
    ref, fn, var = payload.get("ref"), payload.get("fn"), payload.get("var")
    if fn is None:
        return None
    want = payload.get("key")
    if fn == "sampling":
        _, _, fails, _ = sampling_task((ref, var["seed"], var["processes"], var.get("seq", var.get("n")), var["thinning"]))
        for f in fails:
            if want is None or f["key"] == want:
                return f["failure"]
        return None
    model = get_model(ref)
    allv = _items(model, fn)
    dbl = fn.startswith("double")
    base = call(get_model(ref), fn, allv[:12] if dbl else None, 1, allv[:12] if dbl else None)
    spec = None if ref == "textbook" else M.unjson(ref)
    if var is None:
        res = []
    else:
        und = _undecided(ref, fn, model)
        infeas = set()
        if fn.startswith("moma"):
            u2, infeas = _moma_undecided(spec, fn, base)
            und |= u2
        res = run_variant(ref, fn, var, base, und, infeas)
        res = [(k.replace(":value", ":alone") if want and want.endswith(":alone") else k, t) for k, t in res]
    for k, t in res:
        if want is None or k == want:
            return t
    return None
