"""C09 (bounded tier) — pFBA, linear MOMA and ROOM solve their documented secondary problems optimally.

Real code under test: cobra.flux_analysis.pfba / add_pfba, moma / add_moma (linear=True), room / add_room
(linear=False and True) — called through the public functions, on GLPK.
Oracle: the *documented* secondary problem rebuilt from (S, bounds, objective, reference) with bcc.oracle_lp (exact
rational LP); ROOM's binaries by exhaustive enumeration (<= 8 reactions, subsets by increasing size, each an exact LP
feasibility question — a superset of a feasible pattern is feasible, so the first feasible size is the minimum).

What is checked (only uniquely defined quantities)                                               [failure key prefix]
 pFBA   primary optimum opt (exact), bound = fraction*opt, secondary: min sum_i |v_i| s.t. S v = 0, lb <= v <= ub,
        c.v >= bound (direction max) / c.v <= bound (direction min, as util.solver.fix_objective_as_constraint documents).
        - status optimal iff the secondary problem is feasible (otherwise: non-optimal status or OptimizationError)
        - objective_value == exact minimum total                                                 [pfba:objective_value]
        - full flux vector: steady state, in bounds [pfba:infeasible-flux], c.v beyond the bound [pfba:fraction],
          sum |v| == exact minimum                                                               [pfba:total]
        - `reactions=` subset: exactly these ids are returned [pfba:subset-ids]; fixing them (+-1e-6) in the exact
          problem still allows the exact minimum (they are part of *an* optimal distribution)    [pfba:subset-values]
        - both entry points: pfba(...) and `with model: add_pfba(...); model.optimize()`
 MOMA   (linear) min sum_i |v_i - ref_i| over the (knocked-out) model's polytope.  reference: given pFBA / FBA solution of
        the wild type, or None (documented default: pFBA of the model as passed -> the reference is feasible for the very
        model, so the exact minimum is 0).  status [moma:status], feasibility [moma:infeasible-flux], distance computed
        from the returned fluxes [moma:distance], objective_value [moma:objective_value].
 ROOM   w_u = w + delta|w| + eps, w_l = w - delta|w| - eps (room.py Notes); y_i = 0 forces w_l <= v_i <= w_u.
        linear=False: minimum number of reactions outside the band, by enumeration; compared with round(objective_value)
        [room:count] and with the number of returned fluxes outside the band widened by 1e-6 [room:flux-count]; returned
        fluxes feasible [room:infeasible-flux].  Counts are compared, never MILP fluxes.
        linear=True: 0 <= y <= 1 and delta = epsilon = 0 (what add_room does and DESIGN C09 P states): the exact LP
        optimum of sum y vs objective_value [room-linear:sum].
        If a mismatch disappears once the undocumented row `room_old_objective <= reference.objective_value` of add_room
        is added to the oracle, the key is  room:objective-cap  (see NOTES_C09.md) instead.
 Pairing by identifier: given references come with their rows in the model's order, reversed or shuffled
 (pfba(model, reactions=<reordered full list>) / get_solution(model, reactions=...)), sometimes model.reactions itself is
 reversed after the reference was taken, and the knock-out may be a *removal* (remove_reactions) so that the wild-type
 reference has one row more than the model; pfba's `reactions=` gets subsets in random order and the full list reordered.
 The oracle reads every reference by reaction id.
 Open class room-linear:noise-coefficient (NOTES_C09 finding 2): reported only from the fixed, seed-independent cases of
 fixed_cases() (failure field "witness", list in KNOWN_C09.json); a seeded model that hits the same degenerate default
 reference is counted (skipped_noise), not reported.
 Reference solutions given to MOMA/ROOM are rounded to 9 decimals (they stay optimal within solver tolerance); this keeps
 1e-16 noise out of the coefficients `upper_bound - w_u` of the relaxed ROOM rows.

Not demanded (statement silent): restoring the model, the second add_* raising, quadratic MOMA (no QP solver here),
ROOM with infinite bounds (the documented rows contain v_max - w_u).
"""
import itertools
import math
import random
import time
from fractions import Fraction

from bcc import gen, oracle_lp
from bcc import c09_util as U

KNOWN_KEYS = set()
INF = float("inf")
TOL = 1e-6

EX_B = [(-10.0, 1000.0), (-1000.0, 1000.0), (0.0, 1000.0), (-5.0, 10.0), (-10.0, 0.0), (-10.0, 1000.0), (-3.0, 1000.0),
        (-3000.0, 1000.0), (-20.0, 5.0)]
IN_B = [(0.0, 1000.0)] * 4 + [(-1000.0, 1000.0)] * 4 + [(0.0, 10.0), (-10.0, 10.0), (-1000.0, 0.0), (-1000.0, 0.0),
                                                        (1.0, 10.0), (0.0, 5.0), (-5.0, 1000.0), (-10.0, -1.0), (2.0, 2.0),
                                                        (-3000.0, 1000.0), (-20.0, 5.0), (-1000.0, 3000.0),
                                                        (0.0, INF), (-INF, INF), (-INF, 0.0)]


# ----------------------------------------------------------------------------------------------------------------------
# models
# ----------------------------------------------------------------------------------------------------------------------
def c09_model(rng, max_rxns=8):
    import cobra
    n_mets = rng.randint(2, 4)
    m = cobra.Model(f"c09_{rng.randint(0, 10**6)}")
    mets = [cobra.Metabolite(f"m{i}", compartment="c") for i in range(n_mets)]
    rxns = []
    for i, met in enumerate(mets):
        if i in (0, n_mets - 1) or rng.random() < 0.6:
            r = cobra.Reaction(f"EX_m{i}")
            lb, ub = rng.choice(EX_B)
            if rng.random() < 0.25:
                r.add_metabolites({met: 1.0})
                lb, ub = -ub, -lb
            else:
                r.add_metabolites({met: -1.0})
            r.bounds = (lb, ub)
            rxns.append(r)
    n_int = rng.randint(2, max(2, min(5, max_rxns - len(rxns))))
    sto = []
    for i in range(n_int):
        r = cobra.Reaction(f"R{i}")
        if sto and rng.random() < 0.25:
            base = rng.choice(sto)
            st = {k: -v for k, v in base.items()} if rng.random() < 0.6 else dict(base)
        elif n_mets >= 3 and rng.random() < 0.25:
            a, b, c = rng.sample(range(n_mets), 3)
            if rng.random() < 0.5:
                st = {a: -1.0, b: -1.0, c: float(rng.choice([1, 1, 2]))}
            else:
                st = {a: -float(rng.choice([1, 1, 2])), b: 1.0, c: 1.0}
        else:
            a, b = rng.sample(range(n_mets), 2)
            st = {a: -float(rng.choice([1, 1, 1, 2])), b: float(rng.choice([1, 1, 1, 2]))}
        sto.append(st)
        r.add_metabolites({mets[k]: v for k, v in st.items()})
        r.bounds = rng.choice(IN_B)
        r.gene_reaction_rule = rng.choice(gen.RULES)
        rxns.append(r)
    m.add_reactions(rxns)
    from cobra.util.solver import set_objective
    objr = rng.choice(m.reactions)
    coefs = {objr: float(rng.choice([1, 1, 2]))}
    if rng.random() < 0.35:
        other = rng.choice([r for r in m.reactions if r is not objr])
        coefs[other] = float(rng.choice([-1, 2, 2]))
    set_objective(m, coefs)
    m.objective_direction = rng.choice(["max"] * 4 + ["min"])
    return m


def corner_models():
    import cobra
    lc = gen.linear_chain
    yield lc(2)
    yield lc(3, cyc=True)
    yield lc(2, reverse_exchange=True)
    yield lc(3, cyc=True, reverse_exchange=True, objective="R1")
    yield lc(2, bounds={"R0": (1.0, 1000.0)}, direction="min")
    # objective coefficients > 1: c.v (40) exceeds the total flux (30) of the pFBA solution (NOTES_C09: room:objective-cap)
    m0 = lc(1)
    from cobra.util.solver import set_objective as _so
    _so(m0, {m0.reactions.R0: 2.0, m0.reactions.EX_out: 2.0})
    yield m0
    yield lc(3, cyc=True, rules={"R1": "g1", "R2": "g1 or g2", "CYC": "g2"})
    # diamond: a short and a long route, the long one written backwards (negative reference fluxes)
    m = cobra.Model("diamond")
    a, b, c = (cobra.Metabolite(x, compartment="c") for x in "abc")
    spec = [("EX_a", {a: -1.0}, (-10.0, 0.0), ""), ("EX_b", {b: -1.0}, (0.0, 1000.0), ""),
            ("SHORT", {a: -1.0, b: 1.0}, (0.0, 4.0), "g1"), ("L1", {c: -1.0, a: 1.0}, (-1000.0, 0.0), "g2"),
            ("L2", {b: -1.0, c: 1.0}, (-1000.0, 1000.0), "g2 or g3")]
    rs = []
    for rid, st, bd, rule in spec:
        r = cobra.Reaction(rid)
        r.add_metabolites(st)
        r.bounds = bd
        r.gene_reaction_rule = rule
        rs.append(r)
    m.add_reactions(rs)
    m.objective = "EX_b"
    yield m
    m2 = m.copy()
    m2.id = "diamond2"
    from cobra.util.solver import set_objective
    set_objective(m2, {m2.reactions.EX_b: 2.0, m2.reactions.SHORT: 2.0})
    yield m2


def exact_primary(model, coefs=None, direction=None, knockouts=()):
    lp, c, d = oracle_lp.fba_lp(model, knockouts)
    if coefs is not None:
        c = {k: float(v) for k, v in coefs.items() if v != 0}
    if direction is not None:
        d = direction
    st, opt, _ = lp.solve(c, d)
    return lp, c, d, st, opt


def exact_pfba(lp, c, d, opt, fraction, fixed=None):
    lp2 = lp.copy()
    bound = Fraction(fraction) * opt
    if d == "max":
        U.con_exact(lp2, c, bound, INF)
    else:
        U.con_exact(lp2, c, -INF, bound)
    names = []
    for rid in list(lp.vars):
        names.append(U.add_abs(lp2, "abs__" + rid, {rid: 1.0}))
    if fixed:
        for rid, val in fixed.items():
            s = TOL * max(1.0, abs(val))
            lp2.con({rid: 1.0}, val - s, val + s)
    st, tot, _ = lp2.solve({n: 1.0 for n in names}, "min")
    return st, tot, bound


# ----------------------------------------------------------------------------------------------------------------------
# case lists
# ----------------------------------------------------------------------------------------------------------------------
def usable(model):
    """feasible, bounded, optimum >= 0 (the quantifier); -> (ok, carries_flux)"""
    lp, c, d, st, opt = exact_primary(model)
    if st != "optimal" or opt < 0:
        return False, False
    st2, tot, _ = exact_pfba(lp, c, d, opt, 1)
    return True, bool(st2 == "optimal" and tot > 0)


def alt_objectives(model, rng, k):
    """explicit objective= arguments with exact optimum >= 0"""
    out = []
    rids = [r.id for r in model.reactions]
    tries = 0
    while len(out) < k and tries < 12:
        tries += 1
        rid = rng.choice(rids)
        coefs = {rid: float(rng.choice([1, 1, 2]))}
        if rng.random() < 0.3 and len(rids) > 1:
            coefs[rng.choice([x for x in rids if x != rid])] = float(rng.choice([-1, 2]))
        kind = rng.choice(["dict", "dict", "objective"])
        direction = rng.choice(["max", "max", "min"]) if kind == "objective" else None
        _, _, _, st, opt = exact_primary(model, coefs, direction)
        if st == "optimal" and opt >= 0:
            out.append({"kind": kind, "coefs": coefs, "direction": direction})
    return out


def cases_for(model, rng, tier):
    desc = U.describe(model)
    ok, carries = usable(model)
    if not ok:
        return []
    rids = [r.id for r in model.reactions]
    gids = sorted(g.id for g in model.genes)
    finite = all(not math.isinf(b) for r in model.reactions for b in r.bounds)
    cases = []

    def add(**kw):
        kw["model"] = desc
        kw["carries"] = carries
        cases.append(kw)
    # pFBA
    for f in (0.0, 0.5, 1.0):
        add(method="pfba", api="pfba", fraction=f, objective=None, reactions=None)
    add(method="pfba", api="add_pfba", fraction=rng.choice([0.0, 0.5, 1.0]), objective=None, reactions=None)
    for spec in alt_objectives(model, rng, 2 if tier == "quick" else 4):
        add(method="pfba", api=rng.choice(["pfba", "pfba", "add_pfba"]), fraction=rng.choice([0.0, 0.5, 1.0, 1.0]),
            objective=spec, reactions=None)
    for _ in range(1 if tier == "quick" else 3):
        sub = rng.sample(rids, rng.randint(1, max(1, len(rids) - 1)))       # random order, not the model's
        add(method="pfba", api="pfba", fraction=rng.choice([0.0, 0.5, 1.0]), objective=None, reactions=sub,
            as_ids=rng.random() < 0.5)
    # all reactions, but listed in another order than model.reactions: the fluxes must follow the ids
    add(method="pfba", api="pfba", fraction=rng.choice([0.5, 1.0]), objective=None, reactions=_reorder(rids, rng),
        as_ids=rng.random() < 0.5, full=True)
    # knock-out states; "remove" = the reaction is deleted from the model (remove_reactions) instead of knocked out, so the
    # wild-type reference has one row more than model.reactions
    kos = [None]
    pool = [["reaction", r] for r in rids] + [["gene", g] for g in gids] + [["remove", r] for r in rids]
    rng.shuffle(pool)
    kos += pool[: (4 if tier == "quick" else 8)]
    for ko in kos:
        refs = ["pfba", "fba", "default"] if ko is None else [rng.choice(["pfba", "fba"]), rng.choice(["pfba", "default"])]
        if ko is not None and ko[0] == "remove":
            refs = ["pfba", "fba"]
        for ref in dict.fromkeys(refs):
            # row order of the given reference Solution: the model's, reversed or shuffled (pfba(reactions=...) /
            # get_solution(reactions=...)); resort: model.reactions itself is reversed after the reference was taken
            order = None if ref == "default" else rng.choice([None, "reversed", ["shuffled", rng.randrange(10**6)]])
            resort = ref != "default" and rng.random() < 0.15
            add(method="moma", api=rng.choice(["moma", "moma", "add_moma"]), ref=ref, ko=ko, order=order, resort=resort)
            if finite and len(rids) <= 8:
                de = rng.choice([(0.03, 1e-3)] * 3 + [(0.1, 0.01), (0.0, 0.5)])
                order = None if ref == "default" else rng.choice([None, "reversed", ["shuffled", rng.randrange(10**6)]])
                add(method="room", api=rng.choice(["room", "room", "add_room"]), linear=False, ref=ref, ko=ko,
                    delta=de[0], epsilon=de[1], order=order, resort=False)
                add(method="room", api="room", linear=True, ref=ref, ko=ko, delta=0.03, epsilon=1e-3,
                    order=order if rng.random() < 0.5 else None, resort=resort and rng.random() < 0.5)
    return cases


def _reorder(rids, rng):
    if len(rids) < 2:
        return list(rids)
    out = list(reversed(rids)) if rng.random() < 0.5 else rng.sample(rids, len(rids))
    return out if out != list(rids) else list(reversed(rids))


def _ordered(rids, order):
    if order is None:
        return list(rids)
    if order == "reversed":
        return list(reversed(rids))
    out = list(rids)
    random.Random(order[1]).shuffle(out)
    return out if out != list(rids) or len(rids) < 2 else list(reversed(rids))


NOISE_MODEL = {"id": "c09_noise0", "metabolites": [["m0", "c"], ["m1", "c"], ["m2", "c"]],
               "reactions": [["EX_m0", -10.0, 1000.0, {"m0": -1.0}, ""], ["EX_m1", -3.0, 1000.0, {"m1": -1.0}, ""],
                             ["EX_m2", -5.0, 10.0, {"m2": -1.0}, ""],
                             ["R0", -5.0, 1000.0, {"m2": -1.0, "m1": -1.0, "m0": 2.0}, "g1 and (g2 or g3)"],
                             ["R1", -10.0, 10.0, {"m2": -1.0, "m1": -1.0, "m0": 2.0}, "(g1 or g2) and (g3 or g4)"],
                             ["R2", 2.0, 2.0, {"m0": -1.0, "m2": 1.0, "m1": 1.0}, "g2"],
                             ["R3", -10.0, 10.0, {"m2": -1.0, "m0": 1.0, "m1": 1.0}, "(g1 and g2) or g3"]],
               "objective": {"EX_m2": 2.0}, "direction": "max"}


def fixed_cases():
    """seed-independent witnesses of the open class room-linear:noise-coefficient (stable ids, KNOWN_C09.json)"""
    out = []
    for ko in (None, ["gene", "g1"], ["gene", "g3"], ["reaction", "R1"]):
        tag = "none" if ko is None else ":".join(ko)
        out.append({"method": "room", "api": "room", "linear": True, "ref": "default", "ko": ko, "delta": 0.03,
                    "epsilon": 1e-3, "order": None, "resort": False, "model": NOISE_MODEL, "carries": True,
                    "witness": f"noise-fixed#0:relaxed:default-ref:ko={tag}"})
    return out


def build_cases(tier, seed):
    rng = random.Random(seed * 7919 + 13)
    n_models = 60 if tier == "quick" else 700
    cases = fixed_cases()
    for m in corner_models():
        cases += cases_for(m, rng, tier)
    made = 0
    tries = 0
    while made < n_models and tries < n_models * 20:
        tries += 1
        m = c09_model(rng)
        cs = cases_for(m, rng, tier)
        if cs:
            made += 1
            cases += cs
    return cases


# ----------------------------------------------------------------------------------------------------------------------
# one case
# ----------------------------------------------------------------------------------------------------------------------
def _objective_arg(model, spec):
    if spec is None:
        return None
    coefs = {model.reactions.get_by_id(k): v for k, v in spec["coefs"].items()}
    if spec["kind"] == "dict":
        return coefs
    expr = sum(v * r.flux_expression for r, v in coefs.items())
    return model.problem.Objective(expr, direction=spec["direction"])


def _cv(c, v):
    return sum(coef * v[rid] for rid, coef in c.items())


def check_pfba(case):
    from cobra.exceptions import OptimizationError
    from cobra.flux_analysis import pfba
    from cobra.flux_analysis.parsimonious import add_pfba
    model = U.rebuild(case["model"])
    spec = case["objective"]
    fails = []
    lp, c, d, st, opt = exact_primary(model, spec["coefs"] if spec else None, spec["direction"] if spec else None)
    if st != "optimal" or opt < 0:
        return {"failures": [], "nontrivial": False, "sig": None, "evaluations": 0}
    f = case["fraction"]
    st2, tot, bound = exact_pfba(lp, c, d, opt, f)
    arg = _objective_arg(model, spec)
    rx = case["reactions"]
    rx_arg = None
    if rx is not None:
        rx_arg = list(rx) if case.get("as_ids") else [model.reactions.get_by_id(x) for x in rx]
    sol, exc = None, None
    try:
        if case["api"] == "pfba":
            sol = pfba(model, fraction_of_optimum=f, objective=arg, reactions=rx_arg)
        else:
            with model:
                add_pfba(model, objective=arg, fraction_of_optimum=f)
                sol = model.optimize()
    except OptimizationError as e:
        exc = e
    except Exception as e:  # noqa - the code under test raised something else on a legitimate input
        return {"failures": [("pfba:exception", f"raised {e!r}")], "nontrivial": bool(case["carries"])}
    got_opt = sol is not None and sol.status == "optimal"
    if st2 != "optimal":
        if got_opt:
            fails.append(("pfba:status", f"secondary problem is {st2} (opt={float(opt)}, fraction={f}, direction {d}) "
                                         f"but pFBA reports optimal with objective_value {sol.objective_value}"))
    elif not got_opt:
        fails.append(("pfba:status", f"secondary problem has exact minimum {float(tot)} but pFBA gave "
                                     f"{'exception ' + repr(exc) if exc else 'status ' + str(sol.status)}"))
    else:
        if not oracle_lp.close(sol.objective_value, tot):
            fails.append(("pfba:objective_value", f"objective_value {sol.objective_value!r} != exact minimum total flux "
                                                  f"{float(tot)!r} (opt={float(opt)}, fraction={f}, direction {d})"))
        v = U.fluxdict(sol.fluxes)
        if rx is None or case.get("full"):
            if set(v) != set(lp.vars):
                fails.append(("pfba:subset-ids", f"fluxes for {sorted(v)} expected all reactions"))
            else:
                for p in U.flux_problems(model, v):
                    fails.append(("pfba:infeasible-flux", p))
                cv = _cv(c, v)
                s = TOL * max(1.0, abs(float(bound)))
                if (d == "max" and cv < float(bound) - s) or (d == "min" and cv > float(bound) + s):
                    fails.append(("pfba:fraction", f"c.v = {cv!r} not beyond fraction*optimum = {float(bound)!r} ({d})"))
                total = sum(abs(x) for x in v.values())
                if not oracle_lp.close(total, tot):
                    fails.append(("pfba:total", f"sum|v| = {total!r} but the exact minimum is {float(tot)!r}"))
        else:
            if sorted(v) != sorted(rx):
                fails.append(("pfba:subset-ids", f"fluxes returned for {sorted(v)} requested {sorted(rx)}"))
            else:
                st3, tot3, _ = exact_pfba(lp, c, d, opt, f, fixed=v)
                if st3 != "optimal" or not oracle_lp.close(tot3, tot):
                    fails.append(("pfba:subset-values", f"returned fluxes {v} are not part of any minimum-total distribution "
                                                        f"(with them fixed: {st3}, {None if tot3 is None else float(tot3)}; "
                                                        f"exact minimum {float(tot)})"))
    return {"failures": fails, "nontrivial": bool(case["carries"]), "exact": None if tot is None else float(tot),
            "observed": None if sol is None else sol.objective_value}


def _apply_ko(model, ko):
    if ko is None:
        return
    if ko[0] == "reaction":
        model.reactions.get_by_id(ko[1]).knock_out()
    elif ko[0] == "remove":
        model.remove_reactions([model.reactions.get_by_id(ko[1])])
    else:
        model.genes.get_by_id(ko[1]).knock_out()


def _reference(model, kind, order=None):
    """a Solution of the wild type whose rows follow `order` (None: model.reactions)"""
    from cobra.core import get_solution
    from cobra.flux_analysis import pfba
    if kind == "default":
        return None
    rids = _ordered([r.id for r in model.reactions], order)
    if kind == "pfba":
        sol = pfba(model) if order is None else pfba(model, reactions=[model.reactions.get_by_id(x) for x in rids])
    else:
        sol = model.optimize()
        if order is not None:
            sol = get_solution(model, reactions=[model.reactions.get_by_id(x) for x in rids])
    sol.fluxes = sol.fluxes.round(9)
    sol.objective_value = round(float(sol.objective_value), 9)
    return sol


def room_min_count(lp, band, extra=None):
    """smallest number of reactions that must leave their band; None if the model itself is infeasible"""
    rids = list(band)
    base = lp.copy()
    if extra:
        for coefs, lo, hi in extra:
            U.con_exact(base, coefs, lo, hi)
    if not base.feasible():
        return None
    for k in range(len(rids) + 1):
        for out in itertools.combinations(rids, k):
            t = base.copy()
            for rid in rids:
                if rid not in out:
                    U.con_exact(t, {rid: 1.0}, band[rid][0], band[rid][1])
            if t.feasible():
                return k
    return None


def room_linear_min(lp, ref, bounds, extra=None):
    t = lp.copy()
    if extra:
        for coefs, lo, hi in extra:
            U.con_exact(t, coefs, lo, hi)
    ys = []
    for rid, w in ref.items():
        lb, ub = bounds[rid]
        y = "y__" + rid
        t.var(y, 0.0, 1.0)
        ys.append(y)
        wq = U.Q(w)
        U.con_exact(t, {rid: 1.0, y: -(U.Q(ub) - wq)}, -INF, wq)    # v - y (ub - w) <= w
        U.con_exact(t, {rid: 1.0, y: -(U.Q(lb) - wq)}, wq, INF)     # v - y (lb - w) >= w
    st, val, _ = t.solve({y: 1.0 for y in ys}, "min")
    return st, val


def check_moma_room(case):
    from cobra.exceptions import OptimizationError
    from cobra.flux_analysis import moma, room
    from cobra.flux_analysis.moma import add_moma
    from cobra.flux_analysis.room import add_room
    model = U.rebuild(case["model"])
    method = case["method"]
    fails = []
    ref = _reference(model, case["ref"], case.get("order"))
    if case.get("resort"):
        model.reactions.reverse()          # the model's list order changes after the reference was taken
    sol, exc = None, None
    # the knock-out state is set on the freshly built model without an enclosing context (the analyses open their own)
    _apply_ko(model, case["ko"])
    if True:
        bounds = {r.id: (float(r.lower_bound), float(r.upper_bound)) for r in model.reactions}
        rows = U.stoich(model)
        lp, c, d = oracle_lp.fba_lp(model)
        feasible = lp.feasible()
        try:
            if method == "moma":
                if case["api"] == "moma":
                    sol = moma(model, solution=ref, linear=True)
                else:
                    with model:
                        add_moma(model, solution=ref, linear=True)
                        sol = model.optimize()
            else:
                kw = dict(solution=ref, linear=case["linear"], delta=case["delta"], epsilon=case["epsilon"])
                if case["api"] == "room":
                    sol = room(model, **kw)
                else:
                    with model:
                        add_room(model, **kw)
                        sol = model.optimize()
        except OptimizationError as e:
            exc = e
        except Exception as e:  # noqa
            if feasible:
                k0 = "moma" if method == "moma" else "room"
                return {"failures": [(f"{k0}:exception", f"raised {e!r}")], "nontrivial": bool(case["carries"])}
            exc = e
    got_opt = sol is not None and sol.status == "optimal"
    key = "moma" if method == "moma" else ("room-linear" if case["linear"] else "room")
    exact = None
    if not feasible:
        if got_opt:
            fails.append((f"{key}:status", f"knocked-out model is infeasible but {method} reports an optimal solution"))
        return {"failures": fails, "nontrivial": bool(case["carries"]), "exact": "infeasible", "observed": None}
    # the reference the documented problem refers to
    if ref is not None:
        refv = {k: x for k, x in U.fluxdict(ref.fluxes).items() if k in bounds}    # by id; a removed reaction has no term
        ref_obj = float(ref.objective_value)
    else:
        refv = None          # pFBA of the model as passed: feasible for it, so every documented minimum is 0
        stp, optp, _ = lp.solve(c, d)
        stq, totq, _ = exact_pfba(lp, c, d, optp, 1) if stp == "optimal" else (stp, None, None)
        ref_obj = None if totq is None else float(totq)     # objective_value of a pFBA solution = its total flux
        ref_cut = optp is not None and ref_obj is not None and float(optp) > ref_obj + 1e-9
    if not got_opt:
        # the documented problem is feasible whenever the model is; decide whether the undocumented cap explains it
        k = f"{key}:status"
        if method == "room" and ref_obj is not None:
            capped = lp.copy()
            U.con_exact(capped, c, -INF, U.Q(ref_obj) + Fraction(1, 10**7))
            if not capped.feasible():
                k = "room:objective-cap"
        fails.append((k, f"{method} on a feasible model gave "
                         f"{'exception ' + repr(exc) if exc else 'status ' + str(sol.status)}"))
        return {"failures": fails, "nontrivial": bool(case["carries"]), "exact": None, "observed": None}
    v = U.fluxdict(sol.fluxes)
    probs = U.flux_problems(model, v, bounds=bounds, rows=rows)
    for p in probs:
        fails.append((f"{key}:infeasible-flux", p))
    if probs and set(v) != set(bounds):
        return {"failures": fails, "nontrivial": bool(case["carries"])}
    if method == "moma":
        if refv is None:
            exact = Fraction(0)
        else:
            t = lp.copy()
            names = [U.add_abs(t, "d__" + rid, {rid: 1.0}, centre=U.Q(w)) for rid, w in refv.items()]
            _, exact, _ = t.solve({n: 1.0 for n in names}, "min")
            dist = sum(abs(v[rid] - refv[rid]) for rid in refv)
            if not oracle_lp.close(dist, exact):
                fails.append(("moma:distance", f"sum|v - ref| = {dist!r} but the exact minimum is {float(exact)!r}"))
        if not oracle_lp.close(sol.objective_value, exact):
            fails.append(("moma:objective_value", f"objective_value {sol.objective_value!r} != exact minimum distance "
                                                  f"{float(exact)!r} (reference {case['ref']}, knock-out {case['ko']})"))
    else:
        cap = None if ref_obj is None else [(c, -INF, U.Q(ref_obj))]
        if case["linear"]:
            if refv is None:
                exact, capped = Fraction(0), None
            else:
                _, exact = room_linear_min(lp, refv, bounds)
                capped = None
            # GLPK accepts reduced costs down to -1e-7; the relaxed rows have costs ~1/(ub - w) ~ 1e-3 per flux unit, so two
            # vertices whose sums differ by < 1e-7 * (flux span) are both "optimal" for the solver (observed: 2.000025 vs
            # 2).  Principled slack: dual tolerance x total span of the flux variables.
            span = sum(min(ub - lb, 2000.0) for lb, ub in bounds.values())
            if abs(sol.objective_value - float(exact)) > 1e-6 + 1e-7 * span:
                k = "room-linear:sum"
                if refv is not None and cap:
                    stc, capped = room_linear_min(lp, refv, bounds, extra=cap)
                    if stc == "optimal" and oracle_lp.close(sol.objective_value, capped):
                        k = "room:objective-cap"
                elif refv is None and cap:
                    # default reference: the cap c.v <= (pFBA total) cuts the reference itself off iff c.ref > total
                    if ref_cut:
                        k = "room:objective-cap"
                if refv is None and k == "room-linear:sum":
                    # the default reference is pfba(model) in this very state (deterministic): is one of its fluxes within
                    # rounding noise of a bound?  then add_room builds a row with a ~1e-16 coefficient (NOTES_C09.md)
                    from cobra.flux_analysis import pfba as _pfba
                    pv = U.fluxdict(_pfba(model).fluxes)
                    noisy = [rid for rid, w in pv.items() for b in bounds[rid] if 0 < abs(w - b) < 1e-9]
                    if noisy:
                        k = "room-linear:noise-coefficient"
                        if not case.get("witness"):
                            # open class (NOTES_C09 finding 2): reported from the fixed witnesses only; a seeded model
                            # that happens to hit the same degenerate reference is counted, not reported
                            return {"failures": fails, "nontrivial": bool(case["carries"]), "skipped_noise": 1,
                                    "exact": 0.0, "observed": sol.objective_value}
                fails.append((k, f"relaxed ROOM objective_value {sol.objective_value!r} != exact minimum {float(exact)!r}"
                                 f" (with the undocumented cap: {None if capped is None else float(capped)})"))
        else:
            de, ep = U.Q(case["delta"]), U.Q(case["epsilon"])
            if refv is None:
                exact = 0
                band = None
            else:
                band = {rid: (U.Q(w) - de * abs(U.Q(w)) - ep, U.Q(w) + de * abs(U.Q(w)) + ep) for rid, w in refv.items()}
                exact = room_min_count(lp, band)
            got = sol.objective_value
            if abs(got - round(got)) > 1e-4 or int(round(got)) != exact:
                k = "room:count"
                capped = None
                if band is not None and cap:
                    capped = room_min_count(lp, band, extra=cap)
                    if capped is not None and abs(got - capped) < 1e-4:
                        k = "room:objective-cap"
                elif band is None and cap:
                    if ref_cut:
                        k = "room:objective-cap"
                fails.append((k, f"ROOM objective_value {got!r} != exact minimum number of reactions outside the band "
                                 f"{exact} (with the undocumented cap: {capped}; reference {case['ref']}, "
                                 f"knock-out {case['ko']})"))
            elif band is not None:
                n_out = sum(1 for rid in band if v[rid] < float(band[rid][0]) - TOL or v[rid] > float(band[rid][1]) + TOL)
                if n_out > exact:
                    fails.append(("room:flux-count", f"{n_out} returned fluxes lie outside the band, exact minimum {exact}"))
    return {"failures": fails, "nontrivial": bool(case["carries"]), "exact": None if exact is None else float(exact),
            "observed": sol.objective_value}


def run_case(case):
    U.silence()
    res = check_pfba(case) if case["method"] == "pfba" else check_moma_room(case)
    res.setdefault("evaluations", 1)
    light = {k: v for k, v in case.items() if k not in ("model", "carries")}
    if "sig" not in res:
        res["sig"] = U.case_sig([U.model_sig(case["model"]), light])
    res["failures"] = [{"key": k, "failure": f"{case['method']} {light}: {msg}", "replay": case,
                        "witness": case.get("witness")} for k, msg in res["failures"]]
    res["sample"] = {"case": light, "model": case["model"], "exact": res.get("exact"), "observed": res.get("observed")}
    return res


def run(tier: str, seed: int) -> dict:
    t0 = time.time()
    U.silence()
    cases = build_cases(tier, seed)
    t_gen = time.time() - t0
    deadline = (55 if tier == "quick" else 840) - t_gen
    results = U.run_pool(run_case, cases, deadline=max(10, deadline), chunksize=8)
    n_models = len({U.model_sig(c["model"]) for c in cases})
    rule = ("corner models + seeded random networks (2-4 metabolites, <= 8 reactions, exchanges written either way, "
            "coefficients 1/2, bounds incl. forced/negative/infinite, GPRs) kept iff exactly feasible, bounded and optimum "
            ">= 0; cases = model x {pFBA fractions 0/.5/1, explicit objective= dict/Objective, reactions= subsets, "
            "add_pfba; linear MOMA, ROOM, relaxed ROOM x reference given(pFBA|FBA of wild type; rows in model order, reversed "
            "or shuffled; model list re-sorted afterwards)|default x knock-out none|reaction|gene|reaction removed}; distinct = distinct (model structure, method, parameters); non-trivial = the wild type "
            "carries flux at its optimum (exact pFBA total > 0)")
    bounds = {"models": n_models, "max_metabolites": 4, "max_reactions": 8, "room_enumeration": "2^n subsets, n <= 8",
              "fractions": [0, 0.5, 1], "seed": seed, "tier": tier, "cases_generated": len(cases)}
    return U.assemble(cases, results, rule, bounds, exhaustive=False, t0=t0)


def replay(payload_replay: dict):
    U.silence()
    res = run_case(payload_replay)
    if res.get("failures"):
        return "; ".join(f"[{f['key']}] {f['failure']}" for f in res["failures"])
    return None
