"""C10 — SBML export is valid and import(export(model)) is the same model (bounded stand-in driver).

(i)   id escapers: for each pair (_f_gene_rev, _f_gene), (_f_specie_rev, _f_specie), (_f_reaction_rev, _f_reaction),
      (_f_group_rev, _f_group): EXHAUSTIVE over all strings of length 1..L over the alphabet `a 1 _ - . 4 5` (L = 6 quick,
      7 thorough) plus all strings of length <= 4 over `G R M _ 6 x -` (prefix look-alikes):
      f(f_rev(id)) == id and f_rev(id) is a valid SId ([A-Za-z_][A-Za-z0-9_]*).
(ii)  whole-model round trip write_sbml_model -> read_sbml_model on the models of bcc.gen_io (families plain / min / awkward /
      above / digits / genegroup / noname / nocharge / precision) through four channels (str path, pathlib.Path, open file
      handle, SBML string) and two id modes (default f_replace, and f_replace={} on the families whose ids are SIds):
        * obs(read(write(m))) == obs(m) where obs = bcc.views.snapshot (ids, bounds, stoichiometry, gene rules as truth
          tables, genes, names, notes, annotations, formulas, charges, compartments, groups, the LP read back from GLPK:
          variables, constraints, objective, direction) + model id/name/notes/annotation + group notes/annotations;
          floats compared after rounding to 15 significant digits (`gen_io.r15`); `subsystem` is NOT compared (the statement
          does not list it; SBML has no field for it);
        * same optimum (status class and optimal value, bcc.oracle_lp.close) on the models with well-scaled data
          (`gen_io.tame`, about 60 %; the others carry 1e-07 / 123456.789 / 1e9, where GLPK's answer depends on pivoting);
        * a second round trip changes nothing (obs equality, exact);
        * validate_sbml_model on the written document: no SBML_FATAL / SBML_ERROR / SBML_SCHEMA_ERROR / COBRA_FATAL /
          COBRA_ERROR entries (libsbml's validator is the oracle for "valid").
(iii) the SBML files shipped in src/cobra/data and tests/data except the intentionally invalid fixtures (invalid0-2.xml,
      validation.xml; the two genome-scale files only in the thorough tier): read with default ids and with f_replace={} and
      compared with an
      independent ElementTree extraction of listOfReactions / fbc flux bounds (v2 parameters, v1 listOfFluxBounds, legacy
      kinetic-law LOWER_BOUND / UPPER_BOUND / OBJECTIVE_COEFFICIENT) / fbc objective: reaction ids, stoichiometry, bounds
      (absent bounds: the configured defaults, which the reader announces in a warning), objective coefficients and
      direction; exchange reactions that the reader adds (with a warning) for boundary species are allowed.  The model read
      from each file is also sent through the round trip of (ii) after `to_domain` (notes restricted to plain text,
      singleton annotation lists written as strings: the input domain of DESIGN.md C10).

(iii-b) generated third-party documents (`thirdparty_spec` / `thirdparty_text`): small models printed as SBML text in four
      dialects — L3V1 fbc-v2 strict (bounds as shared parameters, a decoy inactive objective), L3V1 fbc-v1 (listOfFluxBounds
      with greaterEqual / lessEqual / equal), L2V4 and L3V1 without fbc (kinetic-law LOWER_BOUND / UPPER_BOUND /
      OBJECTIVE_COEFFICIENT, omitted stoichiometry = 1 in Level 2, boundary species, reactions without kinetic law) — with
      prefixed, bare and escaped ids, a species listed twice on one side or on both sides, non-integer stoichiometry,
      infinite bounds and bounds beyond the defaults.  Every document is first checked with libsbml (an invalid one is
      counted and skipped); the model read in both id modes is compared with the SPECIFICATION the text was printed from.

Witness protocol: every failure carries "witness" (exact input) and "part".  FIXED, seed-independent inputs: the escaper
enumeration (strings of the digit class up to length 4; the others up to 6 / 7), the models gen_io.build(family, "fixed", i) of
FIXED_MODELS, the shipped files; witnesses `escaper(<pair>, '<id>')`, `<key>|<family>#<i>|<channel>|<id mode>`,
`<key>|file:<name>|<channel>|<id mode>`; every distinct failing witness is reported.  SEEDED inputs: gen_io.cases(tier, seed) (all
families), random escaper strings, the generated third-party documents; a member of an input class there has the witness
"random:<class>", anything else its exact input (`<key>|<family>@<seed>#<i>|...`).

Failure keys: one per root cause.  Differences are classified by `gen_io.diff_aspects` (a consequence of a reported cause is
not reported again) and named "sbml:<aspect>"; the input classes of the defects found on the unchanged tree have their own
keys (see NOTES_C10.md): sbml:id-digits-escape, sbml:bounds-above-default, sbml:group-gene-member, sbml:gene-empty-name,
sbml:charge-none, sbml:empty-reaction-invalid, sbml:no-objective-invalid.
"""
import bz2
import gzip
import io
import itertools
import os
import re
import shutil
import tempfile
import time
import warnings
from pathlib import Path

from bcc import gen_io

KNOWN_KEYS = set()
# classes decided on the INPUT (NOTES_C10.md).  Their exact witnesses come from FIXED, seed-independent inputs (the escaper
# enumeration, the models gen_io.build(family, "fixed", i) of FIXED_MODELS, the shipped files); members of a class met in the
# seeded part carry the witness "random:<class>"
INPUT_CLASS_KEYS = {"sbml:id-digits-escape", "sbml:bounds-above-default", "sbml:group-gene-member", "sbml:gene-empty-name",
                    "sbml:charge-none", "sbml:empty-reaction-invalid", "sbml:no-objective-invalid"}
FIXED_MODELS = {"digits": 10, "genegroup": 6, "noname": 6, "nocharge": 6, "emptyreaction": 4, "noobjective": 4, "above": 4,
                "boundsgrid": 3}
FIXED_DIGIT_LEN = 4      # strings of the digit class are enumerated (and listed as witnesses) up to this length
SEEDED_CAP = 2000        # distinct witnesses kept per key from the seeded part (the fixed part is never capped)

ALPHA1 = "a1_-.45"
ALPHA2 = "GRM_6x-"
PAIRS = ["gene", "specie", "reaction", "group"]
SID = re.compile(r"^[A-Za-z_][A-Za-z0-9_]*$")
# the escaping `char -> __ord__` is ambiguous exactly when the id itself brings `__<digit>` (or `_<digit>` right after the
# prefix's underscore): necessary condition for a spurious match of the reader's pattern `__(\d+)__`
DIGIT_CLASS = re.compile(r"(?:^_|__)\d")
CHANNELS = ["path", "pathlib", "handle", "string"]
ERROR_KEYS = ("SBML_FATAL", "SBML_ERROR", "SBML_SCHEMA_ERROR", "COBRA_FATAL", "COBRA_ERROR")
SKIP_ASPECTS = ("subsystem",)
REPO = Path(os.environ.get("VERIF_REPO", "/repo"))
INVALID_FIXTURES = {"invalid0.xml", "invalid1.xml", "invalid2.xml", "validation.xml"}
BIG_FILES = {"iJO1366.xml.gz", "salmonella.xml.gz"}


def _quiet():
    """silence without logging.disable(): validate_sbml_model collects the reader's warnings / errors through logging"""
    warnings.filterwarnings("ignore")
    import logging
    for nm in ("cobra", "optlang"):
        lg = logging.getLogger(nm)
        if not any(isinstance(h, logging.NullHandler) for h in lg.handlers):
            lg.addHandler(logging.NullHandler())
        lg.propagate = False


_OWNER = os.getpid()      # the process that imported the driver; forked workers inherit the value


def _tmpdir():
    return tempfile.mkdtemp(prefix=f"bcc_C10_{_OWNER}_", dir="/var/tmp")


def _sweep():
    """remove what workers that died (GLPK abort) could not remove themselves"""
    import glob
    for d in glob.glob(f"/var/tmp/bcc_C10_{_OWNER}_*"):
        shutil.rmtree(d, ignore_errors=True)


# ----------------------------------------------------------------------------------------------------------------------
# (i) escapers
# ----------------------------------------------------------------------------------------------------------------------
def check_escaper(pair, s):
    """-> failure text | None"""
    import cobra.io.sbml as S
    rev = getattr(S, f"_f_{pair}_rev")
    fwd = getattr(S, f"_f_{pair}")
    try:
        sid = rev(s)
        back = fwd(sid)
    except Exception as e:  # noqa
        return f"_f_{pair}(_f_{pair}_rev({s!r})) raised {type(e).__name__}: {e}"
    if not SID.match(sid):
        return f"_f_{pair}_rev({s!r}) = {sid!r} is not a valid SId"
    if back != s:
        return f"_f_{pair}(_f_{pair}_rev({s!r})) = _f_{pair}({sid!r}) = {back!r}"
    return None


def _escaper_key(pair, s):
    return "sbml:id-digits-escape" if DIGIT_CLASS.search(s) else f"sbml:escaper-{pair}"


def _escaper_witness(pair, s):
    return f"escaper({pair}, {s!r})"


def _unit_escapers(args):
    """exhaustive part (fixed): strings of the digit class only up to FIXED_DIGIT_LEN; every failure is reported"""
    _quiet()
    alphabet, length, first_chars = args
    n = 0
    fails, other = [], {}
    for first in first_chars:
        for rest in itertools.product(alphabet, repeat=length - 1):
            s = first + "".join(rest)
            in_class = bool(DIGIT_CLASS.search(s))
            if in_class and length > FIXED_DIGIT_LEN:
                continue
            for pair in PAIRS:
                n += 1
                f = check_escaper(pair, s)
                if f:
                    key = _escaper_key(pair, s)
                    if not in_class:
                        other[key] = other.get(key, 0) + 1
                        if other[key] > 300:         # a broken escaper fails on (almost) every string
                            continue
                    fails.append({"key": key, "witness": _escaper_witness(pair, s), "part": "fixed", "failure": f,
                                  "replay": {"kind": "escaper", "pair": pair, "id": s}})
    return {"kind": "escapers", "n": n, "fails": fails}


def _unit_escapers_random(args):
    """seeded part: random longer strings, two thirds of them from the digit class (witness "random:<class>")"""
    import random
    _quiet()
    seed, count = args
    rng = random.Random(f"esc/{seed}")
    n = 0
    fails = []
    alpha = ALPHA1 + "bZ9:/"
    for _ in range(count):
        while True:
            s = "".join(rng.choice(alpha) for _ in range(rng.randint(5, 9)))
            if bool(DIGIT_CLASS.search(s)) == (rng.random() < 0.67):
                break
        for pair in PAIRS:
            n += 1
            f = check_escaper(pair, s)
            if f:
                key = _escaper_key(pair, s)
                fails.append({"key": key, "witness": f"random:{key}" if key in INPUT_CLASS_KEYS else _escaper_witness(pair, s),
                              "part": "seeded", "failure": f, "replay": {"kind": "escaper", "pair": pair, "id": s}})
    return {"kind": "escapers", "n": n, "fails": fails}


# ----------------------------------------------------------------------------------------------------------------------
# (ii) whole-model round trip
# ----------------------------------------------------------------------------------------------------------------------
def _write(model, channel, mode, tmp, tag):
    """-> (what to hand to the reader, SBML text)"""
    import cobra
    kw = {} if mode == "default" else {"f_replace": {}}
    path = os.path.join(tmp, f"{tag}.xml")
    if channel == "path":
        cobra.io.write_sbml_model(model, path, **kw)
        return path, Path(path).read_text()
    if channel == "pathlib":
        cobra.io.write_sbml_model(model, Path(path), **kw)
        return Path(path), Path(path).read_text()
    if channel == "handle":
        with open(path, "w") as fh:
            cobra.io.write_sbml_model(model, fh, **kw)
        return "handle:" + path, Path(path).read_text()
    buf = io.StringIO()
    cobra.io.write_sbml_model(model, buf, **kw)
    return buf.getvalue(), buf.getvalue()


def _read(src, mode):
    import cobra
    kw = {} if mode == "default" else {"f_replace": {}}
    if isinstance(src, str) and src.startswith("handle:"):
        with open(src[7:], "r") as fh:
            return cobra.io.read_sbml_model(fh, **kw)
    return cobra.io.read_sbml_model(src, **kw)


def _norm(o):
    return gen_io.map_floats(o, gen_io.r15)


def _model_flags(model):
    """input classes of the defects known on the unchanged tree (decided on the INPUT, never on the outcome)"""
    import cobra
    cfg = cobra.Configuration()
    ids = [x.id for x in itertools.chain(model.reactions, model.metabolites, model.genes, model.groups)]
    return {
        "above": any(r.lower_bound > cfg.upper_bound for r in model.reactions),
        "digits": any(re.search(r"__\d+__", i) for i in ids),
        "genegroup": any(type(x).__name__ == "Gene" for g in model.groups for x in g.members),
        "emptyreaction": any(len(r.metabolites) == 0 for r in model.reactions),
        "noobjective": not any(r.objective_coefficient != 0 for r in model.reactions),
    }


def _validate_key(kind, msg, flags, read_key):
    """key of one validate_sbml_model error entry"""
    if kind in ("COBRA_FATAL", "COBRA_ERROR") and read_key is not None:
        return None                      # the reader's failure, already reported under its own key
    if flags["emptyreaction"] and ("neither reactants nor products" in msg or "<speciesReference>" in msg):
        return "sbml:empty-reaction-invalid"
    if flags["noobjective"] and kind.startswith("COBRA") and "No objective coefficients in model" in msg:
        return None                      # true of the model, not a defect of the document (and not the SBML validator's word)
    if flags["noobjective"] and ("listOfFluxObjectives" in msg or "objective" in msg.lower()):
        return "sbml:no-objective-invalid"
    return "sbml:validate"


def _exc_text(e):
    c = e.__cause__ or e
    return f"{type(c).__name__}: {str(c)[:160]}"


def _read_key(e, flags):
    c = e.__cause__ or e
    if flags["above"] and isinstance(c, ValueError) and "bound" in str(c).lower():
        return "sbml:bounds-above-default"
    if flags["genegroup"] and isinstance(c, KeyError):
        return "sbml:group-gene-member"
    if flags["digits"] and isinstance(c, (ValueError, OverflowError, KeyError)):
        return "sbml:id-digits-escape"
    return f"sbml:read-raises-{type(c).__name__}"


def _aspect_key(aspect, oid, before, after, flags):
    if aspect.endswith("-ids") and flags["digits"]:
        return "sbml:id-digits-escape"
    if aspect == "gene-name" and before == "":
        return "sbml:gene-empty-name"
    if aspect == "charge" and before is None:
        return "sbml:charge-none"
    return f"sbml:{aspect}"


def check_model(model, channels, modes, tmp, tag, idem_channel=None, validate=True, replay_base=None, case_id="?", seeded=False):
    """-> (n_checks, [failure dict]); replay_base: dict copied into every failure's replay; case_id names the input in the
    witness `<key>|<case_id>|<channel>|<id mode>`; seeded: members of an input class get the witness random:<class>"""
    import cobra
    fails = []
    n = 0
    flags = _model_flags(model)
    o0 = _norm(gen_io.obs(model))
    is_tame = gen_io.tame(model)
    opt0 = gen_io.optimum(model) if is_tame else None

    def add(key, text, channel, mode):
        rp = dict(replay_base or {})
        rp.update({"channel": channel, "mode": mode, "key": key})
        w = f"random:{key}" if (seeded and key in INPUT_CLASS_KEYS) else f"{key}|{case_id}|{channel}|{mode}"
        fails.append({"key": key, "witness": w, "part": "seeded" if seeded else "fixed",
                      "failure": f"[{channel}, f_replace={'default' if mode == 'default' else '{}'}] {text}", "replay": rp})

    for mode in modes:
        first_text = None
        read_key = None
        for channel in channels:
            n += 1
            try:
                src, text = _write(model, channel, mode, tmp, f"{tag}_{channel}_{mode}")
            except Exception as e:  # noqa
                add(f"sbml:write-raises-{type(e).__name__}", f"write_sbml_model raised {_exc_text(e)}", channel, mode)
                continue
            if first_text is None:
                first_text = text
            try:
                m1 = _read(src, mode)
            except Exception as e:  # noqa
                read_key = _read_key(e, flags)
                add(read_key, f"read_sbml_model of the written document raised {_exc_text(e)}", channel, mode)
                continue
            o1 = _norm(gen_io.obs(m1))
            for aspect, oid, before, after in gen_io.diff_aspects(o0, o1, skip=SKIP_ASPECTS):
                add(_aspect_key(aspect, oid, before, after, flags),
                    f"{aspect}{'' if oid is None else ' of ' + repr(oid)}: {before!r} -> {after!r}"[:400], channel, mode)
            if is_tame and not gen_io.diff_aspects(o0, o1, skip=SKIP_ASPECTS):
                n += 1
                opt1 = gen_io.optimum(m1)
                if not gen_io.same_optimum(opt0, opt1):
                    add("sbml:optimum", f"optimum {opt0} -> {opt1} although the observation is unchanged", channel, mode)
            if channel == (idem_channel or channels[0]):
                n += 1
                try:
                    src2, _ = _write(m1, channel, mode, tmp, f"{tag}_{channel}_{mode}_2")
                    m2 = _read(src2, mode)
                    o1x, o2x = gen_io.obs(m1), gen_io.obs(m2)
                    d = gen_io.diff_aspects(o1x, o2x)
                    for aspect, oid, before, after in d:
                        add(f"sbml:second-trip-{aspect}", f"second round trip changes {aspect}"
                            f"{'' if oid is None else ' of ' + repr(oid)}: {before!r} -> {after!r}"[:400], channel, mode)
                except Exception as e:  # noqa
                    add(f"sbml:second-trip-raises-{type((e.__cause__ or e)).__name__}",
                        f"second round trip raised {_exc_text(e)}", channel, mode)
        if validate and first_text is not None:
            n += 1
            try:
                kw = {} if mode == "default" else {"f_replace": {}}
                _, errs = cobra.io.validate_sbml_model(first_text, **kw)
                bad = {k: v for k, v in errs.items() if k in ERROR_KEYS and v}
            except Exception as e:  # noqa
                bad = {"RAISED": [_exc_text(e)]}
            finally:
                import logging
                lg = logging.getLogger("cobra.io.sbml")
                for h in list(lg.handlers):
                    lg.removeHandler(h)      # validate_sbml_model leaves its handler behind when the reader raises
                lg.propagate = True
            keys = {}
            for kind, msgs in bad.items():
                for msg in msgs:
                    k = _validate_key(kind, str(msg), flags, read_key)
                    if k is not None and k not in keys:
                        keys[k] = f"validate_sbml_model reports {kind}: {str(msg)[:300]}"
            for k, text in keys.items():
                add(k, text, "validate", mode)
    return n, fails


def _unit_models(args):
    _quiet()
    cases, tier = args
    tmp = _tmpdir()
    n = models = 0
    fails = []
    sample = None
    try:
        for j, (fam, seed, idx) in enumerate(cases):
            model = gen_io.build(fam, seed, idx)
            models += 1
            modes = ["default"] + (["none"] if gen_io.FAMILIES[fam]["sid_safe"] else [])
            fixed = seed == "fixed"
            k, f = check_model(model, CHANNELS, modes, tmp, f"{fam}_{idx}",
                               idem_channel=CHANNELS[(idx + (0 if fixed else seed)) % 4],
                               replay_base={"kind": "model", "family": fam, "seed": seed, "index": idx},
                               case_id=f"{fam}#{idx}" if fixed else f"{fam}@{seed}#{idx}", seeded=not fixed)
            n += k
            fails.extend(f)
            if sample is None and fam == "awkward":
                sample = {"family": fam, "seed": seed, "index": idx, "model": gen_io.summary(model)}
    finally:
        shutil.rmtree(tmp, ignore_errors=True)
    return {"kind": "models", "n": n, "models": models, "fails": fails, "sample": sample}


# ----------------------------------------------------------------------------------------------------------------------
# (iii) shipped files against an independent ElementTree extraction
# ----------------------------------------------------------------------------------------------------------------------
def _local(tag):
    return tag.rsplit("}", 1)[-1]


def _attr(el, name):
    for k, v in el.attrib.items():
        if _local(k) == name:
            return v
    return None


def _num(s):
    s = s.strip()
    if s.upper() == "INF":
        return float("inf")
    if s.upper() == "-INF":
        return float("-inf")
    return float(s)


def et_extract(path):
    """independent minimal reading of an SBML file -> dict"""
    import xml.etree.ElementTree as ET
    p = str(path)
    if p.endswith(".gz"):
        data = gzip.open(p, "rb").read()
    elif p.endswith(".bz2"):
        data = bz2.open(p, "rb").read()
    else:
        data = open(p, "rb").read()
    root = ET.fromstring(data)
    model = [c for c in root if _local(c.tag) == "model"][0]

    def child(el, name):
        for c in el:
            if _local(c.tag) == name:
                return c
        return None

    def children(el, name):
        return [] if el is None else [c for c in el if _local(c.tag) == name]

    params = {}
    for par in children(child(model, "listOfParameters"), "parameter"):
        if par.get("value") is not None:
            params[par.get("id")] = _num(par.get("value"))
    boundary = set()
    species = []
    for sp in children(child(model, "listOfSpecies"), "species"):
        species.append(sp.get("id"))
        if (sp.get("boundaryCondition") or "false").lower() == "true":
            boundary.add(sp.get("id"))
    has_fbc = any("fbc" in k for k in root.attrib) or b"/fbc/" in data[:2000]
    rxns = {}
    legacy_obj = {}
    for rx in children(child(model, "listOfReactions"), "reaction"):
        rid = rx.get("id")
        st = {}
        for lst, sign in (("listOfReactants", -1.0), ("listOfProducts", 1.0)):
            for sr in children(child(rx, lst), "speciesReference"):
                c = _num(sr.get("stoichiometry")) if sr.get("stoichiometry") is not None else 1.0
                st[sr.get("species")] = st.get(sr.get("species"), 0.0) + sign * c
        lb = ub = None
        lfb, ufb = _attr(rx, "lowerFluxBound"), _attr(rx, "upperFluxBound")
        if lfb is not None:
            lb = params.get(lfb)
        if ufb is not None:
            ub = params.get(ufb)
        kl = child(rx, "kineticLaw")
        if kl is not None and lfb is None and ufb is None:
            for lname in ("listOfParameters", "listOfLocalParameters"):
                for par in children(child(kl, lname), "parameter") + children(child(kl, lname), "localParameter"):
                    if par.get("id") == "LOWER_BOUND":
                        lb = _num(par.get("value"))
                    elif par.get("id") == "UPPER_BOUND":
                        ub = _num(par.get("value"))
                    elif par.get("id") == "OBJECTIVE_COEFFICIENT":
                        legacy_obj[rid] = _num(par.get("value"))
        rxns[rid] = {"stoich": {k: v for k, v in st.items()}, "lb": lb, "ub": ub}
    # fbc v1 flux bounds
    for fb in children(child(model, "listOfFluxBounds"), "fluxBound"):
        rid, op, val = _attr(fb, "reaction"), _attr(fb, "operation"), _num(_attr(fb, "value"))
        if rid in rxns:
            if op in ("greaterEqual", "equal"):
                rxns[rid]["lb"] = val
            if op in ("lessEqual", "equal"):
                rxns[rid]["ub"] = val
    objective, direction = None, None
    loo = child(model, "listOfObjectives")
    if loo is not None:
        active = _attr(loo, "activeObjective")
        for ob in children(loo, "objective"):
            if _attr(ob, "id") == active:
                direction = {"maximize": "max", "minimize": "min"}[_attr(ob, "type")]
                objective = {}
                for fo in children(child(ob, "listOfFluxObjectives"), "fluxObjective"):
                    objective[_attr(fo, "reaction")] = _num(_attr(fo, "coefficient"))
    elif not has_fbc:
        objective, direction = legacy_obj, "max"
    return {"reactions": rxns, "objective": objective, "direction": direction, "boundary": boundary, "species": species,
            "fbc": has_fbc}


def _unescape(sid, prefix):
    """independent re-statement of the documented id mapping: __NN__ -> chr(NN), then the prefix is clipped"""
    s = re.sub(r"__(\d+)__", lambda mt: chr(int(mt.group(1))), sid)
    return s[len(prefix):] if s.startswith(prefix) else s


def _note_ok(k, v):
    if not isinstance(k, str) or not isinstance(v, str):
        return False
    for x in (k, v):
        if x != x.strip() or not x or any(c in x for c in "<>&\n\r\t"):
            return False
    return ":" not in k


def to_domain(model):
    """restrict notes / annotations of a model read from a file to the input domain of the round-trip check (DESIGN.md C10):
    plain-text notes, annotations in the reader's normal form (a singleton list is written back as a plain string)"""
    objs = [model] + list(model.reactions) + list(model.metabolites) + list(model.genes) + list(model.groups)
    for o in objs:
        o.notes = {k: v for k, v in (o.notes or {}).items() if _note_ok(k, v)}
        ann = {}
        for k, v in (o.annotation or {}).items():
            if isinstance(v, list) and len(v) == 1:
                v = v[0]
            ann[k] = v
        o.annotation = ann
    # a formula that the fbc grammar rejects (salmonella.xml.gz carries 'C2970H5292N202O1896P4charge297') is written as it
    # is and makes the document invalid: outside the domain (observation, not claimed)
    for met in model.metabolites:
        if met.formula and not re.fullmatch(r"([A-Z][a-z]*[0-9]*)+", met.formula):
            met.formula = None
    return model


def check_file(path, roundtrip=True, skip_invalid=False):
    """-> (status 'checked'|'skipped: ...', n_checks, [failure dict])"""
    import cobra
    from cobra.util.solver import linear_reaction_coefficients
    import libsbml
    path = Path(path)
    name = path.name
    fails = []

    def add(key, text, detail=""):
        fails.append({"key": key, "witness": f"{key}|file:{name}|{detail}", "part": "fixed", "failure": f"{name}: {text}"[:500],
                      "replay": {"kind": "file", "file": str(path), "key": key}})
    if skip_invalid:
        # libsbml's own consistency check (units and modelling practice off, as cobra's validator does)
        doc = libsbml.readSBMLFromFile(str(path))
        doc.setConsistencyChecks(libsbml.LIBSBML_CAT_UNITS_CONSISTENCY, False)
        doc.setConsistencyChecks(libsbml.LIBSBML_CAT_MODELING_PRACTICE, False)
        doc.checkConsistency()
        nerr = sum(1 for k in range(doc.getNumErrors()) if doc.getError(k).getSeverity() >= libsbml.LIBSBML_SEV_ERROR)
        if nerr:
            return f"skipped: libsbml reports {nerr} error(s)", 0, []
    ext = et_extract(path)
    cfg = cobra.Configuration()
    n = 0
    models = {}
    for mode in ("none", "default"):
        try:
            m = cobra.io.read_sbml_model(str(path), **({} if mode == "default" else {"f_replace": {}}))
        except Exception as e:  # noqa
            add(f"sbml:file-read-raises-{type((e.__cause__ or e)).__name__}", f"read_sbml_model raised {_exc_text(e)}", mode)
            continue
        models[mode] = m
        rmap = (lambda s: s) if mode == "none" else (lambda s: _unescape(s, "R_"))
        smap = (lambda s: s) if mode == "none" else (lambda s: _unescape(s, "M_"))
        want_ids = {rmap(r) for r in ext["reactions"]}
        got_ids = {r.id for r in m.reactions}
        extra = got_ids - want_ids
        allowed_extra = {f"EX_{smap(s)}" for s in ext["boundary"]}
        n += 1
        if want_ids - got_ids or extra - allowed_extra:
            add("sbml:file-reaction-ids", f"[{mode}] reactions missing {sorted(want_ids - got_ids)[:3]} unexpected "
                                          f"{sorted(extra - allowed_extra)[:3]}", mode)
            continue
        for rid, d in ext["reactions"].items():
            r = m.reactions.get_by_id(rmap(rid))
            n += 1
            want_st = {smap(k): v for k, v in d["stoich"].items() if v != 0}
            got_st = {x.id: float(c) for x, c in r.metabolites.items() if c != 0}
            if want_st != got_st:
                add("sbml:file-stoichiometry", f"[{mode}] {rid}: file {want_st} model {got_st}", f"{mode}|{rid}")
            want_lb = cfg.lower_bound if d["lb"] is None else d["lb"]
            want_ub = cfg.upper_bound if d["ub"] is None else d["ub"]
            if (float(r.lower_bound), float(r.upper_bound)) != (want_lb, want_ub):
                add("sbml:file-bounds", f"[{mode}] {rid}: file ({want_lb}, {want_ub}) model ({r.lower_bound}, {r.upper_bound})",
                    f"{mode}|{rid}")
        if ext["objective"] is not None:
            n += 1
            want = {rmap(k): v for k, v in ext["objective"].items() if v != 0}
            got = {r.id: float(c) for r, c in linear_reaction_coefficients(m).items() if c != 0}
            if want != got:
                add("sbml:file-objective", f"[{mode}] file {want} model {got}", mode)
            if want and m.objective_direction != ext["direction"]:
                add("sbml:file-direction", f"[{mode}] file {ext['direction']} model {m.objective_direction}", mode)
    if roundtrip and "default" in models:
        tmp = _tmpdir()
        try:
            k, f = check_model(to_domain(models["default"]), ["path", "string"], ["default"], tmp, "file",
                               replay_base={"kind": "file", "file": str(path)}, case_id=f"file:{name}", seeded=False)
            n += k
            for x in f:
                x["failure"] = f"{name} (round trip of the model read from the file): " + x["failure"]
                x["key"] = x["key"].replace("sbml:", "sbml:file-rt-", 1) if x["key"].startswith("sbml:") and x["key"] not in (
                    "sbml:gene-empty-name", "sbml:charge-none", "sbml:id-digits-escape", "sbml:bounds-above-default",
                    "sbml:group-gene-member", "sbml:empty-reaction-invalid", "sbml:no-objective-invalid") else x["key"]
                x["replay"]["key"] = x["key"]
                x["witness"] = x["key"] + "|" + x["witness"].split("|", 1)[1]
            fails.extend(f)
        finally:
            shutil.rmtree(tmp, ignore_errors=True)
    return "checked", n, fails


# ----------------------------------------------------------------------------------------------------------------------
# (iii-b) generated third-party documents in four dialects; the oracle is the specification the text was printed from
# ----------------------------------------------------------------------------------------------------------------------
DIALECTS = ["fbc2", "fbc1", "legacy2", "legacy3"]
TP_VALUES = [-1000.0, 1000.0, 0.0, -10.0, 10.0, 2.5, -0.5, 999999.0, float("inf"), float("-inf"), 1500.0, 2500.0, -2500.0, 7.0]
TP_STOICH = [1.0, 1.0, 2.0, 3.0, 0.5, 0.25, 59.81, 1e-05, 4.0]


def _fmt_num(x):
    if x == float("inf"):
        return "INF"
    if x == float("-inf"):
        return "-INF"
    return repr(float(x)) if x != int(x) else str(int(x))


def thirdparty_spec(dialect, seed, index):
    """-> spec dict (JSON-able): what a third-party tool wants to say"""
    import random
    rng = random.Random(f"tp/{dialect}/{seed}/{index}")
    style = rng.choice(["prefixed", "bare", "escaped"])
    n_s, n_r = rng.randint(1, 4), rng.randint(1, 4)
    base_s = rng.sample(["glc__D_c", "atp_c", "h2o_e", "a_c", "b_c", "x1_p", "10fthf_c", "pi_c"], n_s)
    base_r = rng.sample(["PFK", "EX_glc_e", "ATPM", "r1", "r2", "Biomass_core", "2AGPEAT120", "t_x"], n_r)
    if style == "prefixed":
        sids, rids = ["M_" + x for x in base_s], ["R_" + x for x in base_r]
    elif style == "bare":
        sids, rids = list(base_s), ["rx_" + x if x[0].isdigit() else x for x in base_r]
        sids = ["s_" + x if x[0].isdigit() else x for x in sids]
    else:
        sids = ["M_" + x.replace("__", "__95____95__", 0) + rng.choice(["", "__45__L", "__40__e__41__"]) for x in base_s]
        rids = ["R_" + x + rng.choice(["", "__46__1", "__91__c__93__"]) for x in base_r]
    legacy = dialect.startswith("legacy")
    species = [{"id": sid, "compartment": rng.choice(["c", "e"]),
                "boundary": bool(legacy and rng.random() < 0.2)} for sid in sids]
    reactions = []
    for rid in rids:
        k = rng.randint(1, min(3, n_s))
        parts = rng.sample(sids, k)
        reactants, products = [], []
        for sp in parts:
            (reactants if rng.random() < 0.5 else products).append([sp, rng.choice(TP_STOICH)])
        if rng.random() < 0.25:                       # the same species listed twice on one side
            side = reactants if reactants else products
            side.append([side[0][0], rng.choice(TP_STOICH)])
        if rng.random() < 0.15 and reactants:          # a species on both sides (net coefficient)
            products.append([reactants[0][0], rng.choice([0.5, 2.0, 5.0])])
        if dialect == "legacy2":
            for side in (reactants, products):
                for ref in side:
                    if ref[1] == 1.0 and rng.random() < 0.5:
                        ref[1] = None                  # attribute omitted: the Level 2 default is 1
        while True:
            lb, ub = rng.choice(TP_VALUES), rng.choice(TP_VALUES)
            if lb <= ub and lb != float("inf") and ub != float("-inf"):
                break
        if dialect == "legacy2" and rng.random() < 0.15:
            lb, ub = None, None                        # no kinetic law at all: the reader announces the defaults
        reactions.append({"id": rid, "reactants": reactants, "products": products, "lb": lb, "ub": ub,
                          "obj": rng.choice([0.0, 0.0, 0.0, 1.0, -1.0, 2.5])})
    if not any(r["obj"] for r in reactions):
        reactions[rng.randrange(n_r)]["obj"] = 1.0
    if legacy:
        for r in reactions:
            if r["lb"] is None:
                r["obj"] = 0.0
        if not any(r["obj"] for r in reactions):
            r = reactions[0]
            r["lb"], r["ub"], r["obj"] = -5.0, 5.0, 1.0
    return {"dialect": dialect, "species": species, "reactions": reactions,
            "direction": "max" if legacy else rng.choice(["max", "min"]),
            "decoy_objective": (not legacy) and rng.random() < 0.5}


def thirdparty_text(spec):
    d = spec["dialect"]
    L = []
    A = L.append
    A('<?xml version="1.0" encoding="UTF-8"?>')
    if d == "fbc2":
        A('<sbml xmlns="http://www.sbml.org/sbml/level3/version1/core" xmlns:fbc="http://www.sbml.org/sbml/level3/version1/fbc/version2" '
          'level="3" version="1" fbc:required="false">')
        A('<model id="tp" fbc:strict="true">')
    elif d == "fbc1":
        A('<sbml xmlns="http://www.sbml.org/sbml/level3/version1/core" xmlns:fbc="http://www.sbml.org/sbml/level3/version1/fbc/version1" '
          'level="3" version="1" fbc:required="false">')
        A('<model id="tp">')
    elif d == "legacy3":
        A('<sbml xmlns="http://www.sbml.org/sbml/level3/version1/core" level="3" version="1">')
        A('<model id="tp">')
    else:
        A('<sbml xmlns="http://www.sbml.org/sbml/level2/version4" level="2" version="4">')
        A('<model id="tp">')
    l3 = d != "legacy2"
    A("<listOfCompartments>")
    for c in sorted({s["compartment"] for s in spec["species"]}):
        A(f'<compartment id="{c}"' + (' constant="true"' if l3 else "") + "/>")
    A("</listOfCompartments>")
    A("<listOfSpecies>")
    for s in spec["species"]:
        b = "true" if s["boundary"] else "false"
        if l3:
            A(f'<species id="{s["id"]}" compartment="{s["compartment"]}" hasOnlySubstanceUnits="false" boundaryCondition="{b}" '
              f'constant="false"/>')
        else:
            A(f'<species id="{s["id"]}" compartment="{s["compartment"]}" boundaryCondition="{b}"/>')
    A("</listOfSpecies>")
    if d == "fbc2":
        # shared parameters for equal values, as third-party exporters do
        vals = []
        for r in spec["reactions"]:
            for v in (r["lb"], r["ub"]):
                if v not in vals:
                    vals.append(v)
        A("<listOfParameters>")
        for i, v in enumerate(vals):
            A(f'<parameter id="bnd_{i}" value="{_fmt_num(v)}" constant="true"/>')
        A("</listOfParameters>")
    A("<listOfReactions>")
    for r in spec["reactions"]:
        attrs = f'id="{r["id"]}" reversible="{"true" if (r["lb"] is None or r["lb"] < 0) else "false"}"'
        if l3:
            attrs += ' fast="false"'
        if d == "fbc2":
            attrs += f' fbc:lowerFluxBound="bnd_{vals.index(r["lb"])}" fbc:upperFluxBound="bnd_{vals.index(r["ub"])}"'
        A(f"<reaction {attrs}>")
        for tag, side in (("listOfReactants", r["reactants"]), ("listOfProducts", r["products"])):
            if side:
                A(f"<{tag}>")
                for sp, st in side:
                    a = f'species="{sp}"'
                    if st is not None:
                        a += f' stoichiometry="{_fmt_num(st)}"'
                    if l3:
                        a += ' constant="true"'
                    A(f"<speciesReference {a}/>")
                A(f"</{tag}>")
        if d.startswith("legacy") and r["lb"] is not None:
            A('<kineticLaw><math xmlns="http://www.w3.org/1998/Math/MathML"><ci> FLUX_VALUE </ci></math>')
            lst, par = ("listOfLocalParameters", "localParameter") if l3 else ("listOfParameters", "parameter")
            A(f"<{lst}>")
            for pid, v in (("LOWER_BOUND", r["lb"]), ("UPPER_BOUND", r["ub"]), ("OBJECTIVE_COEFFICIENT", r["obj"]),
                           ("FLUX_VALUE", 0.0)):
                A(f'<{par} id="{pid}" value="{_fmt_num(v)}"/>')
            A(f"</{lst}></kineticLaw>")
        A("</reaction>")
    A("</listOfReactions>")
    if d == "fbc1":
        A("<fbc:listOfFluxBounds>")
        k = 0
        for r in spec["reactions"]:
            if r["lb"] == r["ub"]:
                A(f'<fbc:fluxBound fbc:id="fb{k}" fbc:reaction="{r["id"]}" fbc:operation="equal" fbc:value="{_fmt_num(r["lb"])}"/>')
                k += 1
            else:
                A(f'<fbc:fluxBound fbc:id="fb{k}" fbc:reaction="{r["id"]}" fbc:operation="greaterEqual" fbc:value="{_fmt_num(r["lb"])}"/>')
                A(f'<fbc:fluxBound fbc:id="fb{k + 1}" fbc:reaction="{r["id"]}" fbc:operation="lessEqual" fbc:value="{_fmt_num(r["ub"])}"/>')
                k += 2
        A("</fbc:listOfFluxBounds>")
    if d in ("fbc1", "fbc2"):
        A('<fbc:listOfObjectives fbc:activeObjective="the_obj">')
        if spec["decoy_objective"]:
            other = "minimize" if spec["direction"] == "max" else "maximize"
            A(f'<fbc:objective fbc:id="decoy" fbc:type="{other}"><fbc:listOfFluxObjectives>')
            A(f'<fbc:fluxObjective fbc:reaction="{spec["reactions"][-1]["id"]}" fbc:coefficient="7"/>')
            A("</fbc:listOfFluxObjectives></fbc:objective>")
        A(f'<fbc:objective fbc:id="the_obj" fbc:type="{"maximize" if spec["direction"] == "max" else "minimize"}">')
        A("<fbc:listOfFluxObjectives>")
        for r in spec["reactions"]:
            if r["obj"]:
                A(f'<fbc:fluxObjective fbc:reaction="{r["id"]}" fbc:coefficient="{_fmt_num(r["obj"])}"/>')
        A("</fbc:listOfFluxObjectives></fbc:objective></fbc:listOfObjectives>")
    A("</model></sbml>")
    return "\n".join(L)


def check_thirdparty(spec, text=None):
    """-> (status, n_checks, [(key, failure)])"""
    import cobra
    import libsbml
    from cobra.util.solver import linear_reaction_coefficients
    text = text or thirdparty_text(spec)
    doc = libsbml.readSBMLFromString(text)
    doc.setConsistencyChecks(libsbml.LIBSBML_CAT_UNITS_CONSISTENCY, False)
    doc.setConsistencyChecks(libsbml.LIBSBML_CAT_MODELING_PRACTICE, False)
    doc.checkConsistency()
    errs = [doc.getError(k).getShortMessage() for k in range(doc.getNumErrors())
            if doc.getError(k).getSeverity() >= libsbml.LIBSBML_SEV_ERROR]
    if errs:
        return f"invalid: {errs[0]}", 0, []          # not a valid third-party file: outside the statement
    cfg = cobra.Configuration()
    fails, n = [], 0
    for mode in ("default", "none"):
        rmap = (lambda s_: _unescape(s_, "R_")) if mode == "default" else (lambda s_: s_)
        smap = (lambda s_: _unescape(s_, "M_")) if mode == "default" else (lambda s_: s_)
        try:
            m = cobra.io.read_sbml_model(text, **({} if mode == "default" else {"f_replace": {}}))
        except Exception as e:  # noqa
            fails.append((f"sbml:thirdparty-read-raises-{type((e.__cause__ or e)).__name__}", f"[{mode}] read_sbml_model raised {_exc_text(e)}"))
            continue
        n += 1
        want_ids = {rmap(r["id"]) for r in spec["reactions"]}
        allowed = {f"EX_{smap(s_['id'])}" for s_ in spec["species"] if s_["boundary"]}
        got_ids = {r.id for r in m.reactions}
        if want_ids - got_ids or (got_ids - want_ids) - allowed:
            fails.append(("sbml:thirdparty-reaction-ids", f"[{mode}] reactions {sorted(got_ids)} expected {sorted(want_ids)} (+ {sorted(allowed)})"))
            continue
        for r in spec["reactions"]:
            n += 1
            got = m.reactions.get_by_id(rmap(r["id"]))
            want_st = {}
            for side, sign in ((r["reactants"], -1.0), (r["products"], 1.0)):
                for sp, st in side:
                    want_st[smap(sp)] = want_st.get(smap(sp), 0.0) + sign * (1.0 if st is None else st)
            want_st = {k: v for k, v in want_st.items() if v != 0}
            got_st = {x.id: float(c) for x, c in got.metabolites.items() if c != 0}
            if set(want_st) != set(got_st) or any(gen_io.r15(want_st[k]) != gen_io.r15(got_st[k]) for k in want_st):
                fails.append(("sbml:thirdparty-stoichiometry", f"[{mode}] {r['id']}: document says {want_st}, model has {got_st}"))
            want_b = (cfg.lower_bound if r["lb"] is None else r["lb"], cfg.upper_bound if r["ub"] is None else r["ub"])
            if (float(got.lower_bound), float(got.upper_bound)) != want_b:
                fails.append(("sbml:thirdparty-bounds", f"[{mode}] {r['id']}: document says {want_b}, model has {got.bounds}"))
        n += 1
        want_obj = {rmap(r["id"]): r["obj"] for r in spec["reactions"] if r["obj"]}
        got_obj = {r.id: float(c) for r, c in linear_reaction_coefficients(m).items() if c != 0}
        if want_obj != got_obj:
            fails.append(("sbml:thirdparty-objective", f"[{mode}] document says {want_obj}, model has {got_obj}"))
        if m.objective_direction != spec["direction"]:
            fails.append(("sbml:thirdparty-direction", f"[{mode}] document says {spec['direction']}, model has {m.objective_direction}"))
    return "checked", n, fails


def _unit_thirdparty(args):
    _quiet()
    cases, = args
    n = checked = 0
    invalid = {}
    fails = []
    for dialect, seed, idx in cases:
        spec = thirdparty_spec(dialect, seed, idx)
        try:
            status, k, f = check_thirdparty(spec)
        except Exception as e:  # noqa
            status, k, f = "checked", 0, [(f"sbml:thirdparty-check-raises-{type(e).__name__}", f"checking raised {_exc_text(e)}")]
        n += k
        if status == "checked":
            checked += 1
        else:
            invalid[f"{dialect}/{seed}/{idx}"] = status
        for key, msg in f:
            fails.append({"key": key, "witness": f"{key}|thirdparty:{dialect}@{seed}#{idx}|{msg.split(']')[0][1:]}", "part": "seeded",
                          "failure": f"generated {dialect} document {idx}: {msg}"[:500],
                          "replay": {"kind": "thirdparty", "dialect": dialect, "seed": seed, "index": idx, "key": key}})
    return {"kind": "thirdparty", "n": n, "checked": checked, "invalid": invalid, "fails": fails}


def shipped_files(tier):
    out = []
    for d in (REPO / "src" / "cobra" / "data", REPO / "tests" / "data"):
        if d.is_dir():
            for p in sorted(d.iterdir()):
                if re.search(r"\.xml(\.gz|\.bz2)?$", p.name) and p.name not in INVALID_FIXTURES:
                    if tier == "quick" and p.name in BIG_FILES:
                        continue
                    out.append(p)
    return out


def _unit_file(args):
    _quiet()
    path, = args
    try:
        status, n, fails = check_file(path)
    except Exception as e:  # noqa
        status, n = "checked", 0
        key = f"sbml:file-check-raises-{type(e).__name__}"
        fails = [{"key": key, "witness": f"{key}|file:{Path(path).name}|", "part": "fixed",
                  "failure": f"{Path(path).name}: checking raised {_exc_text(e)}", "replay": {"kind": "file", "file": str(path)}}]
    return {"kind": "file", "file": Path(path).name, "status": status, "n": n, "fails": fails}


# ----------------------------------------------------------------------------------------------------------------------
def _dispatch(ka):
    kind, a = ka
    return {"escapers": _unit_escapers, "escapers_random": _unit_escapers_random, "models": _unit_models, "file": _unit_file,
            "thirdparty": _unit_thirdparty}[kind](a)


def _chunks(lst, n):
    return [lst[i:i + n] for i in range(0, len(lst), n)]


def _run_all(units):
    """every unit in its own forked process (gen_io.run_units); a unit whose process dies (GLPK aborts on control characters
    in names) is split into single cases and re-run, the culprit becomes a failure -> (results, crash failures)"""
    res = gen_io.run_units(_dispatch, units)
    out, retry, crashes = [], [], []
    for (kind, a), r in zip(units, res):
        if not isinstance(r, gen_io.Crashed):
            out.append(r)
        elif kind == "models" and len(a[0]) > 1:
            retry.extend(("models", ([c], a[1])) for c in a[0])
        else:
            retry.append((kind, a))
    if retry:
        for (kind, a), r in zip(retry, gen_io.run_units(_dispatch, retry)):
            if not isinstance(r, gen_io.Crashed):
                out.append(r)
                continue
            if kind == "models":
                fam, seed, idx = a[0][0]
                key = "sbml:id-digits-escape" if fam == "digits" else "sbml:process-aborted"
                fixed = seed == "fixed"
                w = (f"random:{key}" if (not fixed and key in INPUT_CLASS_KEYS)
                     else f"{key}|{fam}#{idx}|process|" if fixed else f"{key}|{fam}@{seed}#{idx}|process|")
                crashes.append({"key": key, "witness": w, "part": "fixed" if fixed else "seeded",
                                "failure": f"the process checking model ({fam}, {seed}, {idx}) died with exit code "
                                           f"{r.exitcode} (GLPK aborts on names with control characters)",
                                "replay": {"kind": "model", "family": fam, "seed": seed, "index": idx, "key": key}})
            else:
                crashes.append({"key": "sbml:process-aborted", "witness": f"sbml:process-aborted|{kind}:{a!r:.120}", "part": "fixed",
                                "failure": f"the process checking {kind} {a!r:.200} died with exit code {r.exitcode}",
                                "replay": {"kind": kind, "file": a[0] if kind == "file" else None, "key": "sbml:process-aborted"}})
    return out, crashes


def run(tier: str, seed: int) -> dict:
    import random
    import cobra.io.sbml  # noqa: imported before forking, otherwise every unit's process pays the import again
    _quiet()
    t0 = time.time()
    thorough = tier == "thorough"
    L = 7 if thorough else 6
    units = []
    for ln in range(1, L + 1):
        if ln <= 4:
            units.append(("escapers", (ALPHA1, ln, list(ALPHA1))))
        else:
            units.extend(("escapers", (ALPHA1, ln, [c])) for c in ALPHA1)
    for ln in range(1, 5):
        units.append(("escapers", (ALPHA2, ln, list(ALPHA2))))
    units.append(("escapers_random", (seed, 6000 if thorough else 1500)))
    fixed_cases = [(fam, "fixed", i) for fam, k in FIXED_MODELS.items() for i in range(k)]
    units += [("models", (c, tier)) for c in _chunks(fixed_cases, 5)]
    cases = gen_io.cases(tier, seed)
    random.Random(seed).shuffle(cases)
    units += [("models", (c, tier)) for c in _chunks(cases, 6)]
    n_tp = 1500 if thorough else 150
    tp = [(d, seed, i) for d in DIALECTS for i in range(n_tp)]
    units += [("thirdparty", (c,)) for c in _chunks(tp, 50)]
    files = shipped_files(tier)
    units = [("file", (str(p),)) for p in files] + units          # the big files first
    res, crashes = _run_all(units)
    _sweep()
    counts = {"escaper_checks": 0, "models": 0, "model_checks": 0, "file_checks": 0, "files_checked": [], "files_skipped": {},
              "thirdparty_documents": 0, "thirdparty_checks": 0, "thirdparty_invalid": {}}
    fails, samples = [], []
    fails.extend(crashes)
    for r in res:
        fails.extend(r["fails"])
        if r["kind"] == "escapers":
            counts["escaper_checks"] += r["n"]
        elif r["kind"] == "models":
            counts["models"] += r["models"]
            counts["model_checks"] += r["n"]
            if r["sample"] and len(samples) < 2:
                samples.append(r["sample"])
        elif r["kind"] == "thirdparty":
            counts["thirdparty_documents"] += r["checked"]
            counts["thirdparty_checks"] += r["n"]
            counts["thirdparty_invalid"].update(r["invalid"])
        else:
            counts["file_checks"] += r["n"]
            if r["status"] == "checked":
                counts["files_checked"].append(r["file"])
            else:
                counts["files_skipped"][r["file"]] = r["status"]
    counts["files_checked"].sort()
    samples.sort(key=lambda s: (s["family"], s["index"]))
    # one failure per distinct witness; the fixed part is reported completely, the seeded part up to SEEDED_CAP per key
    per = {}
    for f in fails:
        per[f["key"]] = per.get(f["key"], 0) + 1
    fails.sort(key=lambda f: (f["key"], f["part"] != "fixed", len(f["witness"]), f["witness"], str(f["replay"])))
    kept, seen, n_seeded = [], set(), {}
    for f in fails:
        if f["witness"] in seen:
            continue
        if f["part"] != "fixed":
            n_seeded[f["key"]] = n_seeded.get(f["key"], 0) + 1
            if n_seeded[f["key"]] > SEEDED_CAP:
                continue
        seen.add(f["witness"])
        kept.append(f)
    return {
        "evaluations": counts["escaper_checks"] + counts["model_checks"] + counts["file_checks"] + counts["thirdparty_checks"],
        "distinct_nontrivial": counts["escaper_checks"] + counts["models"] + len(counts["files_checked"]) + counts["thirdparty_documents"],
        "rule": "escapers: every (string, escaper pair); models: every generated model (distinct by (family, seed, index); each "
                "goes through 4 channels x 1-2 id modes, compared, re-tripped once per mode, validated once per mode, optimised); "
                "files: every shipped SBML file except the invalid fixtures, each reaction / objective compared with the ElementTree "
                "extraction in two id modes and round-tripped; generated third-party documents (4 dialects): every document that "
                "libsbml accepts, read in two id modes and compared with its specification",
        "bounds": {"escaper_alphabets": [ALPHA1, ALPHA2], "escaper_max_len": [L, 4], "families": {k: sum(1 for c in cases if c[0] == k)
                                                                                               for k in gen_io.FAMILIES},
                   "fixed_models": FIXED_MODELS, "fixed_digit_class_max_len": FIXED_DIGIT_LEN,
                   "random_escaper_strings": 6000 if thorough else 1500, "thirdparty_dialects": DIALECTS, "thirdparty_documents_per_dialect": n_tp, "channels": CHANNELS, "id_modes": ["default", "f_replace={} (SId-safe families)"],
                   "max_metabolites": 4, "max_internal_reactions": 5, "failures_total": sum(per.values()),
                   "failures_per_key": per, "wall_s": round(time.time() - t0, 1)},
        "counts": counts,
        "exhaustive": False,
        "samples": samples[:2] + [{"escaper": "reaction", "id": "a-1.5", "sbml_id": "R_a__45__1__46__5"}],
        "failures": kept,
    }


def _replay_inner(p):
    _quiet()
    if p["kind"] == "escaper":
        return check_escaper(p["pair"], p["id"])
    if p["kind"] == "model":
        model = gen_io.build(p["family"], p["seed"], p["index"])
        tmp = _tmpdir()
        try:
            _, fails = check_model(model, [p.get("channel", "string")] if p.get("channel") in CHANNELS else CHANNELS,
                                   [p["mode"]] if p.get("mode") else ["default"], tmp, "replay", replay_base={})
        finally:
            shutil.rmtree(tmp, ignore_errors=True)
        hit = [f for f in fails if f["key"] == p.get("key")] or fails
        return hit[0]["failure"] if hit else None
    if p["kind"] == "file":
        _, _, fails = check_file(p["file"])
        hit = [f for f in fails if f["key"] == p.get("key")] or fails
        return hit[0]["failure"] if hit else None
    if p["kind"] == "thirdparty":
        _, _, fails = check_thirdparty(thirdparty_spec(p["dialect"], p["seed"], p["index"]))
        hit = [f for f in fails if f[0] == p.get("key")] or fails
        return hit[0][1] if hit else None
    raise ValueError(f"unknown replay kind {p['kind']!r}")


def replay(payload_replay: dict):
    """runs in a forked child: a replayed case may abort the process (see _run_all)"""
    r = gen_io.run_units(_replay_inner, [payload_replay], nproc=1)[0]
    _sweep()
    if isinstance(r, gen_io.Crashed):
        return f"the checking process died with exit code {r.exitcode}"
    return r
