"""C12 (bounded tier) - a copy is equivalent to its original and shares nothing with it.

Parts
  A  Model.copy() / copy.deepcopy / pickle round trip on generated, decorated models (notes + annotations with nested
     values on every object, two groups with reaction / metabolite / gene / group members, a user variable and two user
     constraints added through add_cons_vars, compartment names, non-default tolerance, knocked-out gene), copied with and
     without a context open (pending bound / knock-out / objective / added-reaction changes):
       A1 flat observation (content, raw GLPK problem, tolerances, reported objective, optimum) of copy == original
       A2 reactions / metabolites / genes / groups are distinct objects, pointers and cross-references inside the copy
       A3 ownership walk: no mutable container and no cobra object reachable from the copy is reachable from the original
       A4 every single edit of the catalogue and seeded depth-2 sequences applied to one of the two models: the flat
          observation of the OTHER model is unchanged; with a context open at copy time the original's context is then
          closed and the copy must stay as it was (and vice versa nothing of the copy's edits is undone)
  B  Reaction.copy, Metabolite.copy, r1 + r2, sum([r1, r2]) (radd), r1 - r2, r * k on reactions inside a model (inside and
     outside a context) and on model-less reactions (sharing Metabolite objects / with private Metabolite objects): result
     detached (no model, nothing reachable from the result is reachable from an operand), operands - including their
     metabolites, genes and model - unchanged, and later edits of either side do not show on the other.

A failure key is derived from WHERE the difference shows (class.field), not from the edit, so a depth-2 sequence hitting
a known defect and a new one yields two different keys.
"""
import copy as _copy
import multiprocessing as mp
import pickle
import random
import time

from .. import gen, views
from ..c12_common import quiet, canon, flat_obs, diff_obs, fmt_diff, decorate, sample_meta, run_tasks, collect_failures

KNOWN_KEYS = set()

KINDS = ("model.copy", "deepcopy", "pickle")


def _do_copy(kind, m):
    if kind == "model.copy":
        return m.copy()
    if kind == "deepcopy":
        return _copy.deepcopy(m)
    return pickle.loads(pickle.dumps(m))


# ------------------------------------------------------------------------------------------------ models
def build(mseed, ctx):
    """-> model (with a context entered and pending changes when ctx)"""
    quiet()
    rng = random.Random(f"C12-model-{mseed}")
    m = gen.random_model(rng, n_mets=rng.randint(2, 4), n_rxns=rng.randint(2, 5),
                         bounds=gen.BOUNDS if rng.random() < 0.5 else gen.SAFE_BOUNDS, with_groups=True)
    decorate(m, rng, tolerance=[None, 1e-8, None][mseed % 3], knock=(mseed % 4 == 1))
    if ctx:
        m.__enter__()
        r = m.reactions[rng.randrange(len(m.reactions))]
        r.bounds = (-7.0, 7.0)
        m.genes[0].knock_out()
        m.objective = m.reactions[0]
        m.objective_direction = "min"
        m.add_boundary(m.metabolites[-1], type="demand")
    return m


# ------------------------------------------------------------------------------------------------ ownership walk
def walk(root, skip_attrs=("_solver", "_contexts")):
    """-> (containers {id: (obj, label)}, cobra objects {id: (obj, label)}) reachable from root.
    label = (class of the owning cobra object, attribute, nested?)"""
    import ast
    from cobra.core.object import Object
    conts, cobjs = {}, {}
    stack = [(root, None)]
    seen = set()

    def push_value(v, label, depth):
        stack.append((v, (label[0], label[1], depth)))

    while stack:
        v, label = stack.pop()
        if v is None or isinstance(v, (str, bytes, int, float, complex, bool)):
            continue
        if id(v) in seen:
            continue
        if isinstance(v, Object):
            seen.add(id(v))
            cobjs[id(v)] = (v, label)
            cls = type(v).__name__.lower()
            for attr, val in v.__dict__.items():
                if attr in skip_attrs:
                    continue
                stack.append((val, (cls, attr, 0)))
            continue
        if label is None:
            label = ("?", "?", 0)
        if isinstance(v, dict):
            seen.add(id(v))
            conts[id(v)] = (v, label)
            for k, x in v.items():
                push_value(k, label, label[2] + 1)
                push_value(x, label, label[2] + 1)
        elif isinstance(v, (list, set, bytearray)):
            seen.add(id(v))
            conts[id(v)] = (v, label)
            for x in v:
                push_value(x, label, label[2] + 1)
        elif isinstance(v, (tuple, frozenset)):
            seen.add(id(v))
            for x in v:
                push_value(x, label, label[2])
        elif isinstance(v, ast.AST):
            fields = [getattr(v, f, None) for f in v._fields]
            extra = [x for k, x in getattr(v, "__dict__", {}).items() if k not in v._fields]
            if not v._fields and not extra:
                continue  # Load / And / Or markers: no state
            seen.add(id(v))
            conts[id(v)] = (v, label)
            for x in fields + extra:
                push_value(x, label, label[2] + 1)
        elif hasattr(v, "__dict__") and not isinstance(v, type) and not callable(v):
            seen.add(id(v))
            conts[id(v)] = (v, label)
            for x in v.__dict__.values():
                push_value(x, label, label[2] + 1)
    return conts, cobjs


def shared(a_root, b_root):
    """labels (seen from a) of mutable containers / cobra objects reachable from both roots"""
    ca, oa = walk(a_root)
    cb, ob = walk(b_root)
    out = []
    for i in ca:
        if i in cb:
            out.append(("container",) + ca[i][1])
    for i in oa:
        if i in ob:
            lab = oa[i][1] or ("?", "?", 0)
            out.append(("object:" + type(oa[i][0]).__name__,) + lab)
    return sorted(set(out))


def _share_key(prefix, lab):
    what, cls, attr, depth = lab
    a = attr.lstrip("_")
    if what == "container" and a in ("notes", "annotation"):
        return f"{prefix}:shares-{a}:{cls}"
    if what == "container" and a == "compartments":
        return f"{prefix}:shares-compartments:model"
    if what == "container":
        return f"{prefix}:shares-{attr}:{cls}"
    return f"{prefix}:references-original:{cls}.{attr}"


# ------------------------------------------------------------------------------------------------ edits
def _pick(dl, rng):
    return dl[rng.randrange(len(dl))] if len(dl) else None


def _target(model, cls, rng):
    if cls == "model":
        return model
    return _pick({"reaction": model.reactions, "metabolite": model.metabolites, "gene": model.genes,
                  "group": model.groups}[cls], rng)


def _meta_edit(what):
    def f_notes_set(o): o.notes["added"] = "v"
    def f_notes_nested(o): o.notes["nested"]["k"].append(99)
    def f_notes_deep(o): o.notes["nested"]["d"]["deep"] = "changed"
    def f_notes_del(o): del o.notes["text"]
    def f_annotation_set(o): o.annotation["added"] = "v"
    def f_annotation_nested(o): o.annotation["kegg"].append("K9")
    def f_annotation_deep(o): o.annotation["refs"][0][1] = "changed"
    return locals()["f_" + what]


META = ("notes_set", "notes_nested", "notes_deep", "notes_del", "annotation_set", "annotation_nested", "annotation_deep")
CLASSES = ("model", "reaction", "metabolite", "gene", "group")


def _edits():
    import cobra
    from cobra.core import Group, GPR
    E = {}

    def reg(f):
        E[f.__name__[2:]] = f
        return f

    @reg
    def e_bounds(m, g): _pick(m.reactions, g).bounds = g.choice(gen.BOUNDS)
    @reg
    def e_lower_bound(m, g):
        r = _pick(m.reactions, g); r.lower_bound = min(r.upper_bound, g.choice([-20.0, -1.0, 0.0, 1.0]))
    @reg
    def e_upper_bound(m, g):
        r = _pick(m.reactions, g); r.upper_bound = max(r.lower_bound, g.choice([20.0, 1.0, 0.0, 33.0]))
    @reg
    def e_add_met_existing(m, g): _pick(m.reactions, g).add_metabolites({_pick(m.metabolites, g): 3.0})
    @reg
    def e_add_met_new(m, g): _pick(m.reactions, g).add_metabolites({cobra.Metabolite("new_c", compartment="c"): 1.0})
    @reg
    def e_add_met_str(m, g): _pick(m.reactions, g).add_metabolites({m.metabolites[0].id: 2.0})
    @reg
    def e_set_coef(m, g):
        r = _pick(m.reactions, g); met = sorted(r.metabolites, key=lambda x: x.id)[0]
        r.add_metabolites({met: 5.0}, combine=False)
    @reg
    def e_sub_met(m, g):
        r = _pick(m.reactions, g); met = sorted(r.metabolites, key=lambda x: x.id)[0]
        r.subtract_metabolites({met: r.metabolites[met]})
    @reg
    def e_imul(m, g):
        r = _pick(m.reactions, g); r *= g.choice([-2, 3])
    @reg
    def e_iadd(m, g):
        r = m.reactions[0]; r += m.reactions[-1]
    @reg
    def e_isub(m, g):
        r = m.reactions[-1]; r -= m.reactions[0]
    @reg
    def e_gpr(m, g): _pick(m.reactions, g).gene_reaction_rule = "gX and g1"
    @reg
    def e_gpr_clear(m, g):
        rs = [r for r in m.reactions if r.gene_reaction_rule] or list(m.reactions)
        rs[0].gene_reaction_rule = ""
    @reg
    def e_gpr_object(m, g): _pick(m.reactions, g).gpr = GPR.from_string("g2 or gY")
    @reg
    def e_gene_knock_out(m, g): _pick(m.genes, g).knock_out()
    @reg
    def e_gene_functional(m, g): _pick(m.genes, g).functional = False
    @reg
    def e_rename_genes(m, g):
        from cobra.manipulation.modify import rename_genes
        rename_genes(m, {_pick(m.genes, g).id: "gZ"})
    @reg
    def e_remove_genes(m, g):
        from cobra.manipulation.delete import remove_genes
        remove_genes(m, [_pick(m.genes, g)], remove_reactions=g.random() < 0.5)
    @reg
    def e_knock_out_model_genes(m, g):
        from cobra.manipulation.delete import knock_out_model_genes
        knock_out_model_genes(m, [_pick(m.genes, g)])
    @reg
    def e_objective(m, g): m.objective = _pick(m.reactions, g)
    @reg
    def e_objective_dict(m, g): m.objective = {m.reactions[0]: 1.0, m.reactions[-1]: -2.0}
    @reg
    def e_objective_coefficient(m, g): _pick(m.reactions, g).objective_coefficient = 3.0
    @reg
    def e_direction(m, g): m.objective_direction = "min" if m.objective_direction == "max" else "max"
    @reg
    def e_rename_reaction(m, g):
        r = _pick(m.reactions, g); r.id = r.id + "_x"
    @reg
    def e_rename_metabolite(m, g):
        x = _pick(m.metabolites, g); x.id = x.id + "_x"
    @reg
    def e_rename_gene(m, g):
        x = _pick(m.genes, g); x.id = x.id + "_x"
    @reg
    def e_attributes(m, g):
        r = _pick(m.reactions, g); r.name = "zz"; r.subsystem = "S9"
        x = _pick(m.metabolites, g); x.name = "zz"; x.formula = "C9"; x.charge = 7; x.compartment = "x"
        _pick(m.genes, g).name = "zz"
        m.id = "renamed"; m.name = "renamed"
    @reg
    def e_add_reaction(m, g):
        r = cobra.Reaction("NEW", lower_bound=-3.0, upper_bound=4.0)
        r.add_metabolites({m.metabolites[0]: -1.0, cobra.Metabolite("fresh_c", compartment="c"): 2.0})
        r.gene_reaction_rule = "g1 and gN"
        m.add_reactions([r])
    @reg
    def e_add_boundary(m, g): m.add_boundary(_pick(m.metabolites, g), type="sink")
    @reg
    def e_remove_reaction(m, g): m.remove_reactions([_pick(m.reactions, g)], remove_orphans=True)
    @reg
    def e_remove_reaction_keep(m, g): m.remove_reactions([_pick(m.reactions, g).id])
    @reg
    def e_reaction_remove_from_model(m, g): _pick(m.reactions, g).remove_from_model()
    @reg
    def e_reaction_knock_out(m, g): _pick(m.reactions, g).knock_out()
    @reg
    def e_add_metabolite(m, g): m.add_metabolites([cobra.Metabolite("lonely_c", compartment="c")])
    @reg
    def e_remove_metabolite(m, g): m.remove_metabolites([_pick(m.metabolites, g)])
    @reg
    def e_remove_metabolite_destructive(m, g): m.remove_metabolites([_pick(m.metabolites, g)], destructive=True)
    @reg
    def e_metabolite_remove_from_model(m, g): _pick(m.metabolites, g).remove_from_model()
    @reg
    def e_group_add_member(m, g): m.groups.get_by_id("grp1").add_members([m.reactions[-1], m.metabolites[-1]])
    @reg
    def e_group_remove_member(m, g):
        grp = m.groups.get_by_id("grp2"); grp.remove_members(sorted(grp.members, key=lambda x: x.id)[:1])
    @reg
    def e_group_attributes(m, g):
        grp = _pick(m.groups, g); grp.name = "zz"; grp.kind = "classification"
    @reg
    def e_remove_group(m, g): m.remove_groups([_pick(m.groups, g)])
    @reg
    def e_add_group(m, g): m.add_groups([Group("grp3", members=[m.reactions[0], m.genes[0]])])
    @reg
    def e_add_cons(m, g):
        k = g.randrange(10 ** 6)   # unique names: the same edit may occur twice in a sequence
        v = m.problem.Variable(f"extra_v{k}", lb=-1, ub=1)
        c = m.problem.Constraint(m.reactions[-1].flux_expression + v, lb=-2, ub=2, name=f"extra_c{k}")
        m.add_cons_vars([v, c])
    @reg
    def e_remove_user_cons(m, g): m.remove_cons_vars([m.constraints["uc"], m.variables["uv"]])
    @reg
    def e_user_cons_bound(m, g): m.constraints["uc"].ub = 4
    @reg
    def e_user_cons_coefficient(m, g): m.constraints["uc2"].set_linear_coefficients({m.reactions[0].forward_variable: 9.0})
    @reg
    def e_user_var_bound(m, g): m.variables["uv"].ub = 2
    @reg
    def e_solver_variable_bound(m, g): _pick(m.reactions, g).forward_variable.ub = 7
    @reg
    def e_tolerance(m, g): m.tolerance = 1e-9
    @reg
    def e_solver_reassign(m, g): m.solver = "glpk"
    @reg
    def e_compartments(m, g): m.compartments = {"c": "changed", "q": "new"}
    @reg
    def e_repair(m, g): m.repair()
    @reg
    def e_context_edit_and_exit(m, g):
        with m:
            _pick(m.reactions, g).bounds = (-2.0, 2.0)
            _pick(m.genes, g).knock_out()
            m.objective = _pick(m.reactions, g)
            m.remove_reactions([_pick(m.reactions, g)])
    @reg
    def e_context_left_open(m, g):
        m.__enter__()
        _pick(m.reactions, g).bounds = (-2.0, 2.0)
        m.add_boundary(_pick(m.metabolites, g), type="sink")
    @reg
    def e_optimize(m, g): m.optimize()
    @reg
    def e_optimize_sense(m, g): m.optimize(objective_sense="minimize")
    @reg
    def e_slim_optimize(m, g): m.slim_optimize()
    @reg
    def e_fva(m, g):
        from cobra.flux_analysis import flux_variability_analysis
        flux_variability_analysis(m, fraction_of_optimum=0.5, processes=1)
    @reg
    def e_pfba(m, g):
        from cobra.flux_analysis import pfba
        pfba(m)
    @reg
    def e_single_gene_deletion(m, g):
        from cobra.flux_analysis import single_gene_deletion
        single_gene_deletion(m, processes=1)
    @reg
    def e_find_blocked(m, g):
        from cobra.flux_analysis import find_blocked_reactions
        find_blocked_reactions(m, processes=1)
    @reg
    def e_summary(m, g): m.summary().to_string()

    for cls in CLASSES:
        for what in META:
            def f(m, g, cls=cls, what=what):
                _meta_edit(what)(_target(m, cls, g))
            E[f"{what}:{cls}"] = f
    return E


_EDITS = None


def edits():
    global _EDITS
    if _EDITS is None:
        _EDITS = _edits()
    return _EDITS


def apply_edits(model, names, eseed):
    """apply the named edits; -> list of 'ok' / 'raised X'"""
    E = edits()
    out = []
    for i, nm in enumerate(names):
        rng = random.Random(f"C12-edit-{eseed}-{i}-{nm}")
        try:
            E[nm](model, rng)
            out.append("ok")
        except Exception as e:  # an edit may raise; the other model must still be untouched
            out.append("raised " + type(e).__name__)
    return out


def _diff_key(kind, d):
    cls, _, field = d[0], d[1], d[2]
    if field in ("notes", "annotation"):
        return f"{kind}:shares-{field}:{cls}"
    if cls == "model" and field == "compartments":
        return f"{kind}:shares-compartments:model"
    return f"{kind}:other-changed:{cls}.{field}"


def _group(kind, diffs, what):
    """diff entries -> {key: text}"""
    by = {}
    for d in diffs:
        by.setdefault(_diff_key(kind, d), []).append(d)
    return {k: f"{what}: {fmt_diff(v)}" for k, v in by.items()}


# ------------------------------------------------------------------------------------------------ part A
def case_static(mseed, ctx, kind):
    """A1-A3 -> {key: text}"""
    fails = {}
    m = build(mseed, ctx)
    try:
        c = _do_copy(kind, m)
    except Exception as e:  # noqa
        return {f"{kind}:raised": f"copying raised {e!r}"}
    # A1
    d = diff_obs(flat_obs(m), flat_obs(c), equivalence=True)
    for x in d:
        if x[0] == "solver" and x[2] == "integrality_tolerance":
            k = "copy:integrality-tolerance-lost"
        else:
            k = f"{kind}:not-equivalent:{x[0]}.{x[2]}"
        fails.setdefault(k, f"copy differs from the original: {fmt_diff([x])}")
    # A2
    for nm in ("reactions", "metabolites", "genes", "groups"):
        a, b = getattr(m, nm), getattr(c, nm)
        if a is b or a._dict is b._dict:
            fails[f"{kind}:not-distinct:{nm}"] = f"the {nm} list (or its index) is the same object in copy and original"
        for x in b:
            if x.id in a and a.get_by_id(x.id) is x:
                fails[f"{kind}:not-distinct:{nm}"] = f"{nm} {x.id} is the same object in copy and original"
            if x._model is not c:
                if nm == "groups":
                    fails["model.__setstate__:group-pointer" if kind != "model.copy" else f"{kind}:pointer:groups"] = \
                        f"group {x.id} of the copy has _model {x._model!r}, not the copy"
                else:
                    fails[f"{kind}:pointer:{nm}"] = f"{nm} {x.id} of the copy does not point at the copy"
    xr = views.check_xref(c)
    if xr:
        fails[f"{kind}:xref"] = "cross-references of the copy: " + "; ".join(xr[:3])
    if c.solver is m.solver or c.solver.problem is m.solver.problem:
        fails[f"{kind}:shares-solver"] = "copy and original hold the same solver object"
    for r in c.reactions:
        if r.forward_variable.problem is not c.solver or r.reverse_variable.problem is not c.solver:
            fails[f"{kind}:solver-variable-owner"] = f"variables of {r.id} do not belong to the copy's solver"
    if c._contexts is m._contexts or c._contexts:
        fails[f"{kind}:shares-contexts"] = f"copy starts with the context stack {c._contexts!r}"
    lp = views.check_lp_reported(c, user_vars={"uv"}, user_cons={"uc", "uc2"})
    if lp:
        fails[f"{kind}:lp"] = "solver of the copy is not the copy's problem: " + "; ".join(lp[:3])
    # A3
    for lab in shared(c, m):
        fails.setdefault(_share_key(kind, lab), f"reachable from both the copy and the original: {lab[0]} at "
                         f"{lab[1]}.{lab[2]}" + (" (nested value)" if lab[3] > 0 else " (the attribute's own value)"))
    if ctx:
        for k, t in _exit_check(kind, m, c, "closing the original's context changed the copy").items():
            fails.setdefault(k, t)
    return fails


def _exit_check(kind, m, c, what):
    """the original still has its context open: closing it must not reach the copy -> {key: text}"""
    cb = flat_obs(c)
    try:
        m.__exit__(None, None, None)
    except Exception:  # the undo of the original may fail after destructive edits of the original; not C12's business
        pass
    out = {}
    for k, t in _group(kind, diff_obs(cb, flat_obs(c)), what).items():
        k = k.replace(":other-changed:", ":context-exit-changed:")
        if k.endswith(("context-exit-changed:gene.reactions", "context-exit-changed:reaction.genes")):
            k = f"{kind}:context-open:copy-loses-genes-on-exit"   # one defect, two places where it shows
        out.setdefault(k, t)
    return out


def case_edit(mseed, ctx, kind, side, names, eseed):
    """A4 -> ({key: text}, nontrivial?, outcomes)"""
    m = build(mseed, ctx)
    try:
        c = _do_copy(kind, m)
    except Exception as e:  # noqa
        return {f"{kind}:raised": f"copying raised {e!r}"}, False, []
    edited, other = (c, m) if side == "copy" else (m, c)
    before = flat_obs(other)
    mine = flat_obs(edited, with_opt=False)
    outcome = apply_edits(edited, names, eseed)
    try:
        nontrivial = bool(diff_obs(mine, flat_obs(edited, with_opt=False))) or any(
            n in ("optimize", "optimize_sense", "slim_optimize", "fva", "pfba", "single_gene_deletion", "find_blocked",
                  "summary", "context_edit_and_exit", "repair") for n in names)
        edited_ok = True
    except Exception:  # noqa
        # the EDITED model can end up unobservable (e.g. removing the objective's reaction and then pfba leaves optlang with
        # a pending addition that raises on every update - C02 / C13 territory, see NOTES_C12.md); only the OTHER model matters
        nontrivial, edited_ok = True, False
    try:
        after = flat_obs(other)
    except Exception as e:  # noqa
        return {f"{kind}:other-unobservable": f"after {list(names)} on the {side} ({outcome}) observing the OTHER model raises "
                                              f"{type(e).__name__}: {e}"}, True, outcome
    fails = _group(kind, diff_obs(before, after), f"after {list(names)} on the {side} ({outcome}) the other model changed")
    if ctx and (edited_ok or side == "original"):
        try:
            for k, t in _exit_check(kind, m, c, f"closing the original's context (after {list(names)} on the {side}) changed "
                                    "the copy").items():
                fails.setdefault(k, t)
        except Exception as e:  # noqa
            if side == "original":   # the copy was not edited, it has to stay observable
                fails[f"{kind}:other-unobservable"] = f"after {list(names)} on the original and closing its context, observing " \
                                                     f"the copy raises {type(e).__name__}: {e}"
    return fails, nontrivial, outcome


# ------------------------------------------------------------------------------------------------ part B
def _robs(r):
    """observation of a reaction with its metabolites and genes (object identities included)"""
    def sp(x):
        return (x.id, id(x), id(x._model), tuple(sorted((y.id, id(y)) for y in x._reaction)), x.name,
                canon(x.notes), canon(x.annotation),
                (getattr(x, "formula", None), getattr(x, "charge", None), getattr(x, "compartment", None),
                 getattr(x, "functional", None)))
    return {
        "reaction": (r.id, r.name, r.subsystem, float(r._lower_bound), float(r._upper_bound), r.gene_reaction_rule,
                     views.truth_table(r.gpr), id(r._model), canon(r.notes), canon(r.annotation)),
        "stoichiometry": tuple(sorted((m.id, float(c), id(m)) for m, c in r._metabolites.items())),
        "metabolites": tuple(sorted(sp(m) for m in r._metabolites)),
        "genes": tuple(sorted(sp(g) for g in r._genes)),
    }


def _content(r):
    return (r.id, r.name, r.subsystem, float(r._lower_bound), float(r._upper_bound), views.truth_table(r.gpr),
            tuple(sorted((m.id, float(c)) for m, c in r._metabolites.items())), canon(r.notes), canon(r.annotation),
            tuple(sorted((m.id, m.name, m.formula, m.charge, m.compartment, canon(m.notes), canon(m.annotation))
                         for m in r._metabolites)),
            tuple(sorted((g.id, g.name, bool(g.functional), canon(g.notes), canon(g.annotation)) for g in r._genes)))


def detached_reactions(mseed, private):
    """model-less reactions built from the description of build(mseed): sharing Metabolite objects, or (private) each
    with its own Metabolite objects"""
    import cobra
    m = build(mseed, False)
    shared_mets = {}
    out = []
    for r in m.reactions:
        n = cobra.Reaction(r.id, name=r.name, lower_bound=r.lower_bound, upper_bound=r.upper_bound)
        st = {}
        for met, c in sorted(r.metabolites.items(), key=lambda kv: kv[0].id):
            if private:
                x = cobra.Metabolite(met.id, compartment=met.compartment, formula=met.formula)
            else:
                x = shared_mets.setdefault(met.id, cobra.Metabolite(met.id, compartment=met.compartment, formula=met.formula))
            x.notes, x.annotation = sample_meta(met.id)
            st[x] = c
        n.add_metabolites(st)
        n.gene_reaction_rule = r.gene_reaction_rule
        n.notes, n.annotation = sample_meta(r.id)
        out.append(n)
    return out


OPS = ("copy", "__add__", "__radd__", "__sub__", "__mul__:2", "__mul__:-1", "__mul__:0.5")
MODES = ("in-model", "in-model-context", "model-less-shared", "model-less-private")


def case_reaction(mseed, mode, op, i, j):
    """-> ({key: text}, info)"""
    quiet()
    fails = {}
    model = None
    if mode.startswith("in-model"):
        model = build(mseed, mode == "in-model-context")
        rs = list(model.reactions)
    else:
        rs = detached_reactions(mseed, mode == "model-less-private")
    r1, r2 = rs[i % len(rs)], rs[j % len(rs)]
    operands = [r1] if op == "copy" or op.startswith("__mul__") else [r1, r2]
    name = "reaction." + op.split(":")[0]
    before = [_robs(x) for x in operands]
    mb = flat_obs(model) if model is not None else None
    try:
        if op == "copy":
            n = r1.copy()
        elif op == "__add__":
            n = r1 + r2
        elif op == "__radd__":
            n = sum([r1, r2])
        elif op == "__sub__":
            n = r1 - r2
        else:
            n = r1 * float(op.split(":")[1])
    except Exception as e:  # noqa
        fails[f"{name}:raised"] = f"{op} on {mode} reactions raised {e!r}"
        n = None
    after = [_robs(x) for x in operands]
    changed = False
    for x, a, b in zip(operands, before, after):
        if a != b:
            changed = True
            parts = [k for k in a if a[k] != b[k]]
            detail = ""
            only_listing = False
            if parts == ["metabolites"] and n is not None:
                # is the only change that metabolites of the operand now list the RESULT among their reactions?
                da = dict((t[0], t) for t in a["metabolites"])
                only_listing = True
                for t in b["metabolites"]:
                    o = da.get(t[0])
                    if o == t:
                        continue
                    if o is None or o[:3] + o[4:] != t[:3] + t[4:] or set(t[3]) - set(o[3]) != {(n.id, id(n))} or set(o[3]) - set(t[3]):
                        only_listing = False
                    detail = f" e.g. metabolite {t[0]}: reactions {[y[0] for y in o[3]] if o else None} -> {[y[0] for y in t[3]]}"
            if only_listing:
                # DESIGN section 9 #16: one root cause for +, sum() and - (Reaction.add_metabolites on a model-less reaction
                # adopts the operand's Metabolite object)
                fails["reaction.arithmetic:result-shares-operand-metabolites"] = \
                    f"{op} ({mode}) on {[y.id for y in operands]}: the result uses Metabolite objects of operand {x.id}, whose " \
                    f"metabolites now list the result among their reactions;{detail}"
            else:
                fails[f"{name}:operand-changed:" + "+".join(parts)] = f"{op} ({mode}) changed operand {x.id} in {parts}{detail}"
    if model is not None:
        d = diff_obs(mb, flat_obs(model))
        if d:
            changed = True
            fails[f"{name}:operand-changed:model"] = f"{op} ({mode}) changed the operands' model: {fmt_diff(d)}"
    if n is None:
        return fails, {}
    # detached
    det = []
    if n._model is not None:
        det.append("result has a model")
    for x in list(n._metabolites) + list(n._genes):
        if x._model is not None:
            det.append(f"{x.id} of the result points at a model")
        if n not in x._reaction:
            det.append(f"{x.id} of the result does not list the result")
    sh = []
    for x in operands:
        sh += shared(n, x)
    if sh:
        det.append("reachable from both the result and an operand: " + ", ".join(f"{s[0]} at {s[1]}.{s[2]}" for s in sorted(set(sh))[:4]))
    if det and not changed:
        fails[f"{name}:not-detached"] = f"{op} ({mode}) on {[x.id for x in operands]}: " + "; ".join(det[:4])
    if op == "copy" and _content(n) != _content(r1):
        fails["reaction.copy:content"] = f"copy of {r1.id} ({mode}) differs from it"
    # later edits of one side do not show on the other (skipped when sharing was already reported)
    if not changed and not det:
        ob = [_robs(x) for x in operands]
        mb = flat_obs(model) if model is not None else None
        try:
            n.bounds = (-1.5, 1.5)
            n.name = "edited"
            n.notes.setdefault("nested", {}).setdefault("k", []).append(5)
            n.annotation.setdefault("kegg", []).append("Z")
            for met in sorted(n._metabolites, key=lambda x: x.id)[:2]:
                met.name = "edited"
                met.notes.setdefault("nested", {}).setdefault("k", []).append(5)
                met.annotation.setdefault("kegg", []).append("Z")
                met.id = met.id + "_edited"
            if n._metabolites:   # a sum may cancel to the empty reaction
                n.add_metabolites({sorted(n._metabolites, key=lambda x: x.id)[0]: 1.0})
            n.gene_reaction_rule = "gQ"
            for g in n._genes:
                g.functional = False
        except Exception as e:  # noqa
            fails[f"{name}:result-edit-raised"] = f"editing the result of {op} ({mode}) raised {e!r}"
        if [_robs(x) for x in operands] != ob or (model is not None and diff_obs(mb, flat_obs(model))):
            fails[f"{name}:operand-follows-result"] = f"editing the result of {op} ({mode}) changed an operand"
        nb = _robs(n)
        try:
            r1.bounds = (-2.5, 2.5)
            r1.notes.setdefault("nested", {}).setdefault("k", []).append(6)
            r1.annotation.setdefault("kegg", []).append("Y")
            for met in sorted(r1._metabolites, key=lambda x: x.id)[:2]:
                met.name = "edited2"
                met.notes.setdefault("nested", {}).setdefault("k", []).append(6)
                met.annotation.setdefault("refs", [["is", "u"]])[0][1] = "changed"
            if r1._metabolites:
                r1.add_metabolites({sorted(r1._metabolites, key=lambda x: x.id)[0]: 1.0})
            r1.gene_reaction_rule = "gP or gQ"
        except Exception as e:  # noqa
            pass
        if _robs(n) != nb:
            fails[f"{name}:result-follows-operand"] = f"editing {r1.id} after {op} ({mode}) changed the result"
    if model is not None and model._contexts:
        model.__exit__(None, None, None)
    return fails, {"mode": mode, "op": op, "operands": [x.id for x in operands]}


def case_metabolite(mseed, mode, i):
    quiet()
    fails = {}
    model = build(mseed, mode == "in-model-context")
    x = model.metabolites[i % len(model.metabolites)]
    mb = flat_obs(model)
    n = x.copy()
    d = diff_obs(mb, flat_obs(model))
    if d:
        fails["metabolite.copy:operand-changed"] = f"Metabolite.copy of {x.id} changed the model: {fmt_diff(d)}"
    if n._model is not None or n._reaction or n is x:
        fails["metabolite.copy:not-detached"] = f"copy of {x.id}: model {n._model!r}, reactions {n._reaction!r}"
    sh = shared(n, x)
    if sh:
        fails["metabolite.copy:not-detached"] = f"copy of {x.id} shares {sh[:3]} with it"
    if (n.id, n.name, n.formula, n.charge, n.compartment, canon(n.notes), canon(n.annotation)) != \
            (x.id, x.name, x.formula, x.charge, x.compartment, canon(x.notes), canon(x.annotation)):
        fails["metabolite.copy:content"] = f"copy of {x.id} differs from it"
    if not fails:
        n.notes["nested"]["k"].append(1)
        n.annotation["kegg"].append("Q")
        n.name, n.formula, n.charge, n.compartment = "e", "C77", 9, "zz"
        n.id = "other"
        d = diff_obs(mb, flat_obs(model))
        if d:
            fails["metabolite.copy:operand-follows-result"] = f"editing the copy of {x.id} changed the model: {fmt_diff(d)}"
        nb = (n.id, n.name, n.formula, canon(n.notes), canon(n.annotation))
        x.notes["nested"]["k"].append(2)
        x.annotation["kegg"].append("R")
        x.name = "f"
        if nb != (n.id, n.name, n.formula, canon(n.notes), canon(n.annotation)):
            fails["metabolite.copy:result-follows-operand"] = f"editing {x.id} changed its copy"
    if model._contexts:
        model.__exit__(None, None, None)
    return fails, {"mode": mode, "metabolite": x.id}


# ------------------------------------------------------------------------------------------------ tasks
def _run_task(task):
    quiet()
    t = task["part"]
    try:
        if t == "static":
            f = case_static(task["mseed"], task["ctx"], task["kind"])
            return task, f, True
        if t == "edit":
            f, nontrivial, _ = case_edit(task["mseed"], task["ctx"], task["kind"], task["side"], tuple(task["edits"]), task["eseed"])
            return task, f, nontrivial
        if t == "reaction":
            f, _ = case_reaction(task["mseed"], task["mode"], task["op"], task["i"], task["j"])
            return task, f, True
        if t == "metabolite":
            f, _ = case_metabolite(task["mseed"], task["mode"], task["i"])
            return task, f, True
    except Exception as e:  # the harness itself must not die silently
        import traceback
        return task, {"harness:error": f"{type(e).__name__}: {e}; {traceback.format_exc()[-600:]}"}, False
    raise ValueError(t)


FIXED_MODELS = {"quick": [0, 1, 2, 3], "thorough": [0, 1, 2, 3, 4, 5, 6, 7]}          # seed-independent (quick is a subset)
PAIRS = {"quick": [(0, 1), (1, 0), (2, 3), (3, 1)],
         "thorough": [(0, 1), (1, 0), (2, 3), (3, 1), (0, 2), (2, 0), (1, 3), (4, 1), (2, 4), (0, 0)]}


def witness(task):
    """stable, seed-independent identification of a case of the FIXED part"""
    t = task["part"]
    if t == "static":
        return f"static|m{task['mseed']}|ctx{int(task['ctx'])}|{task['kind']}"
    if t == "reaction":
        return f"reaction|m{task['mseed']}|{task['mode']}|{task['op']}|{task['i']},{task['j']}"
    if t == "metabolite":
        return f"metabolite|m{task['mseed']}|{task['mode']}|{task['i']}"
    return f"edit|m{task['mseed']}|ctx{int(task['ctx'])}|{task['kind']}|{task['side']}|{'+'.join(task['edits'])}|e{task['eseed']}"


def tasks_for(tier, seed):
    """FIXED part (task['fixed'] = True; the same for every seed): static checks A1-A3 and part B (reaction / metabolite
    operations) on FIXED_MODELS.  SEEDED part: the edit cases A4 (every single edit + seeded depth-2 sequences) and the static
    checks on models drawn from the seed (model numbers >= 1000, disjoint from the fixed ones)."""
    rng = random.Random(f"C12-run-{seed}")
    n_models = 4 if tier == "quick" else 40
    n_pairs = 260 if tier == "quick" else 20000
    names = sorted(edits())
    tasks = []
    # ---- fixed
    for ms in FIXED_MODELS[tier]:
        for ctx in (False, True):
            for kind in KINDS:
                tasks.append({"part": "static", "mseed": ms, "ctx": ctx, "kind": kind, "fixed": True})
        for mode in MODES:
            for op in OPS:
                pairs = PAIRS[tier]
                if op == "copy" or op.startswith("__mul__"):
                    pairs = sorted({(a, 0) for a, _ in pairs})
                for i, j in pairs:
                    tasks.append({"part": "reaction", "mseed": ms, "mode": mode, "op": op, "i": i, "j": j, "fixed": True})
        for mode in ("in-model", "in-model-context"):
            for i in range(3):
                tasks.append({"part": "metabolite", "mseed": ms, "mode": mode, "i": i, "fixed": True})
    # ---- seeded
    mseeds = [(seed + 1) * 1000 + k for k in range(n_models)]
    for ms in mseeds:
        for ctx in (False, True):
            for kind in KINDS:
                tasks.append({"part": "static", "mseed": ms, "ctx": ctx, "kind": kind, "fixed": False})
                for side in ("copy", "original"):
                    for nm in names:
                        tasks.append({"part": "edit", "mseed": ms, "ctx": ctx, "kind": kind, "side": side, "edits": [nm],
                                      "eseed": seed, "fixed": False})
    for k in range(n_pairs):
        tasks.append({"part": "edit", "mseed": rng.choice(mseeds), "ctx": rng.random() < 0.5, "kind": rng.choice(KINDS),
                      "side": rng.choice(["copy", "original"]), "edits": [rng.choice(names), rng.choice(names)],
                      "eseed": seed * 100000 + k, "fixed": False})
    return tasks


def execute(tasks, tier="quick", seed=0):
    order = list(range(len(tasks)))
    random.Random(seed).shuffle(order)
    shuffled = [tasks[i] for i in order]
    items, distinct = [], set()
    for task, (status, val) in zip(shuffled, run_tasks(_run_task, shuffled, nproc=16, task_timeout=300 if tier == "quick" else 900)):
        rp = {k: v for k, v in task.items() if k != "fixed"}
        if status == "ok":
            _, f, nontrivial = val
            if nontrivial:
                distinct.add(witness(task))
        else:  # the worker process died / hung / raised outside the guarded part: a finding, not a harness hiccup
            f = {f"{task.get('kind') or 'reaction'}:{status}": f"task {task} ended with {status}: {val}"}
        items.append((task["fixed"], witness(task), rp, f))
    return collect_failures(items), len(items), len(distinct)


def run(tier="quick", seed=0):
    quiet()
    import cobra  # noqa: F401  (import before the fork)
    t0 = time.time()
    tasks = tasks_for(tier, seed)
    out_f, n, distinct = execute(tasks, tier, seed)
    n_by = {}
    for t in tasks:
        k = ("fixed:" if t["fixed"] else "seeded:") + t["part"]
        n_by[k] = n_by.get(k, 0) + 1
    return {
        "evaluations": n,
        "distinct_nontrivial": distinct,
        "rule": "case = (generated decorated model, context open at copy time?, copy kind, edited side, edit sequence) or "
                "(model, mode, reaction operation, operand pair); distinct by construction (different tuple); non-trivial = the "
                "edit sequence changed the flat observation of the edited model (or is an optimisation/analysis), every static "
                "and reaction/metabolite case counts. Fixed part: static + reaction/metabolite cases on models "
                f"{FIXED_MODELS[tier]} (every failing witness reported); seeded part: edit cases and static cases on models "
                "drawn from the seed (one entry per class, witness random:<class>)",
        "bounds": {"models": len({t["mseed"] for t in tasks}), "metabolites": "2-4", "reactions": "2-5 + exchanges",
                   "copy_kinds": list(KINDS), "edit_catalogue": len(edits()), "depth": 2, "by_part": n_by,
                   "seconds": round(time.time() - t0, 1)},
        "exhaustive": False,
        "samples": [{k: v for k, v in tasks[i].items() if k != "fixed"} for i in (0, len(tasks) // 2, len(tasks) - 1)],
        "failures": out_f,
    }


def replay(payload):
    quiet()
    task = {k: v for k, v in payload.items() if k not in ("key", "witness", "fixed")}
    _, f, _ = _run_task(task)
    key = payload.get("key")
    if key is None:
        return "; ".join(f"{k}: {v}" for k, v in f.items()) or None
    return f.get(key)
