"""C06 — deletion analyses report the optimum of each knocked-out model (bounded stand-in driver).

Models: seeded small networks with gene rules (`bcc.c06_models`): "growth" networks (uptake -> redundant routes with
capacities -> biomass, optional forced maintenance drain so that some knock-outs are infeasible; a few with the large
bounds opened to infinity so that the wild type and many knock-outs are unbounded) and arbitrary random networks
(`bcc.gen.random_model`: forced fluxes, infinite bounds, min direction, two-term objectives, infeasible wild types).  Rules are random and/or trees with <= 4 leaves over 2..5 shared genes.

For every model a rotating set of calls to single_/double_ gene_/reaction_deletion (lists: None = all, partial, with
repeats inside a list and between the two lists of a double deletion; given as objects, ids or mixed; method fba or
linear moma; processes 1, 2, 3) and to find_essential_genes / find_essential_reactions (default and explicit thresholds).
Every call runs on a freshly built model.

Oracle (exact rational LPs built from the generator's own spec, `bcc.oracle_lp`):
  rows     : exactly one row per requested unordered combination (set of frozensets), no row twice, nothing else;
  fba      : growth == exact optimum of the model with the named reactions — for genes: the reactions whose rule is false
             by `bcc.c07_rules.holds` — fixed to 0 (NaN and status != optimal iff no optimum exists);
  moma     : the reference used is observed (spy on the `pfba` call made by `add_moma`, or the `solution=` we pass) and,
             when computed by cobra, checked to be a pFBA optimum of the wild type (feasible, optimal, minimal total
             flux); then  min sum|v - ref|  over the knocked-out model is solved exactly, and the reported growth must
             lie in the exact range of the original objective over the set of minimal-adjustment solutions (a single
             value when that set fixes the objective — counted as `moma_unique`); status optimal iff the knocked-out
             model is feasible; when it is not, growth must not be a number (there is no minimal-adjustment solution);
  essential: returned ids == {x : no optimum after deleting x, or optimum < threshold}, entities whose exact growth is
             within 1e-6 of the threshold are not compared.
linear ROOM is not compared: the statement does not speak about it (and `_get_growth` reports the ROOM objective there).
"""
import math
import os
import random
import sys
import time
import warnings

from bcc import c06_models as M
from bcc import c07_rules as R

KNOWN_KEYS = set()
NAN = float("nan")


def _quiet():
    warnings.filterwarnings("ignore")
    import logging
    for n in ("cobra", "optlang"):
        logging.getLogger(n).setLevel(logging.CRITICAL)


def _close(a, b):
    from bcc.oracle_lp import close
    return close(a, b)


# ----------------------------------------------------------------------------------------------------------------------
# call descriptions
# ----------------------------------------------------------------------------------------------------------------------
def _sub(rng, items, allow_dup=True):
    if not items:
        return []
    k = rng.randint(1, len(items))
    out = rng.sample(items, k)
    if allow_dup and rng.random() < 0.25:
        out.append(rng.choice(out))
    return out


def make_calls(spec, rng, wt_status, tier):
    """the calls made for one model: list of JSON-able call descriptions"""
    genes = M.gene_ids(spec)
    rxns = [r[0] for r in spec["rxns"]]
    calls = []
    forms = ["obj", "str", "mixed"]
    P = [1, 2, 3]
    rng.shuffle(P)

    def lists_single(items):
        return rng.choice([[None], [None], [_sub(rng, items)]])

    def lists_double(items):
        c = rng.random()
        if c < 0.3:
            return [None, None]
        if c < 0.5:
            return [_sub(rng, items), None]
        a = _sub(rng, items)
        b = _sub(rng, items)
        if c < 0.8 and a:
            b = list(dict.fromkeys(b + [rng.choice(a)]))  # force a repeat between the two lists
        return [a, b]

    i = 0
    for fn, items in (("single_gene", genes), ("double_gene", genes), ("single_reaction", rxns), ("double_reaction", rxns)):
        if not items:
            continue
        n_var = 2 if tier == "quick" else 3
        for v in range(n_var):
            lists = (lists_double if fn.startswith("double") else lists_single)(items)
            if v == 0:
                lists = [None] * len(lists)
            calls.append({"fn": fn, "lists": lists, "as": forms[(i + v) % 3], "method": "fba", "processes": P[(i + v) % 3],
                          "solution": None})
        i += 1
    if wt_status == "optimal":
        k = rng.randrange(3)
        for fn, items in (("single_gene", genes), ("single_reaction", rxns), ("double_gene", genes), ("double_reaction", rxns)):
            if not items:
                continue
            if fn.startswith("double"):
                if tier == "quick" and rng.random() < 0.5:
                    continue
                lists = [_sub(rng, items, False)[:3], _sub(rng, items, False)[:3]]
            else:
                lists = lists_single(items)
            calls.append({"fn": fn, "lists": lists, "as": forms[k % 3], "method": "linear moma", "processes": P[k % 3],
                          "solution": [None, None, "fba", "pfba"][k % 4]})
            k += 1
        thr = [None, None, "half", "above", "zero", "tiny"]
        rng.shuffle(thr)
        for j, (fn, items) in enumerate((("essential_genes", genes), ("essential_reactions", rxns))):
            if not items:
                continue
            for v in range(2 if tier == "quick" else 4):
                calls.append({"fn": fn, "threshold": thr[(j + 2 * v) % len(thr)] if v else None, "processes": P[(j + v) % 3]})
    return calls


# ----------------------------------------------------------------------------------------------------------------------
# executing and checking one call
# ----------------------------------------------------------------------------------------------------------------------
class Oracle:
    def __init__(self, spec):
        self.spec = spec
        self.fba = {}
        self.n_exact = 0

    def off(self, kind, ids):
        return M.reactions_off(self.spec, ids) if kind == "gene" else frozenset(ids)

    def opt(self, off):
        if off not in self.fba:
            self.fba[off] = M.fba_exact(self.spec, off)
            self.n_exact += 1
        return self.fba[off]


def _requested(spec, kind, lists):
    import itertools
    allv = M.gene_ids(spec) if kind == "gene" else [r[0] for r in spec["rxns"]]
    ls = []
    for l in lists:
        if l is None:
            ls.append(ls[-1] if ls else allv)
        else:
            ls.append(l)
    return {frozenset(c) for c in itertools.product(*ls)}


def run_call(spec, call, oracle=None, stats=None):
    """-> list of (key, text).  Builds a fresh model, performs the call, compares with the exact oracle."""
    from cobra import flux_analysis as FA
    from cobra.flux_analysis.variability import find_essential_genes, find_essential_reactions
    oracle = oracle or Oracle(spec)
    stats = stats if stats is not None else {}
    model = M.build(spec)
    out = []
    fn = call["fn"]
    kind = "gene" if "gene" in fn else "reaction"

    def bump(k, n=1):
        stats[k] = stats.get(k, 0) + n

    if fn.startswith("essential"):
        st, wt = oracle.opt(frozenset())
        if st != "optimal":
            return out
        thr_kind = call.get("threshold")
        thr = {None: None, "half": 0.5 * float(wt), "above": float(wt) + 1.0, "zero": 0.0, "tiny": 1e-3}[thr_kind]
        f = find_essential_genes if kind == "gene" else find_essential_reactions
        try:
            ret = f(model, threshold=thr, processes=call["processes"])
        except Exception as e:  # noqa
            return [(f"{fn}:raises", f"{fn}(threshold={thr}, processes={call['processes']}) raised {e!r}")]
        eff = 0.01 * float(wt) if thr is None else thr
        items = M.gene_ids(spec) if kind == "gene" else [r[0] for r in spec["rxns"]]
        try:
            got = {x.id for x in ret}
        except Exception:  # noqa
            return [(f"{fn}:type", f"{fn} returned {ret!r}")]
        exp, band = set(), set()
        for x in items:
            st, v = oracle.opt(oracle.off(kind, [x]))
            if st == "unknown":
                band.add(x)
            elif st != "optimal":
                exp.add(x)
            elif abs(float(v) - eff) <= 1e-6 * max(1.0, abs(eff)):
                band.add(x)
            elif float(v) < eff:
                exp.add(x)
        bump("essential_entities", len(items))
        bump("essential_true", len(exp))
        if got - band != exp - band:
            out.append((f"{fn}:set", f"{fn}(threshold={thr_kind}->{eff}, processes={call['processes']}) returned "
                                     f"{sorted(got)}, expected {sorted(exp)} (undecided at tolerance: {sorted(band)}); "
                                     f"wild-type optimum {float(wt)}"))
        return out

    # ---- deletions
    lists = call["lists"]
    form = call["as"]
    if form == "mixed":
        args = []
        for k, l in enumerate(lists):
            dl = model.genes if kind == "gene" else model.reactions
            args.append(None if l is None else [dl.get_by_id(x) for x in l] if k % 2 == 0 else list(l))
    else:
        dl = model.genes if kind == "gene" else model.reactions
        args = [None if l is None else [dl.get_by_id(x) for x in l] if form == "obj" else list(l) for l in lists]
    f = getattr(FA, fn + "_deletion")
    method = call["method"]
    kw = {}
    ref = None
    captured = []
    moma_mod = sys.modules["cobra.flux_analysis.moma"]
    orig_pfba = moma_mod.pfba
    if method == "linear moma":
        if call.get("solution") == "fba":
            kw["solution"] = model.optimize()
        elif call.get("solution") == "pfba":
            kw["solution"] = FA.pfba(model)
        if "solution" in kw:
            ref = {r[0]: float(kw["solution"].fluxes[r[0]]) for r in spec["rxns"]}

        def spy(*a, **k):
            s = orig_pfba(*a, **k)
            captured.append(s)
            return s
        moma_mod.pfba = spy
    try:
        res = f(model, *args, method=method, processes=call["processes"], **kw)
    except Exception as e:  # noqa
        return [(f"{fn}:{method}:raises", f"{fn}_deletion({lists}, method={method}, processes={call['processes']}) raised {e!r}")]
    finally:
        moma_mod.pfba = orig_pfba
    exp_rows = _requested(spec, kind, lists)
    try:
        got_rows = [frozenset(x) for x in res["ids"]]
        growth = [float(x) for x in res["growth"]]
        status = [str(x) for x in res["status"]]
    except Exception as e:  # noqa
        return [(f"{fn}:frame", f"result frame unusable: {e!r}")]
    bump("rows", len(got_rows))
    if len(set(got_rows)) != len(got_rows) or set(got_rows) != exp_rows:
        missing = sorted(sorted(x) for x in exp_rows - set(got_rows))
        extra = sorted(sorted(x) for x in set(got_rows) - exp_rows)
        dup = sorted({tuple(sorted(x)) for x in got_rows if got_rows.count(x) > 1})
        out.append((f"{fn}:rows", f"{fn}_deletion(lists={lists}, as {form}, processes={call['processes']}): "
                                  f"{len(got_rows)} rows for {len(exp_rows)} requested combinations; missing {missing[:4]}, "
                                  f"not requested {extra[:4]}, repeated {dup[:4]}"))
    if method == "linear moma":
        if ref is None:
            if len(captured) != 1:
                out.append((f"{fn}:moma:reference", f"add_moma computed {len(captured)} pFBA references"))
                return out
            ref = {r[0]: float(captured[0].fluxes[r[0]]) for r in spec["rxns"]}
            bad = _check_pfba_reference(spec, ref)
            if bad:
                out.append((f"{fn}:moma:reference", bad))
                return out
    for ids, g, s in zip(got_rows, growth, status):
        off = oracle.off(kind, ids)
        if method == "fba":
            st, v = oracle.opt(off)
            if st == "unknown":
                bump("oracle_unknown")
                continue
            if off:
                bump("nontrivial_rows")
            if st == "optimal":
                if s != "optimal" or not _close(g, v):
                    out.append((f"{fn}:fba:growth", f"{sorted(ids)} (reactions off: {sorted(off)}): growth {g} status {s}, "
                                                    f"exact optimum {float(v)} (p={call['processes']})"))
            else:
                if s == "optimal" or not math.isnan(g):
                    out.append((f"{fn}:fba:no-optimum", f"{sorted(ids)} (reactions off: {sorted(off)}): growth {g} status {s}, "
                                                        f"but the knocked-out model is {st} (p={call['processes']})"))
        else:
            st, dist, rng_ = M.moma_exact(spec, off, ref)
            bump("moma_rows")
            if st == "unknown" or (st == "optimal" and (rng_[0] is None or rng_[1] is None)):
                bump("oracle_unknown")
                continue
            if st == "optimal":
                lo, hi = float(rng_[0]), float(rng_[1])
                unique = _close(lo, hi)
                bump("moma_unique" if unique else "moma_range")
                tol = 1e-6 * max(1.0, abs(lo), abs(hi))
                if s != "optimal" or math.isnan(g) or not (lo - tol <= g <= hi + tol):
                    out.append((f"{fn}:moma:growth", f"{sorted(ids)} (reactions off: {sorted(off)}): growth {g} status {s}; "
                                                     f"original objective over the minimal-adjustment solutions (distance "
                                                     f"{float(dist)}) is [{lo}, {hi}] (p={call['processes']}, "
                                                     f"reference={call.get('solution') or 'pfba by add_moma'})"))
            else:
                bump("moma_infeasible")
                if s == "optimal":
                    out.append((f"{fn}:moma:status", f"{sorted(ids)} (reactions off: {sorted(off)}): status optimal, growth {g}, "
                                                     f"but the knocked-out model is {st}"))
                elif not math.isnan(g):
                    out.append(("moma:infeasible-growth-is-a-number",
                                f"{fn}_deletion(method='linear moma') {sorted(ids)} (reactions off: {sorted(off)}): the "
                                f"knocked-out model is {st} (status {s}) — there is no minimal-adjustment solution — yet "
                                f"growth is reported as {g} instead of NaN (p={call['processes']})"))
    # knockout accessor: a row can be found again by its combination
    try:
        for ids in list(exp_rows)[:3]:
            sel = res.knockout[set(ids)] if len(ids) > 1 else res.knockout[next(iter(ids))]
            if len(sel) != 1 or frozenset(sel.ids.iloc[0]) != ids:
                out.append((f"{fn}:accessor", f"result.knockout[{sorted(ids)}] gives {len(sel)} rows"))
    except Exception as e:  # noqa
        out.append((f"{fn}:accessor", f"result.knockout raised {e!r}"))
    return out


def _check_pfba_reference(spec, ref):
    """is the observed reference a pFBA optimum of the wild type? -> text or None"""
    st, opt, tot = M.pfba_exact(spec)
    if st != "optimal":
        return None
    for k in spec["mets"]:
        s = sum(r[3].get(k, 0.0) * ref[r[0]] for r in spec["rxns"])
        if abs(s) > 1e-6:
            return f"reference computed by add_moma violates the balance of {k} by {s}"
    for rid, lb, ub, *_ in spec["rxns"]:
        if ref[rid] < lb - 1e-6 or ref[rid] > ub + 1e-6:
            return f"reference flux of {rid} = {ref[rid]} outside [{lb}, {ub}]"
    obj = sum(c * ref[k] for k, c in spec["objective"].items())
    if not _close(obj, opt):
        return f"reference computed by add_moma has objective {obj}, wild-type optimum is {float(opt)}"
    total = sum(abs(v) for v in ref.values())
    if not _close(total, tot):
        return f"reference computed by add_moma has total flux {total}, the pFBA minimum is {float(tot)}"
    return None


# ----------------------------------------------------------------------------------------------------------------------
def _model_task(args):
    idx, seed, tier = args
    _quiet()
    rng = random.Random(seed)
    c = rng.random()
    spec = M.growth_spec(rng) if c < 0.62 else M.unbounded_spec(rng) if c < 0.68 else M.random_spec(rng, safe=c < 0.82)
    oracle = Oracle(spec)
    st, wt = oracle.opt(frozenset())
    calls = make_calls(spec, rng, st, tier)
    stats = {}
    fails = []
    for call in calls:
        try:
            res = run_call(spec, call, oracle, stats)
        except Exception as e:  # noqa
            import traceback
            res = [("driver-error", f"{call}: {e!r} {traceback.format_exc()[-400:]}")]
        for key, text in res:
            fails.append({"key": key, "failure": text, "replay": {"spec": M.jsonable(spec), "call": call, "key": key}})
    sample = {"reactions": [[r[0], r[1], r[2], r[3], None if r[4] is None else R.render(R.from_json(r[4]), spec["genes"])]
                            for r in M.jsonable(spec)["rxns"]],
              "wild_type": [st, None if wt is None else float(wt)], "calls": calls[:3]} if idx < 2 else None
    stats["calls"] = len(calls)
    stats["exact_lps"] = oracle.n_exact
    stats["wt_" + st] = 1
    return stats, fails, sample


def run(tier, seed):
    _quiet()
    import cobra  # noqa (before the fork)
    from concurrent.futures import ProcessPoolExecutor
    import multiprocessing as mp
    t0 = time.time()
    rng = random.Random(seed)
    n_models = 180 if tier == "quick" else 1200
    tasks = [(i, rng.randrange(10 ** 9), tier) for i in range(n_models)]
    # non-daemonic workers (the code under test starts its own pools inside them)
    with ProcessPoolExecutor(min(16, os.cpu_count() or 1), mp_context=mp.get_context("fork")) as ex:
        results = list(ex.map(_model_task, tasks, chunksize=2))
    stats = {}
    merged = {}
    for st, fails, _ in results:
        for k, v in st.items():
            stats[k] = stats.get(k, 0) + v
        for f in fails:
            if f["key"] in merged:
                merged[f["key"]]["_n"] += 1
                if len(str(f["replay"])) < len(str(merged[f["key"]]["replay"])):
                    f["_n"] = merged[f["key"]]["_n"]
                    merged[f["key"]] = f
            else:
                f["_n"] = 1
                merged[f["key"]] = f
    failures = []
    for f in merged.values():
        f["failure"] += f"  [{f.pop('_n')} occurrences]"
        failures.append(f)
    stats["seconds"] = round(time.time() - t0, 1)
    return {
        "evaluations": stats.get("rows", 0) + stats.get("essential_entities", 0),
        "distinct_nontrivial": stats.get("nontrivial_rows", 0) + stats.get("moma_rows", 0) + stats.get("essential_true", 0),
        "rule": "evaluation = one result row of a deletion call (or one entity of an essential-set call) compared with the "
                "exact LP of the independently knocked-out spec; non-trivial = the knock-out switches off at least one "
                "reaction (fba rows), any linear-moma row, any truly essential entity; models differ by seed so rows are "
                "distinct up to chance",
        "bounds": dict(stats, models=n_models, max_reactions=10, max_genes=5, max_leaves=4, processes=[1, 2, 3],
                       methods=["fba", "linear moma"]),
        "exhaustive": False,
        "samples": [s for _, _, s in results if s][:2],
        "failures": sorted(failures, key=lambda f: f["key"]),
    }


def replay(payload):
    _quiet()
    spec = M.unjson(payload["spec"])
    res = run_call(spec, payload["call"])
    want = payload.get("key")
    for key, text in res:
        if want is None or key == want:
            return text
    return None
