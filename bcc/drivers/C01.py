"""Bounded driver for C01 - the solver always holds exactly the model's flux-balance problem.

Histories of public model-editing operations (bcc.histories_c01c02) on small models under `glpk` and `glpk_exact`;
after EVERY step, also after steps that raise, `bcc.views.check_lp_reported(model, user_vars, user_cons)` must be empty:
the GLPK problem read back through swiglpk is the flux-balance problem of the Python objects with the reported objective
and direction, plus only the variables / constraints the history itself added through add_cons_vars (or merged in).
Models produced or touched on the way (copies, the original after a copy, the right operand of a merge) are checked too.
"""
from bcc import histories_c01c02 as H

# failures: {"key": class, "witness": "<base>|<solver>|<canonical JSON of the minimal history>" (or "random:<class>"),
#            "source": "deterministic" | "random", "failure": text, "replay": {...}} - see NOTES_C01.md / KNOWN_C01.json

KNOWN_KEYS = set()


def run(tier: str, seed: int) -> dict:
    return H.explore("C01", tier, seed)


def replay(payload_replay: dict):
    p = dict(payload_replay)
    p.setdefault("mode", "C01")
    return H.replay(p)
